//! C31: address-to-space resolution (SFT map, VM map descriptor, is_in_mmtk_spaces) against what
//! the binding knows: where its live objects are, which semantics they were allocated with, the
//! static space table, and addresses that cannot belong to MMTk.
use crate::obj::*;
use crate::shadow::*;
use crate::world::{violation, with_report, world};
use mmtk::memory_manager;
use mmtk::util::{Address, ObjectReference};
use mmtk::verif::SpaceInfo;
use std::collections::HashSet;
use vcommon::{mix, Rng, J};

fn addr(a: usize) -> Address {
    unsafe { Address::from_usize(a) }
}

struct Res {
    name: &'static str,
    desc: usize,
    in_spaces: bool,
}

/// All three resolution mechanisms for one word-aligned non-zero address; a panic is a violation.
fn resolve(a: usize, ctx: &str) -> Option<Res> {
    let r = vcommon::trap_panic(|| {
        let name = mmtk::verif::sft_name(addr(a));
        // The VM map is only consulted where MMTk itself consults it: for addresses the SFT
        // attributes to a space.  (Map64's descriptor table has no entry for the last 2 TiB
        // slot below heap_end, which no space can occupy; indexing it would panic.)
        // Map32 (the discontiguous layout) makes `get_descriptor_for_address` total on purpose (a
        // bounds-checked table lookup that yields the uninitialised descriptor), so there the VM
        // map is consulted for every address.
        let map32 = crate::world::world().cfg.layout == "map32";
        let desc = if name != "empty" || map32 { mmtk::verif::descriptor_for_address(addr(a)) } else { 0 };
        let in_spaces = memory_manager::is_in_mmtk_spaces(ObjectReference::from_raw_address(addr(a)).unwrap());
        Res { name, desc, in_spaces }
    });
    match r {
        Ok(r) => Some(r),
        Err(m) => {
            violation("C31", format!("resolution-panics:{}", ctx), format!("resolving address {:#x} ({}) panicked: {}", a, ctx, m));
            None
        }
    }
}

#[derive(Default)]
struct Tally {
    objects: u64,
    boundaries: u64,
    outside: u64,
    freed: u64,
    random: u64,
    empty_seen: u64,
    freed_big: u64,
}

/// Consistency that must hold for every address at a quiescent point.
fn check_agreement(a: usize, r: &Res, table: &[SpaceInfo], ctx: &str) {
    let known = table.iter().find(|s| s.name == r.name);
    if r.name != "empty" {
        match known {
            None => violation("C31", format!("sft-names-unknown-space:{}", ctx), format!("SFT lookup of {:#x} returns a space named {:?} which the plan does not have", a, r.name)),
            Some(s) => {
                if r.desc != s.descriptor {
                    violation("C31", format!("sft-and-vm-map-disagree:{}:{}", ctx, s.name), format!("address {:#x}: SFT says {} (descriptor {:#x}) but the VM map's descriptor is {:#x}", a, s.name, s.descriptor, r.desc));
                }
                // (SFTSpaceMap attributes the whole address slot of a contiguous space to it, which
                // is wider than [start, start+extent): only judged for addresses inside objects)
                if ctx == "object" && s.contiguous && (a < s.start.as_usize() || a >= s.start.as_usize() + s.extent) {
                    violation("C31", format!("sft-space-does-not-contain-address:{}:{}", ctx, s.name), format!("address {:#x}: SFT says {} = [{:#x},{:#x})", a, s.name, s.start.as_usize(), s.start.as_usize() + s.extent));
                }
            }
        }
    }
    if r.in_spaces != (r.name != "empty") {
        violation("C31", format!("is_in_mmtk_spaces-disagrees-with-sft:{}", ctx), format!("address {:#x}: is_in_mmtk_spaces = {} but the SFT entry is {:?}", a, r.in_spaces, r.name));
    }
}

pub fn at_pause_end(sh: &Shadow, live: &HashSet<u64>) {
    let w = world();
    let mut rng = Rng::new(mix(w.cfg.seed ^ 0xC31, sh.epoch));
    let table = mmtk::verif::space_table(w.mmtk);
    let mut t = Tally::default();
    let has = |n: &str| table.iter().any(|s| s.name == n);
    // ---- 1. live objects (and unreachable immortal ones): must resolve to the owning space -------
    let mut ids: Vec<u64> = live.iter().copied().filter(|id| sh.objs.contains_key(id)).collect();
    ids.sort();
    let mut picked: Vec<u64> = (0..64.min(ids.len())).map(|_| ids[rng.usize_below(ids.len())]).collect();
    picked.extend(ids.iter().copied().filter(|id| sh.objs[id].sem != SEM_DEFAULT).take(24));
    picked.extend(sh.immortal_dead.iter().copied().filter(|id| sh.objs.contains_key(id)).take(8));
    picked.sort();
    picked.dedup();
    let mut names_seen: HashSet<&'static str> = HashSet::new();
    for id in &picked {
        let o = &sh.objs[id];
        let s = start_of(o.addr);
        let e = s + o.size as usize;
        for a in [o.addr, s, e - 8, s + ((o.size as usize / 2) & !7)] {
            let Some(r) = resolve(a, "object") else { continue };
            t.objects += 1;
            names_seen.insert(r.name);
            if r.name == "empty" {
                violation("C31", format!("live-object-resolves-to-empty-space:sem{}", o.sem), format!("address {:#x} inside live object id {} (sem {}, [{:#x},{:#x})) resolves to the empty space", a, o.id, o.sem, s, e));
                continue;
            }
            check_agreement(a, &r, &table, "object");
            let want = match o.sem {
                _ if w.cfg.plan == "NoGC" => None, // NoGC maps every semantics to its own space
                SEM_LOS if has("los") => Some("los"),
                SEM_IMMORTAL if has("immortal") => Some("immortal"),
                SEM_NONMOVING if has("nonmoving") => Some("nonmoving"),
                _ => None,
            };
            match want {
                Some(wn) if r.name != wn => violation("C31", format!("object-resolves-to-wrong-space:{}-as-{}", wn, r.name), format!("address {:#x} inside live object id {} allocated with semantics {} resolves to space {:?}, expected {:?}", a, o.id, o.sem, r.name, wn)),
                None if o.sem == SEM_DEFAULT && matches!(r.name, "los" | "immortal" | "nonmoving") && w.cfg.plan != "NoGC" => violation("C31", format!("object-resolves-to-wrong-space:default-as-{}", r.name), format!("address {:#x} inside live object id {} allocated with default semantics resolves to space {:?}", a, o.id, r.name)),
                _ => {}
            }
        }
    }
    // ---- 2. boundaries of contiguous spaces ----------------------------------------------------------
    for s in table.iter().filter(|s| s.contiguous && s.extent > 0) {
        let (lo, hi) = (s.start.as_usize(), s.start.as_usize() + s.extent);
        for (a, inside) in [(lo, true), (lo + 8, true), (lo + (4 << 20), true), (hi - 8, true), (hi - (4 << 20), true)] {
            let Some(r) = resolve(a, "space-boundary") else { continue };
            t.boundaries += 1;
            check_agreement(a, &r, &table, "space-boundary");
            if inside && r.name != s.name && r.name != "empty" {
                violation("C31", format!("address-inside-space-resolves-to-another:{}-as-{}", s.name, r.name), format!("address {:#x} is inside {} = [{:#x},{:#x}) but resolves to {:?}", a, s.name, lo, hi, r.name));
            }
            if inside && r.name != "empty" && r.desc != s.descriptor {
                violation("C31", format!("vm-map-descriptor-wrong-inside-contiguous-space:{}", s.name), format!("address {:#x} is inside {} (descriptor {:#x}) but the VM map says {:#x}", a, s.name, s.descriptor, r.desc));
            }
        }
    }
    // ---- 3. addresses that cannot be MMTk memory -----------------------------------------------------
    if sh.epoch % 4 == 0 {
        let local = 0u64;
        static STATIC_WORD: u64 = 7;
        let boxed = Box::new([0u64; 8]);
        let vm = mmtk::util::heap::vm_layout::vm_layout();
        let (hs, he) = (vm.heap_start.as_usize(), vm.heap_end.as_usize());
        let meta = mmtk::util::metadata::side_metadata::global_side_metadata_base_address().as_usize();
        let cands: Vec<(usize, &str)> = vec![
            (8, "low"), (4096, "low"), (0x10000, "low"), ((&local as *const u64 as usize) & !7, "stack"), (&STATIC_WORD as *const u64 as usize, "static"),
            (boxed.as_ptr() as usize, "malloc"), (hs.saturating_sub(8), "below-heap"), (he, "heap-end"), (he + 8, "above-heap"), ((1usize << 47) - 8, "canonical-top"),
            (1usize << 47, "non-canonical"), ((1usize << 47) + 8, "non-canonical"), (1usize << 63, "non-canonical"), (usize::MAX & !7, "address-max"), (meta, "side-metadata"), (meta + (1 << 32) + 8, "side-metadata"),
        ];
        for (a, ctx) in cands {
            if a == 0 || (a >= hs && a < he) {
                continue;
            }
            let Some(r) = resolve(a, ctx) else { continue };
            t.outside += 1;
            if r.name != "empty" || r.in_spaces {
                violation("C31", format!("outside-address-resolves-to-a-space:{}", ctx), format!("address {:#x} ({}) is outside the MMTk heap but the SFT says {:?}, is_in_mmtk_spaces = {}", a, ctx, r.name, r.in_spaces));
            }
            if r.desc != 0 && r.name == "empty" {
                violation("C31", format!("vm-map-descriptor-for-address-outside-the-heap:{}", ctx), format!("address {:#x} ({}) is outside [heap_start, heap_end) and the SFT says empty, but the VM map's descriptor is {:#x}", a, ctx, r.desc));
            }
        }
        drop(boxed);
        // addresses that differ from a live object's address only in high bits (an index computed
        // from an address must not wrap around the space table)
        for id in picked.iter().take(12) {
            let a = sh.objs[id].addr;
            for k in [1usize << 46, 2usize << 46, 3usize << 46, 1usize << 47, 1usize << 52, 1usize << 62] {
                let x = a.wrapping_add(k) & !7;
                if x == 0 || (x >= hs && x < he) {
                    continue;
                }
                let Some(r) = resolve(x, "high-bits-alias") else { continue };
                t.outside += 1;
                if r.name != "empty" || r.in_spaces {
                    violation("C31", "outside-address-resolves-to-a-space:high-bits-alias", format!("address {:#x} = live object address {:#x} + {:#x} is outside the MMTk heap but the SFT says {:?}, is_in_mmtk_spaces = {}", x, a, k, r.name, r.in_spaces));
                }
            }
        }
        // ---- 4. freed memory and random heap addresses: the mechanisms must agree -------------------
        // start addresses of objects found dead at earlier pauses: their memory may have been
        // released (chunks freed under a discontiguous layout), reused, or still belong to the space
        let n = sh.dead_starts.len();
        let skip = if n > 96 { rng.usize_below(n - 96) } else { 0 };
        for a in sh.dead_starts.iter().skip(skip).take(96) {
            if let Some(r) = resolve(*a, "freed") {
                t.freed += 1;
                t.empty_seen += (r.name == "empty") as u64;
                check_agreement(*a, &r, &table, "freed");
            }
        }
        // every chunk of dead multi-chunk objects
        for (a, size) in sh.dead_big.iter().rev().take(24) {
            let mut x = *a + 8;
            while x < *a + *size {
                if let Some(r) = resolve(x, "freed-multi-chunk") {
                    t.freed += 1;
                    t.freed_big += 1;
                    t.empty_seen += (r.name == "empty") as u64;
                    check_agreement(x, &r, &table, "freed-multi-chunk");
                }
                x += 4 << 20;
            }
        }
        for (_, a, size) in sh.dead_probe.iter().take(32) {
            for x in [*a, start_of(*a) + *size - 8] {
                if let Some(r) = resolve(x, "freed") {
                    t.freed += 1;
                    t.empty_seen += (r.name == "empty") as u64;
                    check_agreement(x, &r, &table, "freed");
                }
            }
        }
        for _ in 0..48 {
            let chunk = (hs + rng.usize_below(((he - hs) >> 22).max(1)) * (4 << 20)) & !((4 << 20) - 1);
            for a in [chunk, chunk + 8, chunk + (4 << 20) - 8] {
                if a < hs || a >= he || a == 0 {
                    continue;
                }
                if let Some(r) = resolve(a, "random-chunk") {
                    t.random += 1;
                    t.empty_seen += (r.name == "empty") as u64;
                    check_agreement(a, &r, &table, "random-chunk");
                }
            }
        }
    }
    with_report("C31", |r| {
        r.evaluations += t.objects + t.boundaries + t.outside + t.freed + t.random;
        r.count("addresses_inside_live_objects", t.objects);
        r.count("space_boundary_addresses", t.boundaries);
        r.count("outside_heap_addresses", t.outside);
        r.count("freed_object_addresses", t.freed);
        r.count("freed_multi_chunk_object_addresses", t.freed_big);
        r.count("random_chunk_addresses", t.random);
        r.count("addresses_resolved_to_empty", t.empty_seen);
        r.count("probe_batches", 1);
        for n in &names_seen {
            r.count(&format!("objects_resolved_to_space_{}", n), 1);
            r.key(mix(0xC31, n.bytes().fold(7u64, |h, b| mix(h, b as u64))));
        }
        r.key(mix(0xC31B, mix(names_seen.len() as u64, (t.empty_seen > 0) as u64)));
        if r.want_sample() && t.objects > 0 {
            r.sample(J::obj(vec![("plan", J::s(w.cfg.plan.clone())), ("layout", J::s(w.cfg.layout.clone())), ("spaces", J::Arr(table.iter().map(|s| J::s(format!("{}{}", s.name, if s.contiguous { "" } else { "(discontiguous)" }))).collect())), ("object_addresses", J::i(t.objects)), ("resolved_to", J::Arr(names_seen.iter().map(|n| J::s(*n)).collect()))]));
        }
    });
}
