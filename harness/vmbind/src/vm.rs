//! The VerifVM binding: a real `VMBinding` whose callbacks are the client boundary at which the
//! monitors record what mmtk-core does.
use crate::obj::{self, *};
use crate::world::{self, world, EV_BIND};
use mmtk::util::alloc::AllocationError;
use mmtk::util::copy::{CopySemantics, GCWorkerCopyContext};
use mmtk::util::opaque_pointer::*;
use mmtk::util::{Address, ObjectReference};
use mmtk::vm::slot::SimpleSlot;
use mmtk::vm::*;
use mmtk::{Mutator, MutatorContext};
use std::sync::atomic::Ordering;

#[derive(Default)]
pub struct VerifVM;

impl VMBinding for VerifVM {
    type VMObjectModel = VerifVM;
    type VMScanning = VerifVM;
    type VMCollection = VerifVM;
    type VMActivePlan = VerifVM;
    type VMReferenceGlue = VerifVM;
    type VMSlot = SimpleSlot;
    type VMMemorySlice = VSlice;

    const MIN_ALIGNMENT: usize = 8;
    #[cfg(feature = "layout_b")]
    const MAX_ALIGNMENT: usize = 8;
    #[cfg(feature = "layout_a")]
    const MAX_ALIGNMENT: usize = 16;
    #[cfg(feature = "layout_c")]
    const MAX_ALIGNMENT: usize = 32;
    const USE_ALLOCATION_OFFSET: bool = true;
}

/// A range of reference slots inside one object.
#[derive(Clone, Debug, PartialEq, Eq, Hash)]
pub struct VSlice {
    pub start: Address,
    pub end: Address,
    /// the object containing the slots, if the VM chooses to tell
    pub obj: Option<ObjectReference>,
}
unsafe impl Send for VSlice {}

pub struct VSliceIter {
    cursor: Address,
    limit: Address,
}
impl Iterator for VSliceIter {
    type Item = SimpleSlot;
    fn next(&mut self) -> Option<SimpleSlot> {
        if self.cursor >= self.limit {
            None
        } else {
            let s = SimpleSlot::from_address(self.cursor);
            self.cursor += 8usize;
            Some(s)
        }
    }
}

impl mmtk::vm::slot::MemorySlice for VSlice {
    type SlotType = SimpleSlot;
    type SlotIterator = VSliceIter;
    fn iter_slots(&self) -> VSliceIter {
        VSliceIter { cursor: self.start, limit: self.end }
    }
    fn object(&self) -> Option<ObjectReference> {
        self.obj
    }
    fn start(&self) -> Address {
        self.start
    }
    fn bytes(&self) -> usize {
        self.end - self.start
    }
    fn copy(src: &Self, tgt: &Self) {
        unsafe {
            std::ptr::copy(src.start.to_ptr::<u8>(), tgt.start.to_mut_ptr::<u8>(), tgt.bytes());
        }
    }
}

// ------------------------------------------------------------------------------------------------
// Metadata placement per build variant
// ------------------------------------------------------------------------------------------------

#[cfg(feature = "layout_a")]
mod specs {
    use mmtk::vm::*;
    // forwarding bits live inside the forwarding pointer word (single-store publish path)
    pub const LOG: VMGlobalLogBitSpec = VMGlobalLogBitSpec::side_first();
    pub const FWD_PTR: VMLocalForwardingPointerSpec = VMLocalForwardingPointerSpec::in_header(0);
    pub const FWD_BITS: VMLocalForwardingBitsSpec = VMLocalForwardingBitsSpec::in_header(0);
    pub const MARK: VMLocalMarkBitSpec = VMLocalMarkBitSpec::side_first();
    pub const PIN: VMLocalPinningBitSpec = VMLocalPinningBitSpec::side_after(MARK.as_spec());
    // LOS mark/nursery bits in the top byte of the header word (outside FORWARDING_POINTER_MASK)
    pub const LOS: VMLocalLOSMarkNurserySpec = VMLocalLOSMarkNurserySpec::in_header(56);
}

#[cfg(feature = "layout_b")]
mod specs {
    use mmtk::vm::*;
    pub const LOG: VMGlobalLogBitSpec = VMGlobalLogBitSpec::side_first();
    // (a side forwarding pointer would make the side-metadata reservation ~145 TiB: ENOMEM here)
    pub const FWD_PTR: VMLocalForwardingPointerSpec = VMLocalForwardingPointerSpec::in_header(0);
    pub const FWD_BITS: VMLocalForwardingBitsSpec = VMLocalForwardingBitsSpec::side_first();
    pub const MARK: VMLocalMarkBitSpec = VMLocalMarkBitSpec::side_after(FWD_BITS.as_spec());
    pub const PIN: VMLocalPinningBitSpec = VMLocalPinningBitSpec::side_after(MARK.as_spec());
    pub const LOS: VMLocalLOSMarkNurserySpec = VMLocalLOSMarkNurserySpec::side_after(PIN.as_spec());
}

#[cfg(feature = "layout_c")]
mod specs {
    use mmtk::vm::*;
    // header bits in the top byte of word1 (bits 120..127 of the header), forwarding pointer in
    // word0: forwarding bits are NOT inside the pointer word (two-store publish path)
    pub const LOG: VMGlobalLogBitSpec = VMGlobalLogBitSpec::in_header(123);
    pub const FWD_PTR: VMLocalForwardingPointerSpec = VMLocalForwardingPointerSpec::in_header(0);
    pub const FWD_BITS: VMLocalForwardingBitsSpec = VMLocalForwardingBitsSpec::in_header(120);
    pub const MARK: VMLocalMarkBitSpec = VMLocalMarkBitSpec::in_header(122);
    pub const PIN: VMLocalPinningBitSpec = VMLocalPinningBitSpec::in_header(126);
    pub const LOS: VMLocalLOSMarkNurserySpec = VMLocalLOSMarkNurserySpec::in_header(124);
}

impl ObjectModel<VerifVM> for VerifVM {
    const GLOBAL_LOG_BIT_SPEC: VMGlobalLogBitSpec = specs::LOG;
    const LOCAL_FORWARDING_POINTER_SPEC: VMLocalForwardingPointerSpec = specs::FWD_PTR;
    const LOCAL_FORWARDING_BITS_SPEC: VMLocalForwardingBitsSpec = specs::FWD_BITS;
    const LOCAL_MARK_BIT_SPEC: VMLocalMarkBitSpec = specs::MARK;
    #[cfg(feature = "f_pin")]
    const LOCAL_PINNING_BIT_SPEC: VMLocalPinningBitSpec = specs::PIN;
    const LOCAL_LOS_MARK_NURSERY_SPEC: VMLocalLOSMarkNurserySpec = specs::LOS;

    #[cfg(feature = "layout_b")]
    const UNIFIED_OBJECT_REFERENCE_ADDRESS: bool = true;
    const OBJECT_REF_OFFSET_LOWER_BOUND: isize = REF_OFFSET as isize;

    fn copy(
        from: ObjectReference,
        semantics: CopySemantics,
        copy_context: &mut GCWorkerCopyContext<VerifVM>,
    ) -> ObjectReference {
        let from_ref = from.to_raw_address().as_usize();
        let from_start = start_of(from_ref);
        let h = unsafe { read_hdr(from_start) };
        let bytes = h.size as usize;
        let align = 1usize << h.align_log;
        let offset = h.offset as usize;
        let dst = copy_context.alloc_copy(from, bytes, align, offset, semantics);
        if dst.is_zero() {
            world::fatal_violation("C01", "copy:alloc_copy-null", format!("alloc_copy returned null for id {} size {}", h.id, bytes));
        }
        let to_start = dst.as_usize();
        unsafe {
            std::ptr::copy_nonoverlapping(from_start as *const u8, to_start as *mut u8, bytes);
        }
        let to_ref = ref_of(to_start);
        let to = objref(to_ref);
        copy_context.post_copy(to, bytes, semantics);
        world::record_move(h.id, from_ref, to_ref, bytes, 0);
        if world::world().cfg.tombstone {
            unsafe { obj::tombstone(from_start, from_start, from_start + bytes) };
        }
        to
    }

    fn copy_to(from: ObjectReference, to: ObjectReference, region: Address) -> Address {
        let from_ref = from.to_raw_address().as_usize();
        let to_ref = to.to_raw_address().as_usize();
        let from_start = start_of(from_ref);
        let to_start = start_of(to_ref);
        let h = unsafe { read_hdr(from_start) };
        let bytes = h.size as usize;
        if from_start != to_start {
            unsafe {
                std::ptr::copy(from_start as *const u8, to_start as *mut u8, bytes);
            }
            world::record_move(h.id, from_ref, to_ref, bytes, 1);
            if world::world().cfg.tombstone {
                // only the part of the old object not overlapped by the new copy
                let (lo, hi) = if to_start + bytes <= from_start || from_start + bytes <= to_start {
                    (from_start, from_start + bytes)
                } else if to_start < from_start {
                    (to_start + bytes, from_start + bytes)
                } else {
                    (from_start, to_start)
                };
                // the header of the old object may itself be overwritten: tombstone by layout of the NEW copy
                unsafe { tombstone_range_by(to_start, from_start, lo, hi) };
            }
        } else {
            world::record_move(h.id, from_ref, to_ref, bytes, 2);
        }
        let _ = region;
        unsafe { Address::from_usize(to_start + bytes) }
    }

    fn get_reference_when_copied_to(_from: ObjectReference, to: Address) -> ObjectReference {
        objref(ref_of(to.as_usize()))
    }

    fn get_current_size(object: ObjectReference) -> usize {
        unsafe { size_of_ref(object) }
    }
    fn get_size_when_copied(object: ObjectReference) -> usize {
        unsafe { size_of_ref(object) }
    }
    fn get_align_when_copied(object: ObjectReference) -> usize {
        let h = unsafe { read_hdr(start_of(object.to_raw_address().as_usize())) };
        1usize << h.align_log
    }
    fn get_align_offset_when_copied(object: ObjectReference) -> usize {
        let h = unsafe { read_hdr(start_of(object.to_raw_address().as_usize())) };
        h.offset as usize
    }
    fn get_type_descriptor(_reference: ObjectReference) -> &'static [i8] {
        unimplemented!()
    }
    fn ref_to_object_start(object: ObjectReference) -> Address {
        object.to_raw_address() - REF_OFFSET
    }
    fn ref_to_header(object: ObjectReference) -> Address {
        object.to_raw_address() - REF_OFFSET
    }
    fn dump_object(object: ObjectReference) {
        let s = start_of(object.to_raw_address().as_usize());
        eprintln!("object {} hdr {:?}", object, unsafe { read_hdr(s) });
    }
}

/// Tombstone the bytes `[lo,hi)` of the old object at `old_start`, whose layout is read from the
/// intact new copy at `new_start`.
unsafe fn tombstone_range_by(new_start: usize, old_start: usize, lo: usize, hi: usize) {
    let h = read_hdr(new_start);
    let size = h.size as usize;
    let nrefs = h.nrefs as usize;
    let put = |a: usize, v: u64| {
        if a >= lo && a + 8 <= hi {
            wr(a, v);
        }
    };
    let mut off = HEADER_BYTES + 8 * nrefs;
    let mut i = 0u64;
    while off + 8 <= size {
        put(old_start + off, TOMBSTONE | (i & 0xffff));
        off += 8;
        i += 1;
    }
    put(old_start + W2, TOMBSTONE | 0xffff_0000 | (h.id & 0xffff));
}

// ------------------------------------------------------------------------------------------------
// Scanning
// ------------------------------------------------------------------------------------------------

impl Scanning<VerifVM> for VerifVM {
    fn support_slot_enqueuing(_tls: VMWorkerThread, object: ObjectReference) -> bool {
        let h = unsafe { read_hdr(start_of(object.to_raw_address().as_usize())) };
        h.flags & FLAG_TRACE_SCAN == 0
    }

    fn scan_object<SV: SlotVisitor<SimpleSlot>>(
        _tls: VMWorkerThread,
        object: ObjectReference,
        slot_visitor: &mut SV,
    ) {
        let start = start_of(object.to_raw_address().as_usize());
        let h = unsafe { read_hdr(start) };
        world::on_scan(&h, start);
        let first = if h.kind != KIND_NORMAL { 1 } else { 0 };
        if std::env::var_os("VERIF_DEBUG_SCAN").is_some() {
            for i in first..h.nrefs as usize {
                let v = unsafe { rd(slot_addr(start, i)) } as usize;
                if v != 0 && (v % 8 != 0 || !world::readable(start_of(v), 32) || {
                    let th = unsafe { read_hdr(start_of(v)) };
                    th.check != check_word(th.size, th.nrefs, th.kind, th.id) && th.id & 0xFFFF_FFFF_0000_0000 != TOMBSTONE & 0xFFFF_FFFF_0000_0000
                }) {
                    eprintln!("DEBUG-SCAN bad slot {} = {:#x} in object at start {:#x} hdr {:?} check_ok={}", i, v, start, h, h.check == check_word(h.size, h.nrefs, h.kind, h.id));
                    let sh = world::world().shadow.try_lock();
                    if let Ok(sh) = sh {
                        eprintln!("  shadow: {:?}", sh.objs.get(&h.id));
                    }
                    eprintln!("{}", std::backtrace::Backtrace::force_capture());
                    std::process::abort();
                }
            }
        }
        for i in first..h.nrefs as usize {
            slot_visitor.visit_slot(SimpleSlot::from_address(unsafe { Address::from_usize(slot_addr(start, i)) }));
        }
    }

    fn scan_object_and_trace_edges<OT: ObjectTracer>(
        _tls: VMWorkerThread,
        object: ObjectReference,
        object_tracer: &mut OT,
    ) {
        let start = start_of(object.to_raw_address().as_usize());
        let h = unsafe { read_hdr(start) };
        world::on_scan(&h, start);
        let first = if h.kind != KIND_NORMAL { 1 } else { 0 };
        for i in first..h.nrefs as usize {
            let sa = slot_addr(start, i);
            let v = unsafe { rd(sa) } as usize;
            if v != 0 {
                let n = object_tracer.trace_object(objref(v));
                let nv = n.to_raw_address().as_usize();
                if nv != v {
                    unsafe { wr(sa, nv as u64) };
                }
            }
        }
    }

    fn notify_initial_thread_scan_complete(_partial_scan: bool, _tls: VMWorkerThread) {}

    fn scan_roots_in_mutator_thread(
        tls: VMWorkerThread,
        mutator: &'static mut Mutator<VerifVM>,
        factory: impl RootsWorkFactory<SimpleSlot>,
    ) {
        world::scan_mutator_roots(tls, mutator, factory);
    }

    fn scan_vm_specific_roots(tls: VMWorkerThread, factory: impl RootsWorkFactory<SimpleSlot>) {
        world::scan_global_roots(tls, factory);
    }

    fn supports_return_barrier() -> bool {
        false
    }

    fn prepare_for_roots_re_scanning() {
        world::on_prepare_for_roots_re_scanning();
    }

    fn process_weak_refs(
        worker: &mut mmtk::scheduler::GCWorker<VerifVM>,
        tracer_context: impl ObjectTracerContext<VerifVM>,
    ) -> bool {
        world::process_weak_refs(worker, tracer_context)
    }

    fn forward_weak_refs(
        worker: &mut mmtk::scheduler::GCWorker<VerifVM>,
        tracer_context: impl ObjectTracerContext<VerifVM>,
    ) {
        world::forward_weak_refs(worker, tracer_context)
    }
}

// ------------------------------------------------------------------------------------------------
// Collection
// ------------------------------------------------------------------------------------------------

impl Collection<VerifVM> for VerifVM {
    fn stop_all_mutators<F>(tls: VMWorkerThread, mutator_visitor: F)
    where
        F: FnMut(&'static mut Mutator<VerifVM>),
    {
        world::stop_all_mutators(tls, mutator_visitor)
    }

    fn resume_mutators(tls: VMWorkerThread) {
        world::resume_mutators(tls)
    }

    fn block_for_gc(tls: VMMutatorThread) {
        world::block_for_gc(tls)
    }

    fn spawn_gc_thread(tls: VMThread, ctx: GCThreadContext<VerifVM>) {
        world::spawn_gc_thread(tls, ctx)
    }

    fn out_of_memory(tls: VMThread, err_kind: AllocationError) {
        world::out_of_memory(tls, err_kind)
    }

    fn schedule_finalization(_tls: VMWorkerThread) {
        world::world().counters.schedule_finalization.fetch_add(1, Ordering::Relaxed);
    }

    fn post_forwarding(_tls: VMWorkerThread) {
        world::world().counters.post_forwarding.fetch_add(1, Ordering::Relaxed);
    }
}

// ------------------------------------------------------------------------------------------------
// ActivePlan
// ------------------------------------------------------------------------------------------------

impl ActivePlan<VerifVM> for VerifVM {
    fn number_of_mutators() -> usize {
        world::number_of_mutators()
    }
    fn is_mutator(tls: VMThread) -> bool {
        world::is_mutator(tls)
    }
    fn mutator(tls: VMMutatorThread) -> &'static mut Mutator<VerifVM> {
        world::mutator_of(tls)
    }
    fn mutators<'a>() -> Box<dyn Iterator<Item = &'a mut Mutator<VerifVM>> + 'a> {
        world::mutators()
    }
}

// ------------------------------------------------------------------------------------------------
// ReferenceGlue
// ------------------------------------------------------------------------------------------------

impl ReferenceGlue<VerifVM> for VerifVM {
    type FinalizableType = ObjectReference;

    fn clear_referent(new_reference: ObjectReference) {
        let start = start_of(new_reference.to_raw_address().as_usize());
        unsafe {
            let h = read_hdr(start);
            if world::trace_refs() {
                eprintln!("REFTRACE clear_referent id={} at {:#x} old_slot0={:#x}", h.id, start, rd(slot_addr(start, 0)));
            }
            world::on_clear_referent(&h, start);
            wr(slot_addr(start, 0), 0);
        }
    }
    fn get_referent(object: ObjectReference) -> Option<ObjectReference> {
        let start = start_of(object.to_raw_address().as_usize());
        let v = unsafe { rd(slot_addr(start, 0)) } as usize;
        if v == 0 {
            None
        } else {
            Some(objref(v))
        }
    }
    fn set_referent(reff: ObjectReference, referent: ObjectReference) {
        let start = start_of(reff.to_raw_address().as_usize());
        if world::trace_refs() {
            eprintln!("REFTRACE set_referent id={} at {:#x} referent={}", unsafe { read_hdr(start).id }, start, referent);
        }
        unsafe { wr(slot_addr(start, 0), referent.to_raw_address().as_usize() as u64) };
    }
    fn enqueue_references(references: &[ObjectReference], tls: VMWorkerThread) {
        world::on_enqueue_references(references, tls);
    }
}

#[allow(dead_code)]
fn _unused(_: &dyn MutatorContext<VerifVM>) {
    let _ = EV_BIND;
    let _ = world;
}
