//! Object layout of the VerifVM and raw accessors.
//!
//! ```text
//! start+0   word0: mmtk header word (forwarding pointer/bits, header metadata); unused in variant B
//! start+8   word1: size:u32 | nrefs:u16 | kind:u8 | hdrbits:u8   (hdrbits: mmtk header bits in variant C)
//! start+16  word2: id:u64
//! start+24  word3: sem:u8 | align_log:u8 | offset:u8 | flags:u8 | check:u32
//! start+32  nrefs reference slots (raw object references, 0 = null)
//! ...       payload words, word i = payload_word(id, i)
//! ```
//! The object reference is `start + REF_OFFSET`.
use mmtk::util::{Address, ObjectReference};

#[cfg(feature = "layout_b")]
pub const REF_OFFSET: usize = 0;
#[cfg(not(feature = "layout_b"))]
pub const REF_OFFSET: usize = 8;

pub const HEADER_BYTES: usize = 32;
pub const MIN_OBJ_BYTES: usize = 32;
pub const W1: usize = 8;
pub const W2: usize = 16;
pub const W3: usize = 24;

pub const KIND_NORMAL: u8 = 0;
pub const KIND_WEAK: u8 = 1;
pub const KIND_SOFT: u8 = 2;
pub const KIND_PHANTOM: u8 = 3;

/// flags
pub const FLAG_TRACE_SCAN: u8 = 1; // scanned with scan_object_and_trace_edges

pub const TOMBSTONE: u64 = 0xDEAD_0B1E_C700_0000;

pub fn payload_word(id: u64, i: usize) -> u64 {
    let mut x = id.wrapping_mul(0x9E37_79B9_7F4A_7C15) ^ (i as u64).wrapping_mul(0xD6E8_FEB8_6659_FD93);
    x ^= x >> 29;
    x = x.wrapping_mul(0xBF58_476D_1CE4_E5B9);
    x ^ (x >> 32)
}

#[inline]
pub fn start_of(r: usize) -> usize {
    r - REF_OFFSET
}
#[inline]
pub fn ref_of(start: usize) -> usize {
    start + REF_OFFSET
}
#[inline]
pub unsafe fn rd(a: usize) -> u64 {
    std::ptr::read_volatile(a as *const u64)
}
#[inline]
pub unsafe fn wr(a: usize, v: u64) {
    std::ptr::write_volatile(a as *mut u64, v)
}

/// Decoded header of an object in memory.
#[derive(Clone, Copy, Debug, PartialEq, Eq)]
pub struct Hdr {
    pub size: u32,
    pub nrefs: u16,
    pub kind: u8,
    pub id: u64,
    pub sem: u8,
    pub align_log: u8,
    pub offset: u8,
    pub flags: u8,
    pub check: u32,
}

pub fn check_word(size: u32, nrefs: u16, kind: u8, id: u64) -> u32 {
    let x = (size as u64) ^ ((nrefs as u64) << 32) ^ ((kind as u64) << 48) ^ id.rotate_left(17);
    (x.wrapping_mul(0x9E37_79B9_7F4A_7C15) >> 32) as u32
}

/// Read the header of the object whose *start* is `start`.  Caller guarantees the memory is mapped.
pub unsafe fn read_hdr(start: usize) -> Hdr {
    let w1 = rd(start + W1);
    let w2 = rd(start + W2);
    let w3 = rd(start + W3);
    Hdr {
        size: w1 as u32,
        nrefs: (w1 >> 32) as u16,
        kind: (w1 >> 48) as u8,
        id: w2,
        sem: w3 as u8,
        align_log: (w3 >> 8) as u8,
        offset: (w3 >> 16) as u8,
        flags: (w3 >> 24) as u8,
        check: (w3 >> 32) as u32,
    }
}

/// Initialise a freshly allocated (zeroed) object.  Does not touch word0 nor the top byte of word1.
pub unsafe fn init_object(start: usize, h: &Hdr) {
    let w1 = (h.size as u64) | ((h.nrefs as u64) << 32) | ((h.kind as u64) << 48);
    // keep the top byte (mmtk header bits in variant C)
    let old = rd(start + W1) & 0xff00_0000_0000_0000;
    wr(start + W1, w1 | old);
    wr(start + W2, h.id);
    let w3 = (h.sem as u64)
        | ((h.align_log as u64) << 8)
        | ((h.offset as u64) << 16)
        | ((h.flags as u64) << 24)
        | ((check_word(h.size, h.nrefs, h.kind, h.id) as u64) << 32);
    wr(start + W3, w3);
    let slots_end = HEADER_BYTES + 8 * h.nrefs as usize;
    let mut off = slots_end;
    let mut i = 0;
    while off + 8 <= h.size as usize {
        wr(start + off, payload_word(h.id, i));
        off += 8;
        i += 1;
    }
}

#[inline]
pub fn slot_addr(start: usize, i: usize) -> usize {
    start + HEADER_BYTES + 8 * i
}

#[inline]
pub unsafe fn size_of_ref(r: ObjectReference) -> usize {
    (rd(start_of(r.to_raw_address().as_usize()) + W1) as u32) as usize
}

pub fn objref(r: usize) -> ObjectReference {
    debug_assert!(r != 0);
    unsafe { ObjectReference::from_raw_address_unchecked(Address::from_usize(r)) }
}

/// Verify payload words; returns index of the first bad word.
pub unsafe fn verify_payload(start: usize, id: u64, nrefs: usize, size: usize) -> Option<(usize, u64, u64)> {
    let mut off = HEADER_BYTES + 8 * nrefs;
    let mut i = 0;
    while off + 8 <= size {
        let got = rd(start + off);
        let want = payload_word(id, i);
        if got != want {
            return Some((i, want, got));
        }
        off += 8;
        i += 1;
    }
    None
}

/// Overwrite the id word and payload of a copied-from object (tombstone).  Leaves word0, word1,
/// word3 and the reference slots intact (mmtk or its reference processor may still read those).
pub unsafe fn tombstone(start: usize, lo: usize, hi: usize) {
    // only touch bytes inside [lo, hi) (the part of the old object not overlapped by the new copy)
    let h = read_hdr(start);
    let size = h.size as usize;
    let nrefs = h.nrefs as usize;
    let id = h.id;
    let put = |a: usize, v: u64| {
        if a >= lo && a + 8 <= hi {
            wr(a, v);
        }
    };
    let mut off = HEADER_BYTES + 8 * nrefs;
    let mut i = 0u64;
    while off + 8 <= size {
        put(start + off, TOMBSTONE | (i & 0xffff));
        off += 8;
        i += 1;
    }
    put(start + W2, TOMBSTONE | 0xffff_0000 | (id & 0xffff));
}
