//! C34: Immix line marks and hole search against the live objects the shadow heap knows, at
//! pause ends (the state the allocators will see when the mutators resume).
use crate::obj::*;
use crate::shadow::*;
use crate::vm::VerifVM;
use crate::world::{violation, with_report, world};
use mmtk::util::linear_scan::Region;
use mmtk::util::Address;
use std::collections::{BTreeMap, HashMap, HashSet};
use std::sync::Mutex;
use vcommon::{mix, J};

fn addr(a: usize) -> Address {
    unsafe { Address::from_usize(a) }
}

/// space name -> (last line mark state seen, wraps)
static STATES: Mutex<Option<HashMap<&'static str, (u8, u64)>>> = Mutex::new(None);

pub fn at_pause_end(sh: &Shadow, live: &HashSet<u64>) {
    let w = world();
    let line_bytes = mmtk::verif::ImmixLine::BYTES;
    let block_bytes = mmtk::verif::ImmixBlock::BYTES;
    let lines_per_block = block_bytes / line_bytes;
    let info = mmtk::verif::gc_info(w.mmtk);
    // live objects per Immix block: block start -> [(first line idx, last line idx + 1, id)]
    let mut blocks: BTreeMap<usize, Vec<(usize, usize, u64)>> = BTreeMap::new();
    let mut views: HashMap<usize, (&'static str, u8, u8)> = HashMap::new(); // chunk -> (space, cur, unavail)
    let mut objs = 0u64;
    let mut lines_checked = 0u64;
    let mut multi_line = 0u64;
    let mut ids: Vec<u64> = live.iter().copied().collect();
    ids.sort();
    let mut per_space: HashMap<&'static str, (u8, u8)> = HashMap::new();
    for id in ids.iter().take(60_000) {
        let Some(o) = sh.objs.get(id) else { continue };
        if o.sem == SEM_LOS || o.sem == SEM_IMMORTAL {
            continue;
        }
        let s = start_of(o.addr);
        let e = s + o.size as usize;
        let Some(view) = mmtk::verif::immix_space_of::<VerifVM>(w.mmtk, addr(o.addr)) else { continue };
        let (cur, unavail) = (view.line_mark_state(), view.line_unavail_state());
        per_space.insert(view.name(), (cur, unavail));
        let _ = &mut views;
        objs += 1;
        let first = s / line_bytes;
        let last = (e + line_bytes - 1) / line_bytes;
        if last - first > 1 {
            multi_line += 1;
        }
        for l in first..last {
            let la = l * line_bytes;
            let m = view.line_mark(addr(la));
            lines_checked += 1;
            if m != cur && m != unavail {
                violation("C34", format!("live-object-on-unmarked-line:{}:{}", view.name(), if info.nursery { "nursery-gc" } else { "full-gc" }), format!("object id {} [{:#x},{:#x}) (sem {}, survived {} pauses) is live after pause {} but its line {:#x} has mark {} (current state {}, unavailable state {}) in space {}", o.id, s, e, o.sem, o.survived, sh.epoch, la, m, cur, unavail, view.name()));
                break;
            }
        }
        let b = s & !(block_bytes - 1);
        // an object never crosses a block
        blocks.entry(b).or_default().push(((s - b) / line_bytes, ((e - b) + line_bytes - 1) / line_bytes, o.id));
        if e > b + block_bytes {
            violation("C34", "object-crosses-block-boundary", format!("object id {} [{:#x},{:#x}) crosses the end of its Immix block {:#x}", o.id, s, e, b));
        }
    }
    // hole search per block that holds a live object
    let mut holes_total = 0u64;
    let mut blocks_checked = 0u64;
    let mut holes_lines = 0u64;
    for (b, objs_in) in blocks.iter().take(3000) {
        let Some(view) = mmtk::verif::immix_space_of::<VerifVM>(w.mmtk, addr(*b)) else { continue };
        let (cur, unavail) = (view.line_mark_state(), view.line_unavail_state());
        let got: Vec<(usize, usize)> = view.holes_in_block(addr(*b)).into_iter().map(|(s, e)| ((s.as_usize() - b) / line_bytes, (e.as_usize().wrapping_sub(*b)) / line_bytes)).collect();
        // reference: maximal runs of lines whose mark is neither the current nor the unavailable state
        let marks: Vec<u8> = (0..lines_per_block).map(|i| view.line_mark(addr(b + i * line_bytes))).collect();
        let mut want: Vec<(usize, usize)> = vec![];
        let mut i = 0;
        while i < lines_per_block {
            if marks[i] != cur && marks[i] != unavail {
                let s = i;
                while i < lines_per_block && marks[i] != cur && marks[i] != unavail {
                    i += 1;
                }
                want.push((s, i));
            } else {
                i += 1;
            }
        }
        blocks_checked += 1;
        holes_total += got.len() as u64;
        if got != want {
            violation("C34", format!("hole-search-differs-from-line-marks:{}", view.name()), format!("block {:#x} of {}: get_next_available_lines yields line ranges {:?}, the line mark table (current {}, unavailable {}) has free runs {:?}", b, view.name(), got, cur, unavail, want));
        }
        for (hs, he) in &got {
            holes_lines += (*he - *hs) as u64;
            for (os, oe, id) in objs_in {
                if hs < oe && os < he {
                    violation("C34", format!("hole-contains-live-object:{}", view.name()), format!("block {:#x} of {}: the hole of lines [{},{}) returned by get_next_available_lines overlaps live object id {} on lines [{},{})", b, view.name(), hs, he, id, os, oe));
                }
            }
        }
        // a block with a live object is not unallocated
        let st = view.block_state(addr(*b));
        if matches!(st, mmtk::verif::ImmixBlockState::Unallocated) {
            violation("C34", format!("block-with-live-object-is-unallocated:{}", view.name()), format!("block {:#x} of {} holds {} live objects but its state is Unallocated", b, view.name(), objs_in.len()));
        }
    }
    // line-state wraps
    let mut wraps_now = 0u64;
    {
        let mut g = STATES.lock().unwrap();
        let m = g.get_or_insert_with(HashMap::new);
        for (name, (cur, _)) in per_space.iter() {
            let e = m.entry(name).or_insert((*cur, 0));
            if *cur < e.0 {
                e.1 += 1;
                wraps_now += 1;
            }
            e.0 = *cur;
        }
    }
    with_report("C34", |r| {
        r.evaluations += objs + blocks_checked;
        r.count("live_immix_objects_checked", objs);
        r.count("objects_spanning_several_lines", multi_line);
        r.count("lines_of_live_objects_checked", lines_checked);
        r.count("blocks_hole_searched", blocks_checked);
        r.count("holes_returned", holes_total);
        r.count("free_lines_in_holes", holes_lines);
        r.count("line_state_wraps", wraps_now);
        r.count(if info.nursery { "pauses_nursery" } else { "pauses_full" }, 1);
        for (name, (cur, unavail)) in per_space.iter() {
            r.key(mix(0xC34, mix(name.len() as u64, mix(*cur as u64, *unavail as u64))));
            r.set_max(&format!("max_line_state_{}", name), *cur as u64);
        }
        if r.want_sample() && blocks_checked > 0 {
            r.sample(J::obj(vec![("plan", J::s(w.cfg.plan.clone())), ("pause", J::i(sh.epoch)), ("nursery", J::Bool(info.nursery)), ("objects", J::i(objs)), ("blocks", J::i(blocks_checked)), ("holes", J::i(holes_total)), ("states", J::Arr(per_space.iter().map(|(n, (c, u))| J::s(format!("{}: current {} unavailable {}", n, c, u))).collect()))]));
        }
    });
}
