//! C08: conservative / interior-pointer lookups against the shadow heap.
//!
//! Probes run where the VO bits are stable: at pause end (world stopped) and from a mutator on
//! objects it holds in roots.  "Some expected" probes only need the probed object to be live;
//! "None expected" probes of gaps / freed ranges only run in the *exact* state right after a
//! forced exhaustive GC, where the shadow knows every valid object (stale VO bits of dead objects
//! are legitimate after non-exhaustive GCs).
#![cfg(feature = "f_vo")]
use crate::obj::*;
use crate::shadow::*;
use crate::world::{self, violation, with_report, world};
use mmtk::memory_manager;
use mmtk::util::Address;
use std::collections::BTreeMap;
use vcommon::{mix, Rng, J};

fn addr(a: usize) -> Address {
    unsafe { Address::from_usize(a) }
}

fn semname(sem: u8) -> &'static str {
    match sem {
        SEM_IMMORTAL => "immortal",
        SEM_LOS => "los",
        SEM_NONMOVING => "nonmoving",
        _ => "default",
    }
}

/// is_mmtk_object with panics turned into violations.
fn q_is(p: usize, ctx: &str) -> Option<Option<usize>> {
    match vcommon::trap_panic(|| memory_manager::is_mmtk_object(addr(p))) {
        Ok(r) => Some(r.map(|o| o.to_raw_address().as_usize())),
        Err(m) => {
            violation("C08", format!("is_mmtk_object:panic:{}", ctx), format!("is_mmtk_object({:#x}) panicked: {}", p, m));
            None
        }
    }
}

fn q_find(p: usize, n: usize, ctx: &str) -> Option<Option<usize>> {
    match vcommon::trap_panic(|| memory_manager::find_object_from_internal_pointer(addr(p), n)) {
        Ok(r) => Some(r.map(|o| o.to_raw_address().as_usize())),
        Err(m) => {
            violation("C08", format!("find_object_from_internal_pointer:panic:{}", ctx), format!("find_object_from_internal_pointer({:#x}, {}) panicked: {}", p, n, m));
            None
        }
    }
}

#[derive(Default)]
pub struct Tally {
    pub is_some: u64,
    pub is_none_interior: u64,
    pub find_some: u64,
    pub find_none_short: u64,
    pub los: u64,
    pub gap: u64,
    pub outside: u64,
    pub boundary: u64,
}

/// Probes that only need `o` to be a currently valid object.
pub fn probe_object(o: &SObj, rng: &mut Rng, t: &mut Tally) {
    let r = o.addr;
    let s = start_of(r);
    let e = s + o.size as usize;
    let sn = semname(o.sem);
    // A. the reference itself
    if let Some(got) = q_is(r, "object-ref") {
        t.is_some += 1;
        if got != Some(r) {
            violation("C08", format!("is_mmtk_object:valid-object-not-recognised:{}", sn), format!("is_mmtk_object({:#x}) = {:x?} for live object id {} (sem {}, size {})", r, got, o.id, o.sem, o.size));
        }
    }
    // B. interior addresses are not object references
    let mut ps: Vec<usize> = vec![];
    if r + 8 < e {
        ps.push(r + 8);
    }
    if s != r {
        ps.push(s);
    }
    if e - 8 > r {
        ps.push(e - 8);
    }
    if e - r > 24 {
        ps.push(r + 8 * (1 + rng.usize_below((e - r) / 8 - 1)));
    }
    if o.size as usize > 4096 {
        // page boundaries inside a multi-page object
        let pb = (r + 4096) & !4095;
        if pb + 8 < e {
            ps.push(pb);
            ps.push(pb - 8);
            ps.push(pb + 8);
            t.boundary += 3;
        }
        let last = (e - 8) & !4095;
        if last > r {
            ps.push(last);
        }
    }
    ps.sort();
    ps.dedup();
    for &p in &ps {
        if p == r {
            continue;
        }
        if let Some(got) = q_is(p, "interior") {
            t.is_none_interior += 1;
            if got.is_some() {
                violation("C08", format!("is_mmtk_object:interior-address-recognised:{}", sn), format!("is_mmtk_object({:#x}) = {:x?}, but it is an interior address of object id {} at {:#x} (size {})", p, got, o.id, r, o.size));
            }
        }
    }
    // C. interior pointers resolve to the object iff the search window reaches its reference
    ps.push(r);
    for &p in &ps {
        if p < r {
            continue;
        }
        let d = p - r;
        for n in [d + 8, d + 4096, d + (1 << 20)] {
            if let Some(got) = q_find(p, n, "interior") {
                t.find_some += 1;
                if o.sem == SEM_LOS {
                    t.los += 1;
                }
                if got != Some(r) {
                    violation("C08", format!("find_object_from_internal_pointer:object-not-found:{}", sn), format!("find_object_from_internal_pointer({:#x}, {}) = {:x?}, expected object id {} at {:#x} (size {}, distance {})", p, n, got, o.id, r, o.size, d));
                }
            }
        }
        if d >= 16 {
            // n == d is not probed: the property and the API doc differ at equality
            for n in [d - 8, 8] {
                if let Some(got) = q_find(p, n, "interior-short-window") {
                    t.find_none_short += 1;
                    if got.is_some() {
                        violation("C08", format!("find_object_from_internal_pointer:found-beyond-max-search-bytes:{}", sn), format!("find_object_from_internal_pointer({:#x}, {}) = {:x?}, but the only object containing the address has its reference {} bytes below (object id {} at {:#x}, size {})", p, n, got, d, o.id, r, o.size));
                    }
                }
            }
        }
    }
}

/// The model answer for an arbitrary address when `valid` holds every valid object (ref -> (start, end, id)).
fn model_find(valid: &BTreeMap<usize, (usize, usize, u64)>, p: usize, n: usize) -> Option<usize> {
    let (r, (_s, e, _)) = valid.range(..=p).next_back()?;
    if p < *e && p - *r < n {
        Some(*r)
    } else {
        None
    }
}

/// Exact state: probes of gaps, ends, boundaries, freed objects.
pub fn probe_exact(sh: &Shadow, valid: &BTreeMap<usize, (usize, usize, u64)>, sample: &[usize], rng: &mut Rng, t: &mut Tally) {
    let mut ps: Vec<usize> = vec![];
    for &r in sample {
        let (s, e, _) = valid[&r];
        ps.push(e);
        ps.push(e + 8);
        if s >= 16 {
            ps.push(s - 8);
        }
        ps.push(r & !4095);
        ps.push((r & !4095) + 4096);
        ps.push((e + 4095) & !4095);
        ps.push(((e + 4095) & !4095) - 8);
        let chunk = r & !((4 << 20) - 1);
        ps.push(chunk);
        ps.push(chunk + 8);
        ps.push(chunk + (4 << 20) - 8);
        if chunk >= (4 << 20) {
            ps.push(chunk - 8);
        }
        ps.push(chunk + (4 << 20));
    }
    // objects that died in this GC
    for (_, a, size) in sh.dead_probe.iter().take(64) {
        ps.push(*a);
        ps.push(*a + 8);
        ps.push(start_of(*a) + *size - 8);
    }
    ps.sort();
    ps.dedup();
    for p in ps {
        if p == 0 || p % 8 != 0 {
            continue;
        }
        let is_ref = valid.contains_key(&p);
        if let Some(got) = q_is(p, "exact") {
            t.gap += 1;
            if got != if is_ref { Some(p) } else { None } {
                violation("C08", if is_ref { "is_mmtk_object:valid-object-not-recognised:exact" } else { "is_mmtk_object:non-object-recognised:exact" }, format!("is_mmtk_object({:#x}) = {:x?}, expected {} after an exhaustive GC", p, got, if is_ref { "Some" } else { "None" }));
            }
        }
        let ns = [8usize, 64, 4096, 1 << 16, 1 << 20];
        let n = ns[rng.usize_below(ns.len())];
        // n == distance is never probed
        if let Some((r, _)) = valid.range(..=p).next_back() {
            if p - *r == n {
                continue;
            }
        }
        let want = model_find(valid, p, n);
        if let Some(got) = q_find(p, n, "exact") {
            t.gap += 1;
            if got != want {
                let los = want.or(got).and_then(|r| valid.get(&r)).and_then(|v| sh.objs.get(&v.2)).map(|o| o.sem == SEM_LOS).unwrap_or(false);
                violation("C08", format!("find_object_from_internal_pointer:wrong-answer:exact:{}{}", if want.is_some() { "missed" } else { "spurious" }, if los { ":los" } else { "" }), format!("find_object_from_internal_pointer({:#x}, {}) = {:x?}, the shadow heap says {:x?} after an exhaustive GC", p, n, got, want));
            }
        }
    }
}

/// Addresses outside MMTk memory: both functions answer None and do not panic.
pub fn probe_outside(t: &mut Tally) {
    let local = 0u64;
    static STATIC_WORD: u64 = 7;
    let heap_obj = Box::new([0u64; 8]);
    let vm = mmtk::util::heap::vm_layout::vm_layout();
    let hs = vm.heap_start.as_usize();
    let he = vm.heap_end.as_usize();
    let cands: Vec<(usize, &str)> = vec![
        (8, "low"),
        (4096, "low"),
        (0x10000, "low"),
        ((&local as *const u64 as usize) & !7, "stack"),
        (&STATIC_WORD as *const u64 as usize, "static"),
        (heap_obj.as_ptr() as usize, "malloc"),
        (hs.saturating_sub(8), "below-heap"),
        (he, "heap-end"),
        (he + 8, "above-heap"),
        ((1usize << 47) - 8, "canonical-top"),
        (1usize << 47, "non-canonical"),
        ((1usize << 47) + 8, "non-canonical"),
        (1usize << 63, "non-canonical"),
        (usize::MAX & !7, "address-max"),
        (mmtk::util::metadata::side_metadata::global_side_metadata_base_address().as_usize(), "side-metadata"),
        (mmtk::util::metadata::side_metadata::global_side_metadata_base_address().as_usize() + (1 << 30) + 8, "side-metadata"),
    ];
    for (p, name) in cands {
        if p == 0 {
            continue;
        }
        let in_heap = p >= hs && p < he;
        if in_heap {
            continue;
        }
        if let Some(got) = q_is(p, name) {
            t.outside += 1;
            if got.is_some() {
                violation("C08", format!("is_mmtk_object:outside-address-recognised:{}", name), format!("is_mmtk_object({:#x}) = {:x?} for an address outside the MMTk heap", p, got));
            }
        }
        for n in [8usize, 4096, 1 << 20] {
            if let Some(got) = q_find(p, n, name) {
                t.outside += 1;
                if got.is_some() {
                    violation("C08", format!("find_object_from_internal_pointer:outside-address-resolved:{}", name), format!("find_object_from_internal_pointer({:#x}, {}) = {:x?} for an address outside the MMTk heap", p, n, got));
                }
            }
        }
    }
    drop(heap_obj);
}

pub fn record(t: &Tally, exact: bool, where_: &str) {
    let w = world();
    with_report("C08", |r| {
        let n = t.is_some + t.is_none_interior + t.find_some + t.find_none_short + t.gap + t.outside;
        r.evaluations += n;
        r.count("is_mmtk_object_on_valid_refs", t.is_some);
        r.count("is_mmtk_object_on_interior_addresses", t.is_none_interior);
        r.count("find_expected_some", t.find_some);
        r.count("find_expected_none_short_window", t.find_none_short);
        r.count("find_on_los_objects", t.los);
        r.count("exact_gap_and_boundary_probes", t.gap);
        r.count("outside_heap_probes", t.outside);
        r.count("page_boundary_interior_probes", t.boundary);
        r.count(if exact { "probe_batches_exact" } else { "probe_batches" }, 1);
        r.key(mix(0xC08, mix(exact as u64, mix((t.los > 0) as u64, mix(t.find_some.next_power_of_two(), t.gap.next_power_of_two())))));
        if r.want_sample() && t.find_some > 0 {
            r.sample(J::obj(vec![("plan", J::s(w.cfg.plan.clone())), ("where", J::s(where_)), ("exact", J::Bool(exact)), ("valid_ref_probes", J::i(t.is_some)), ("interior_probes", J::i(t.is_none_interior)), ("find_some", J::i(t.find_some)), ("find_none_short_window", J::i(t.find_none_short)), ("gap_probes", J::i(t.gap)), ("outside", J::i(t.outside))]));
        }
    });
}

/// Called at pause end with the world stopped.  `exact`: the shadow knows every valid object.
pub fn at_pause_end(sh: &Shadow, live: &std::collections::HashSet<u64>, exact: bool) {
    let w = world();
    let mut rng = Rng::new(mix(w.cfg.seed ^ 0xC08, sh.epoch));
    let mut t = Tally::default();
    let mut ids: Vec<u64> = live.iter().copied().filter(|id| sh.objs.contains_key(id)).collect();
    ids.sort();
    let mut picked: Vec<u64> = vec![];
    for _ in 0..48.min(ids.len()) {
        picked.push(ids[rng.usize_below(ids.len())]);
    }
    // large objects and unreachable immortal objects (still valid objects) are rare: add some
    picked.extend(ids.iter().copied().filter(|id| sh.objs[id].sem == SEM_LOS).take(8));
    picked.extend(sh.immortal_dead.iter().copied().filter(|id| sh.objs.contains_key(id)).take(8));
    picked.sort();
    picked.dedup();
    for id in &picked {
        probe_object(&sh.objs[id], &mut rng, &mut t);
    }
    if exact {
        let mut valid: BTreeMap<usize, (usize, usize, u64)> = BTreeMap::new();
        for id in live.iter().chain(sh.immortal_dead.iter()) {
            if let Some(o) = sh.objs.get(id) {
                let s = start_of(o.addr);
                valid.insert(o.addr, (s, s + o.size as usize, *id));
            }
        }
        let sample: Vec<usize> = picked.iter().map(|id| sh.objs[id].addr).collect();
        probe_exact(sh, &valid, &sample, &mut rng, &mut t);
    }
    if sh.epoch % 8 == 0 {
        probe_outside(&mut t);
    }
    record(&t, exact, "pause-end");
    let _ = world::readable;
}
