//! VerifVM: a real MMTk VM binding instrumented for runtime monitoring.
pub mod c08;
pub mod c31;
pub mod c34;
pub mod cfg;
pub mod obj;
pub mod pagemon;
pub mod prog;
pub mod sched;
pub mod shadow;
pub mod vm;
pub mod world;

use std::sync::atomic::Ordering;
use vcommon::{Report, J};

/// Run one generated multi-mutator program in this process and print the reports.
pub fn run(cfg: cfg::Config) -> ! {
    vcommon::abort_on_panic();
    let seed = cfg.seed;
    let nmut = cfg.mutators.max(1);
    let ops = cfg.ops;
    if cfg.log_events {
        mmtk::verif::enable_log(1 << 20);
    }
    let w = world::init(cfg);
    if w.cfg.log_events {
        // the scheduler monitor consumes the event log continuously
        std::thread::Builder::new()
            .name("monitor".into())
            .spawn(|| {
                let w = world::world();
                // bounded-progress form of "no worker stays parked while a runnable packet or a
                // goal exists": the predicate must not hold over STALL_S seconds without a single
                // park/unpark transition in between.
                const STALL_S: u64 = 15;
                let mut stall: Option<(std::time::Instant, u64)> = None;
                loop {
                    let evs = mmtk::verif::drain();
                    {
                        let mut m = w.monitor.lock().unwrap();
                        if !evs.is_empty() {
                            m.feed(&evs);
                        }
                        match (m.deadlock_witness(), stall) {
                            (Some(wit), Some((t0, pe))) if pe == m.park_events => {
                                if t0.elapsed().as_secs() >= STALL_S && !w.done.load(Ordering::Relaxed) {
                                    m.c14.violation("stall:all-workers-parked-with-work-or-goal-pending", format!("for {} s without any park/unpark transition: {}", STALL_S, wit));
                                    m.finish(false);
                                    for r in [&m.c11, &m.c14, &m.c15, &m.c16] {
                                        r.print();
                                    }
                                    drop(m);
                                    world::print_reports_and_exit(1);
                                }
                            }
                            (Some(_), _) => stall = Some((std::time::Instant::now(), m.park_events)),
                            (None, _) => stall = None,
                        }
                    }
                    if w.done.load(Ordering::Relaxed) {
                        return;
                    }
                    std::thread::sleep(std::time::Duration::from_millis(if evs.is_empty() { 2 } else { 0 }));
                }
            })
            .unwrap();
    }
    // watchdog: no progress for `watchdog_s` seconds => report inconclusive and exit
    {
        let limit = w.cfg.watchdog_s;
        std::thread::Builder::new()
            .name("watchdog".into())
            .spawn(move || {
                let w = world::world();
                let mut last = w.last_progress.load(Ordering::Relaxed);
                let mut idle = 0u64;
                loop {
                    std::thread::sleep(std::time::Duration::from_millis(500));
                    if w.done.load(Ordering::Relaxed) {
                        return;
                    }
                    let now = w.last_progress.load(Ordering::Relaxed);
                    if now != last {
                        last = now;
                        idle = 0;
                    } else {
                        idle += 1;
                        if idle >= 2 * limit {
                            if w.cfg.log_events {
                                // decide with the state predicate, not with the clock
                                let evs = mmtk::verif::drain();
                                let mut m = w.monitor.lock().unwrap();
                                m.feed(&evs);
                                if let Some(wit) = m.deadlock_witness() {
                                    m.c14.violation("deadlock:all-workers-parked-with-work-or-goal-pending", wit);
                                } else {
                                    m.c14.inconclusive(format!("no progress for {} s but the deadlock predicate does not hold", limit));
                                }
                                m.finish(false);
                                let reps = [&m.c11, &m.c14, &m.c15, &m.c16];
                                for r in reps {
                                    r.print();
                                }
                            }
                            if let Some(what) = prog::stuck_allocation() {
                                world::violation("C10", "allocation-request-never-returns", format!("no progress for {} s: {}", limit, what));
                                world::print_reports_and_exit(0);
                            }
                            world::with_report("C01", |r| r.inconclusive(format!("no progress for {} s (ops {}, gcs {})", limit, w.counters.ops.load(Ordering::Relaxed), w.counters.gcs.load(Ordering::Relaxed))));
                            eprintln!("VERIF-WATCHDOG no progress for {} s", limit);
                            world::print_reports_and_exit(4);
                        }
                    }
                }
            })
            .unwrap();
    }
    let mut handles = vec![];
    for i in 0..nmut {
        let s = vcommon::mix(seed, i as u64 + 1);
        handles.push(
            std::thread::Builder::new()
                .name(format!("mutator-{}", i))
                .spawn(move || {
                    let idx = world::bind_mutator();
                    let mut m = prog::Mut::new(idx, s);
                    m.run(ops);
                    world::mutator_finished();
                })
                .unwrap(),
        );
    }
    for h in handles {
        let _ = h.join();
    }
    finish()
}

pub fn finish() -> ! {
    let w = world::world();
    // final quiescent check: all mutators are done, no GC can be running unless concurrent work
    // is still in flight; wait for a pending pause to finish first
    for _ in 0..2000 {
        if !w.stop_flag.load(Ordering::SeqCst) {
            break;
        }
        std::thread::sleep(std::time::Duration::from_millis(1));
    }
    // one more run of the heap oracle on the final state (the only one under NoGC)
    shadow::on_pause_end();
    if w.cfg.scenario == "fork" {
        // finally shut the workers down: each must surrender exactly once and return
        let n = w.cfg.workers;
        let ret0 = w.workers_returned.load(Ordering::SeqCst);
        w.mmtk.shutdown();
        let mut waited = 0;
        while w.workers_returned.load(Ordering::SeqCst) < ret0 + n && waited < 20000 {
            std::thread::sleep(std::time::Duration::from_millis(1));
            waited += 1;
        }
        world::with_report("C16", |r| {
            r.count("shutdowns", 1);
            if w.workers_returned.load(Ordering::SeqCst) < ret0 + n {
                r.violation("shutdown:worker-never-returned", format!("{} of {} workers returned from start_worker within 20 s of shutdown", w.workers_returned.load(Ordering::SeqCst) - ret0, n));
            }
        });
    }
    if w.cfg.log_events {
        // let the workers settle (they park after the last GC), then close the log
        let mut quiet = 0;
        let mut last = mmtk::verif::current_seq();
        for _ in 0..2000 {
            std::thread::sleep(std::time::Duration::from_millis(2));
            let now = mmtk::verif::current_seq();
            if now == last {
                quiet += 1;
                if quiet >= 10 {
                    break;
                }
            } else {
                quiet = 0;
                last = now;
            }
        }
        let evs = mmtk::verif::drain();
        let mut m = w.monitor.lock().unwrap();
        m.feed(&evs);
        let truncated = mmtk::verif::log_truncated();
        m.finish(true);
        m.pages.finish();
        let mut reps = w.reports.lock().unwrap();
        for r in [&m.c11, &m.c14, &m.c15, &m.c16, &m.pages.rep] {
            let dst = reps.entry(r.property.clone()).or_insert_with(|| Report::new(&r.property));
            dst.evaluations += r.evaluations;
            for k in r.keys.iter() {
                dst.key(*k);
            }
            for (k, v) in r.counters.iter() {
                dst.count(k, *v);
            }
            // with events missing the automata are out of step with the real run: whatever they
            // flagged after that point is an artefact, the run is only inconclusive
            if !truncated {
                for (sig, d) in r.violations.iter() {
                    dst.violation(sig.clone(), d.clone());
                }
            }
            for smp in r.samples.iter() {
                dst.sample(smp.clone());
            }
            for i in r.inconclusive.iter() {
                dst.inconclusive(i.clone());
            }
            if truncated {
                dst.inconclusive(format!("event log truncated ({} events dropped)", mmtk::verif::log_dropped()));
            }
        }
    }
    world::with_report("C01", |r| r.count("final_state_checks", 1));
    let c = &w.counters;
    let summary = J::obj(vec![
        ("config", J::s(w.cfg.describe())),
        ("variant", J::s(cfg::variant_name())),
        ("ops", J::i(c.ops.load(Ordering::Relaxed))),
        ("allocs", J::i(c.allocs.load(Ordering::Relaxed))),
        ("gcs", J::i(c.gcs.load(Ordering::Relaxed))),
        ("copies", J::i(c.copies.load(Ordering::Relaxed))),
        ("scans", J::i(c.scans.load(Ordering::Relaxed))),
    ]);
    {
        let sh = w.shadow.lock().unwrap();
        let kinds: Vec<(String, u64)> = sh.gc_kinds.iter().map(|(k, v)| (k.clone(), *v)).collect();
        drop(sh);
        let mut reps = w.reports.lock().unwrap();
        for name in ["C01", "C02", "C03"] {
            reps.entry(name.to_string()).or_insert_with(|| Report::new(name));
        }
        if w.cfg.is_concurrent() {
            // a run without a concurrent cycle (e.g. concurrent marking disabled) still reports
            reps.entry("C12".to_string()).or_insert_with(|| Report::new("C12"));
        }
        for r in reps.values_mut() {
            r.note(format!("variant {} {}", cfg::variant_name(), w.cfg.describe()));
            r.count(&format!("processes_plan_{}", w.cfg.plan), 1);
            r.count("gcs", c.gcs.load(Ordering::Relaxed));
            for (k, v) in &kinds {
                r.count(&format!("gc_kind_{}", k), *v);
            }
        }
        // one written-out case per property and process: the program's configuration and what
        // this property's monitor observed in it
        for r in reps.values_mut() {
            if r.samples.len() >= 2 {
                continue;
            }
            let observed: Vec<(String, J)> = r.counters.iter().filter(|(k, _)| !k.starts_with("processes_plan_")).map(|(k, v)| (k.clone(), J::i(*v))).collect();
            r.sample(J::Obj(vec![("program".to_string(), summary.clone()), ("observed".to_string(), J::Obj(observed))]));
        }
    }
    world::print_reports_and_exit(0)
}
