//! VerifVM: a real MMTk VM binding instrumented for runtime monitoring.
pub mod cfg;
pub mod obj;
pub mod prog;
pub mod shadow;
pub mod vm;
pub mod world;

use std::sync::atomic::Ordering;
use vcommon::{Report, J};

/// Run one generated multi-mutator program in this process and print the reports.
pub fn run(cfg: cfg::Config) -> ! {
    vcommon::abort_on_panic();
    let seed = cfg.seed;
    let nmut = cfg.mutators.max(1);
    let ops = cfg.ops;
    if cfg.log_events {
        mmtk::verif::enable_log(1 << 20);
    }
    let w = world::init(cfg);
    // watchdog: no progress for `watchdog_s` seconds => report inconclusive and exit
    {
        let limit = w.cfg.watchdog_s;
        std::thread::Builder::new()
            .name("watchdog".into())
            .spawn(move || {
                let w = world::world();
                let mut last = w.last_progress.load(Ordering::Relaxed);
                let mut idle = 0u64;
                loop {
                    std::thread::sleep(std::time::Duration::from_millis(500));
                    if w.done.load(Ordering::Relaxed) {
                        return;
                    }
                    let now = w.last_progress.load(Ordering::Relaxed);
                    if now != last {
                        last = now;
                        idle = 0;
                    } else {
                        idle += 1;
                        if idle >= 2 * limit {
                            world::with_report("C01", |r| r.inconclusive(format!("no progress for {} s (ops {}, gcs {})", limit, w.counters.ops.load(Ordering::Relaxed), w.counters.gcs.load(Ordering::Relaxed))));
                            eprintln!("VERIF-WATCHDOG no progress for {} s", limit);
                            world::print_reports_and_exit(4);
                        }
                    }
                }
            })
            .unwrap();
    }
    let mut handles = vec![];
    for i in 0..nmut {
        let s = vcommon::mix(seed, i as u64 + 1);
        handles.push(
            std::thread::Builder::new()
                .name(format!("mutator-{}", i))
                .spawn(move || {
                    let idx = world::bind_mutator();
                    let mut m = prog::Mut::new(idx, s);
                    m.run(ops);
                    world::mutator_finished();
                })
                .unwrap(),
        );
    }
    for h in handles {
        let _ = h.join();
    }
    finish()
}

pub fn finish() -> ! {
    let w = world::world();
    // final quiescent check: all mutators are done, no GC can be running unless concurrent work
    // is still in flight; wait for a pending pause to finish first
    for _ in 0..2000 {
        if !w.stop_flag.load(Ordering::SeqCst) {
            break;
        }
        std::thread::sleep(std::time::Duration::from_millis(1));
    }
    // one more run of the heap oracle on the final state (the only one under NoGC)
    shadow::on_pause_end();
    world::with_report("C01", |r| r.count("final_state_checks", 1));
    let c = &w.counters;
    let summary = J::obj(vec![
        ("config", J::s(w.cfg.describe())),
        ("variant", J::s(cfg::variant_name())),
        ("ops", J::i(c.ops.load(Ordering::Relaxed))),
        ("allocs", J::i(c.allocs.load(Ordering::Relaxed))),
        ("gcs", J::i(c.gcs.load(Ordering::Relaxed))),
        ("copies", J::i(c.copies.load(Ordering::Relaxed))),
        ("scans", J::i(c.scans.load(Ordering::Relaxed))),
    ]);
    {
        let sh = w.shadow.lock().unwrap();
        let kinds: Vec<(String, u64)> = sh.gc_kinds.iter().map(|(k, v)| (k.clone(), *v)).collect();
        drop(sh);
        let mut reps = w.reports.lock().unwrap();
        for name in ["C01", "C02", "C03"] {
            reps.entry(name.to_string()).or_insert_with(|| Report::new(name));
        }
        for r in reps.values_mut() {
            r.note(format!("variant {} {}", cfg::variant_name(), w.cfg.describe()));
            r.count(&format!("processes_plan_{}", w.cfg.plan), 1);
            r.count("gcs", c.gcs.load(Ordering::Relaxed));
            for (k, v) in &kinds {
                r.count(&format!("gc_kind_{}", k), *v);
            }
        }
        if let Some(r) = reps.get_mut("C01") {
            r.sample(summary);
        }
    }
    world::print_reports_and_exit(0)
}
