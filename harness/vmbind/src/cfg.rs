//! Run configuration of one gcsim process.
use vcommon::Args;

#[derive(Clone, Debug)]
pub struct Config {
    pub plan: String,
    pub heap_mb: usize,
    /// DynamicHeapSize:min,max in MiB
    pub dyn_heap: Option<(usize, usize)>,
    pub workers: usize,
    pub mutators: usize,
    pub ops: u64,
    pub seed: u64,
    /// stress factor in bytes (0 = off)
    pub stress: usize,
    pub scenario: String,
    /// "default" (contiguous 64-bit) or "map32" (discontiguous / compressed-pointer style)
    pub layout: String,
    pub tombstone: bool,
    pub failpoints: bool,
    pub chaos: bool,
    pub nursery: Option<String>,
    pub extra_opts: Vec<(String, String)>,
    pub thorough: bool,
    /// live-set target: number of root slots in use etc. are scaled from this
    pub max_live_kb: usize,
    /// C09: percentage of the heap a cycle fills before dropping everything
    pub fill_pct: usize,
    pub pin_roots: bool,
    pub weak: bool,
    /// C08: mutators probe is_mmtk_object / find_object_from_internal_pointer on their objects
    pub lookups: bool,
    /// C31: probe the SFT map / VM map / is_in_mmtk_spaces at pause ends
    pub resolve: bool,
    /// C34: check Immix line marks and hole search at pause ends
    pub lines: bool,
    pub finalizers: bool,
    pub ephemerons: bool,
    pub log_events: bool,
    pub watchdog_s: u64,
    pub disable: Vec<String>,
}

impl Config {
    pub fn from_args(a: &Args) -> Config {
        let plan = a.str_or("plan", "SemiSpace");
        let mut extra = vec![];
        if let Some(o) = a.get("opt") {
            for kv in o.split(',') {
                if let Some((k, v)) = kv.split_once('=') {
                    extra.push((k.to_string(), v.to_string()));
                }
            }
        }
        let dyn_heap = a.get("dyn-heap").map(|s| {
            let (x, y) = s.split_once(',').expect("--dyn-heap min,max");
            (x.parse().unwrap(), y.parse().unwrap())
        });
        Config {
            plan,
            heap_mb: a.usize_or("heap-mb", 32),
            dyn_heap,
            workers: a.usize_or("workers", 4),
            mutators: a.usize_or("mutators", 1),
            ops: a.u64_or("ops", 20000),
            // --fixed-seed pins the program of a known-finding shard whatever seed the driver derives
            seed: a.get("fixed-seed").and_then(vcommon::parse_u64).unwrap_or(a.seed()),
            stress: a.usize_or("stress", 0),
            scenario: a.str_or("scenario", "general"),
            layout: a.str_or("layout", "default"),
            tombstone: !a.flag("no-tombstone"),
            failpoints: a.flag("failpoints"),
            chaos: a.flag("chaos"),
            nursery: a.get("nursery").map(|s| s.to_string()),
            extra_opts: extra,
            thorough: a.thorough(),
            max_live_kb: a.usize_or("live-kb", 2048),
            fill_pct: a.usize_or("fill-pct", 30),
            pin_roots: a.flag("pin-roots"),
            weak: a.flag("weak"),
            lookups: a.flag("lookups"),
            resolve: a.flag("resolve"),
            lines: a.flag("lines"),
            finalizers: a.flag("finalizers"),
            ephemerons: a.flag("ephemerons"),
            log_events: a.flag("events"),
            watchdog_s: a.u64_or("watchdog", 60),
            disable: a.get("disable").map(|s| s.split(',').map(|x| x.to_string()).collect()).unwrap_or_default(),
        }
    }

    pub fn off(&self, what: &str) -> bool {
        self.disable.iter().any(|d| d == what)
    }
    pub fn is_generational(&self) -> bool {
        matches!(self.plan.as_str(), "GenCopy" | "GenImmix" | "StickyImmix")
    }
    pub fn is_concurrent(&self) -> bool {
        self.plan == "ConcurrentImmix"
    }
    pub fn collects(&self) -> bool {
        self.plan != "NoGC"
    }
    pub fn needs_forward_after_liveness(&self) -> bool {
        matches!(self.plan.as_str(), "MarkCompact" | "Compressor")
    }
    /// Plans whose default space can move objects.
    pub fn moves(&self) -> bool {
        matches!(
            self.plan.as_str(),
            "SemiSpace" | "GenCopy" | "GenImmix" | "Immix" | "StickyImmix" | "MarkCompact" | "Compressor" | "ConcurrentImmix"
        )
    }
    pub fn supports_pinning_roots(&self) -> bool {
        matches!(
            self.plan.as_str(),
            "Immix" | "StickyImmix" | "ConcurrentImmix" | "MarkSweep" | "PageProtect"
        )
    }
    /// Plans where `pin_object` on a default-space object is supported.
    pub fn supports_pin_object(&self) -> bool {
        cfg!(feature = "f_pin")
            && matches!(
                self.plan.as_str(),
                "Immix" | "StickyImmix" | "GenImmix" | "ConcurrentImmix" | "MarkSweep" | "PageProtect" | "NoGC"
            )
    }
    pub fn describe(&self) -> String {
        format!(
            "plan={} heap={}MB workers={} mutators={} ops={} stress={} scenario={} layout={} seed={}",
            self.plan, self.heap_mb, self.workers, self.mutators, self.ops, self.stress, self.scenario, self.layout, self.seed
        )
    }
}

pub fn variant_name() -> &'static str {
    if cfg!(feature = "var_a") {
        "A"
    } else if cfg!(feature = "var_b") {
        "B"
    } else if cfg!(feature = "var_d") {
        "D"
    } else {
        "C"
    }
}
