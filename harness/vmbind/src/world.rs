//! Process-global state of one gcsim run: the MMTK instance, the mutator registry, the safepoint
//! protocol, GC worker threads, and the logs that the binding callbacks append to.
use crate::cfg::Config;
use crate::obj::{self, *};
use crate::shadow::Shadow;
use crate::vm::VerifVM;
use mmtk::util::alloc::AllocationError;
use mmtk::util::opaque_pointer::*;
use mmtk::util::{Address, ObjectReference};
use mmtk::vm::slot::SimpleSlot;
use mmtk::vm::*;
use mmtk::{memory_manager, Mutator, MMTK};
use std::collections::BTreeMap;
use std::sync::atomic::{AtomicBool, AtomicU64, AtomicUsize, Ordering};
use std::sync::{Condvar, Mutex, OnceLock};
use vcommon::Report;

pub const NROOTS: usize = 48;
pub const NPINROOTS: usize = 4;
pub const NGLOBALS: usize = 32;

// binding-side event kinds (in the shared event log)
pub const EV_BIND: u32 = 1000; // a=mutator idx
pub const EV_STOP_ENTER: u32 = 1001;
pub const EV_STOP_ALL_PARKED: u32 = 1002;
pub const EV_STOP_RETURN: u32 = 1003;
pub const EV_RESUME_ENTER: u32 = 1004;
pub const EV_RESUME_RETURN: u32 = 1005;
pub const EV_SCAN_MUTATOR: u32 = 1006; // a=mutator idx
pub const EV_SCAN_VM_ROOTS: u32 = 1007;
pub const EV_BLOCK_ENTER: u32 = 1008; // a=mutator idx
pub const EV_BLOCK_RETURN: u32 = 1009;
pub const EV_SPAWN_WORKER: u32 = 1010; // a=ordinal
pub const EV_WORKER_RETURNED: u32 = 1011; // a=ordinal
pub const EV_OOM: u32 = 1012; // a=mutator idx (or usize::MAX), b=kind
pub const EV_PREPARE_RESCAN: u32 = 1013;
pub const EV_PROCESS_WEAK_ENTER: u32 = 1014;
pub const EV_PROCESS_WEAK_RETURN: u32 = 1015; // a=returned true?
pub const EV_FORWARD_WEAK: u32 = 1016;
pub const EV_UNBIND: u32 = 1017;
pub const EV_USER_GC_CALL: u32 = 1018; // a=mutator
pub const EV_USER_GC_RETURN: u32 = 1019;
pub const EV_FIRST_COPY: u32 = 1020;
pub const EV_FIRST_SCAN: u32 = 1021;
pub const EV_FORK_PREPARE_CALL: u32 = 1022;
pub const EV_FORK_PREPARE_RETURN: u32 = 1023;
pub const EV_AFTER_FORK_CALL: u32 = 1024;
pub const EV_AFTER_FORK_RETURN: u32 = 1025;
pub const EV_ALLOC_CALL: u32 = 1026; // a=mutator, b=size, c=options bits
pub const EV_ALLOC_RETURN: u32 = 1027; // a=mutator, b=addr
pub const EV_ENQUEUE_REFS: u32 = 1028;
pub const EV_PR_SNAPSHOT: u32 = 1029; // a=page resource id, b=reserved pages, c=committed pages

#[derive(Default)]
pub struct Counters {
    pub schedule_finalization: AtomicU64,
    pub post_forwarding: AtomicU64,
    pub scans: AtomicU64,
    pub stale_scans: AtomicU64,
    pub copies: AtomicU64,
    pub oom_calls: AtomicU64,
    pub gcs: AtomicU64,
    pub block_for_gc: AtomicU64,
    pub allocs: AtomicU64,
    pub alloc_bytes: AtomicU64,
    pub ops: AtomicU64,
}

pub struct MutSlot {
    pub bound: bool,
    pub mutator: *mut Mutator<VerifVM>,
    pub roots: *mut [usize; NROOTS],
}
unsafe impl Send for MutSlot {}

pub struct Sp {
    pub stop_requested: bool,
    pub parked: usize,
    pub running: usize,
    pub epoch: u64,
}

#[derive(Clone, Copy, Debug)]
pub struct MoveRec {
    pub id: u64,
    pub from: usize,
    pub to: usize,
    pub bytes: usize,
    /// 0 = copy, 1 = copy_to (moved), 2 = copy_to in place
    pub how: u8,
}

/// What the GC did during the current pause, as observed through the binding callbacks.
#[derive(Default)]
pub struct GcLog {
    pub cleared: Vec<(u64, usize)>,   // (reference object id, its start) clear_referent was called on
    pub enqueued: Vec<usize>,         // reference objects handed to enqueue_references (ref addresses)
    pub scanned_mutators: Vec<usize>, // mutator idx per scan_roots_in_mutator_thread call
    pub scanned_vm_roots: u64,
    pub rescans_announced: u64,
    pub process_weak_calls: u64,
    pub forward_weak_calls: u64,
    pub pinned_root_ids: Vec<u64>,
}

pub struct World {
    pub cfg: Config,
    pub mmtk: &'static MMTK<VerifVM>,
    pub sp: Mutex<Sp>,
    pub sp_cv: Condvar,
    pub stop_flag: AtomicBool,
    /// all mutators are parked and GC work of a pause may run
    pub stw: AtomicBool,
    pub registry: Mutex<Vec<MutSlot>>,
    pub globals: *mut [usize; NGLOBALS],
    pub shadow: Mutex<Shadow>,
    pub moves: Vec<Mutex<Vec<MoveRec>>>,
    pub gclog: Mutex<GcLog>,
    pub next_id: AtomicU64,
    pub counters: Counters,
    pub reports: Mutex<BTreeMap<String, Report>>,
    pub first_copy_logged: AtomicBool,
    pub first_scan_logged: AtomicBool,
    pub worker_threads: Mutex<Vec<std::thread::JoinHandle<()>>>,
    pub workers_spawned: AtomicUsize,
    pub workers_returned: AtomicUsize,
    pub done: AtomicBool,
    pub last_progress: AtomicU64,
    pub monitor: Mutex<crate::sched::Monitor>,
}
unsafe impl Sync for World {}
unsafe impl Send for World {}

static WORLD: OnceLock<World> = OnceLock::new();

pub fn world() -> &'static World {
    WORLD.get().expect("world not initialised")
}
pub fn world_opt() -> Option<&'static World> {
    WORLD.get()
}

pub fn trace_refs() -> bool {
    static ON: OnceLock<bool> = OnceLock::new();
    *ON.get_or_init(|| std::env::var_os("VERIF_TRACE_REF").is_some())
}

pub fn emit(kind: u32, a: u64, b: u64, c: u64) {
    mmtk::verif::emit(kind, a, b, c, 0);
}

/// Record a violation for `prop`.
pub fn violation(prop: &str, sig: impl Into<String>, detail: impl Into<String>) {
    let w = world();
    let mut r = w.reports.lock().unwrap();
    r.entry(prop.to_string())
        .or_insert_with(|| Report::new(prop))
        .violation(sig, detail);
}

/// Record a violation that makes continuing pointless, print the reports and exit.
pub fn fatal_violation(prop: &str, sig: impl Into<String>, detail: impl Into<String>) -> ! {
    violation(prop, sig, detail);
    print_reports_and_exit(0)
}

pub fn with_report<R>(prop: &str, f: impl FnOnce(&mut Report) -> R) -> R {
    let w = world();
    let mut r = w.reports.lock().unwrap();
    f(r.entry(prop.to_string()).or_insert_with(|| Report::new(prop)))
}

pub fn print_reports_and_exit(code: i32) -> ! {
    let w = world();
    w.done.store(true, Ordering::SeqCst);
    {
        let r = match w.reports.try_lock() {
            Ok(g) => g,
            Err(_) => {
                // another thread is reporting; give it a moment
                std::thread::sleep(std::time::Duration::from_millis(200));
                w.reports.lock().unwrap_or_else(|e| e.into_inner())
            }
        };
        for rep in r.values() {
            rep.print();
        }
    }
    std::process::exit(code)
}

// ------------------------------------------------------------------------------------------------
// Initialisation
// ------------------------------------------------------------------------------------------------

pub fn init(cfg: Config) -> &'static World {
    let mut builder = mmtk::MMTKBuilder::new_no_env_vars();
    let set = |b: &mut mmtk::MMTKBuilder, k: &str, v: &str| {
        if !b.set_option(k, v) {
            eprintln!("HARNESS: option {}={} rejected", k, v);
            std::process::exit(3);
        }
    };
    set(&mut builder, "plan", &cfg.plan);
    set(&mut builder, "threads", &cfg.workers.to_string());
    match cfg.dyn_heap {
        Some((lo, hi)) => set(&mut builder, "gc_trigger", &format!("DynamicHeapSize:{}m,{}m", lo, hi)),
        None => set(&mut builder, "gc_trigger", &format!("FixedHeapSize:{}m", cfg.heap_mb)),
    }
    if cfg.stress > 0 && cfg.collects() {
        set(&mut builder, "stress_factor", &cfg.stress.to_string());
    }
    if let Some(n) = &cfg.nursery {
        set(&mut builder, "nursery", n);
    }
    for (k, v) in &cfg.extra_opts {
        set(&mut builder, k, v);
    }
    if cfg.layout == "map32" {
        use mmtk::util::heap::vm_layout::VMLayout;
        let layout = VMLayout {
            log_address_space: 35,
            heap_start: unsafe { Address::from_usize(0x4000_0000) },
            heap_end: unsafe { Address::from_usize(0x1_0000_0000) },
            log_space_extent: 31,
            force_use_contiguous_spaces: false,
        };
        builder.set_vm_layout(layout);
    }
    let mmtk: &'static MMTK<VerifVM> = Box::leak(Box::new(builder.build::<VerifVM>()));
    let globals = Box::leak(Box::new([0usize; NGLOBALS])) as *mut _;
    let mutators = cfg.mutators;
    let w = World {
        cfg,
        mmtk,
        sp: Mutex::new(Sp { stop_requested: false, parked: 0, running: 0, epoch: 0 }),
        sp_cv: Condvar::new(),
        stop_flag: AtomicBool::new(false),
        stw: AtomicBool::new(false),
        registry: Mutex::new(Vec::new()),
        globals,
        shadow: Mutex::new(Shadow::new(mutators)),
        moves: (0..16).map(|_| Mutex::new(Vec::new())).collect(),
        gclog: Mutex::new(GcLog::default()),
        next_id: AtomicU64::new(1),
        counters: Counters::default(),
        reports: Mutex::new(BTreeMap::new()),
        first_copy_logged: AtomicBool::new(false),
        first_scan_logged: AtomicBool::new(false),
        worker_threads: Mutex::new(Vec::new()),
        workers_spawned: AtomicUsize::new(0),
        workers_returned: AtomicUsize::new(0),
        done: AtomicBool::new(false),
        last_progress: AtomicU64::new(0),
        monitor: Mutex::new(crate::sched::Monitor::new()),
    };
    if WORLD.set(w).is_err() {
        panic!("world initialised twice");
    }
    let w = world();
    if w.cfg.failpoints {
        mmtk::verif::seed_failpoints(w.cfg.seed);
        mmtk::verif::arm_failpoint(mmtk::verif::FP_AFTER_POLL, 30);
        mmtk::verif::arm_failpoint(mmtk::verif::FP_BEFORE_PARK, 100);
        mmtk::verif::arm_failpoint(mmtk::verif::FP_FORWARD_WINDOW, 200);
        mmtk::verif::arm_failpoint(mmtk::verif::FP_FORWARD_LOSER, 100);
        mmtk::verif::arm_failpoint(mmtk::verif::FP_BLOCKQUEUE_POP, 200);
        mmtk::verif::arm_failpoint(mmtk::verif::FP_NOTIFY, 100);
    }
    memory_manager::initialize_collection(w.mmtk, VMThread(OpaquePointer::from_address(unsafe {
        Address::from_usize(0xffff)
    })));
    if w.cfg.chaos {
        // spurious condition-variable wake-ups for parked GC workers
        std::thread::Builder::new()
            .name("chaos".into())
            .spawn(|| {
                let w = world();
                let mut x = w.cfg.seed | 1;
                while !w.done.load(Ordering::Relaxed) {
                    x ^= x << 13;
                    x ^= x >> 7;
                    x ^= x << 17;
                    mmtk::verif::spurious_wakeup(w.mmtk, x & 1 == 0);
                    std::thread::sleep(std::time::Duration::from_micros(50 + (x >> 8) % 2000));
                }
            })
            .unwrap();
    }
    w
}

// ------------------------------------------------------------------------------------------------
// Mutator registry
// ------------------------------------------------------------------------------------------------

pub fn tls_of(idx: usize) -> VMMutatorThread {
    VMMutatorThread(VMThread(OpaquePointer::from_address(unsafe { Address::from_usize(idx + 1) })))
}
pub fn idx_of(tls: VMThread) -> usize {
    tls.0.to_address().as_usize().wrapping_sub(1)
}

/// Bind a new mutator (called by the mutator thread itself).  Returns its index.
pub fn bind_mutator() -> usize {
    let w = world();
    // Registering must not race with the GC thread enumerating mutators: do it under the
    // safepoint lock while no stop is requested.
    loop {
        let mut g = w.sp.lock().unwrap();
        if g.stop_requested {
            // wait for the pause to end; we are not yet a mutator, so we are not counted
            let _g = w.sp_cv.wait_timeout(g, std::time::Duration::from_millis(5)).unwrap();
            continue;
        }
        let mut reg = w.registry.lock().unwrap();
        let idx = reg.len();
        let m = memory_manager::bind_mutator(w.mmtk, tls_of(idx));
        let roots = Box::leak(Box::new([0usize; NROOTS])) as *mut _;
        reg.push(MutSlot { bound: true, mutator: Box::into_raw(m), roots });
        g.running += 1;
        emit(EV_BIND, idx as u64, 0, 0);
        return idx;
    }
}

/// Destroy the current `Mutator` of `idx` and bind a fresh one for the same thread (same roots).
/// Returns false if a GC is pending (caller should poll and retry later).
pub fn rebind_mutator(idx: usize) -> bool {
    let w = world();
    let g = w.sp.lock().unwrap();
    if g.stop_requested {
        return false;
    }
    let mut reg = w.registry.lock().unwrap();
    let slot = &mut reg[idx];
    unsafe {
        memory_manager::destroy_mutator(&mut *slot.mutator);
        drop(Box::from_raw(slot.mutator));
    }
    emit(EV_UNBIND, idx as u64, 0, 0);
    let m = memory_manager::bind_mutator(w.mmtk, tls_of(idx));
    slot.mutator = Box::into_raw(m);
    emit(EV_BIND, idx as u64, 1, 0);
    drop(reg);
    drop(g);
    true
}

pub fn mutator_ptr(idx: usize) -> *mut Mutator<VerifVM> {
    world().registry.lock().unwrap()[idx].mutator
}
pub fn roots_ptr(idx: usize) -> *mut [usize; NROOTS] {
    world().registry.lock().unwrap()[idx].roots
}

pub fn number_of_mutators() -> usize {
    world().registry.lock().unwrap().iter().filter(|s| s.bound).count()
}
pub fn is_mutator(tls: VMThread) -> bool {
    let i = idx_of(tls);
    i < 0x1000 && i < world().registry.lock().unwrap().len()
}
pub fn mutator_of(tls: VMMutatorThread) -> &'static mut Mutator<VerifVM> {
    let i = idx_of(tls.0);
    unsafe { &mut *world().registry.lock().unwrap()[i].mutator }
}
pub fn mutators<'a>() -> Box<dyn Iterator<Item = &'a mut Mutator<VerifVM>> + 'a> {
    let v: Vec<*mut Mutator<VerifVM>> = world()
        .registry
        .lock()
        .unwrap()
        .iter()
        .filter(|s| s.bound)
        .map(|s| s.mutator)
        .collect();
    Box::new(v.into_iter().map(|p| unsafe { &mut *p }))
}

// ------------------------------------------------------------------------------------------------
// Safepoints
// ------------------------------------------------------------------------------------------------

/// Called by mutator threads between operations.
#[inline]
pub fn safepoint_poll() {
    let w = world();
    if w.stop_flag.load(Ordering::Relaxed) {
        park();
    }
}

fn park() {
    let w = world();
    let mut g = w.sp.lock().unwrap();
    if !g.stop_requested {
        return;
    }
    g.parked += 1;
    w.sp_cv.notify_all();
    while g.stop_requested {
        g = w.sp_cv.wait(g).unwrap();
    }
    g.parked -= 1;
}

/// A mutator thread finished its program: it stays bound (its roots stay roots) but no longer
/// needs to park.
pub fn mutator_finished() {
    let w = world();
    let mut g = w.sp.lock().unwrap();
    g.running -= 1;
    w.sp_cv.notify_all();
}

pub fn current_epoch() -> u64 {
    world().sp.lock().unwrap().epoch
}

pub fn block_for_gc(tls: VMMutatorThread) {
    let w = world();
    let idx = idx_of(tls.0);
    w.counters.block_for_gc.fetch_add(1, Ordering::Relaxed);
    emit(EV_BLOCK_ENTER, idx as u64, 0, 0);
    crate::prog::on_block_for_gc(idx);
    let mut g = w.sp.lock().unwrap();
    let e = g.epoch;
    g.parked += 1;
    w.sp_cv.notify_all();
    // Wait for the GC that was pending when we blocked to end -- and, if another collection has
    // already been started by the time we wake up, stay parked for that one too (we are counted as
    // parked, so the next `stop_all_mutators` may already have returned).
    while g.epoch == e || g.stop_requested {
        g = w.sp_cv.wait(g).unwrap();
    }
    g.parked -= 1;
    drop(g);
    crate::prog::on_block_for_gc_return(idx);
    emit(EV_BLOCK_RETURN, idx as u64, 0, 0);
}

pub fn stop_all_mutators<F>(_tls: VMWorkerThread, mut mutator_visitor: F)
where
    F: FnMut(&'static mut Mutator<VerifVM>),
{
    let w = world();
    emit(EV_STOP_ENTER, 0, 0, 0);
    {
        let mut g = w.sp.lock().unwrap();
        if g.stop_requested {
            drop(g);
            violation("C11", "stop_all_mutators:twice-without-resume", "stop_all_mutators called while mutators are already stopped");
        } else {
            g.stop_requested = true;
            w.stop_flag.store(true, Ordering::SeqCst);
            while g.parked < g.running {
                g = w.sp_cv.wait(g).unwrap();
            }
        }
    }
    w.stw.store(true, Ordering::SeqCst);
    w.first_copy_logged.store(false, Ordering::SeqCst);
    w.first_scan_logged.store(false, Ordering::SeqCst);
    emit(EV_STOP_ALL_PARKED, 0, 0, 0);
    crate::shadow::on_world_stopped();
    let ms: Vec<*mut Mutator<VerifVM>> = w
        .registry
        .lock()
        .unwrap()
        .iter()
        .filter(|s| s.bound)
        .map(|s| s.mutator)
        .collect();
    for m in ms {
        mutator_visitor(unsafe { &mut *m });
    }
    emit(EV_STOP_RETURN, 0, 0, 0);
}

pub fn resume_mutators(_tls: VMWorkerThread) {
    let w = world();
    if trace_refs() {
        eprintln!("REFTRACE --- pause {} ends", w.counters.gcs.load(Ordering::Relaxed));
    }
    emit(EV_RESUME_ENTER, 0, 0, 0);
    w.counters.gcs.fetch_add(1, Ordering::Relaxed);
    // All GC work of this pause is done and every mutator is still parked: quiescent point.
    crate::shadow::on_pause_end();
    check_heap_size("pause-end");
    if w.cfg.log_events {
        for s in mmtk::verif::space_table(w.mmtk) {
            emit(EV_PR_SNAPSHOT, s.pr_id as u64, s.reserved_pages as u64, s.committed_pages as u64);
        }
    }
    w.stw.store(false, Ordering::SeqCst);
    let mut g = w.sp.lock().unwrap();
    if !g.stop_requested {
        drop(g);
        violation("C11", "resume_mutators:without-stop", "resume_mutators called while mutators are not stopped");
        g = w.sp.lock().unwrap();
    }
    g.stop_requested = false;
    w.stop_flag.store(false, Ordering::SeqCst);
    g.epoch += 1;
    w.sp_cv.notify_all();
    drop(g);
    w.last_progress.fetch_add(1, Ordering::Relaxed);
    emit(EV_RESUME_RETURN, 0, 0, 0);
}

// ------------------------------------------------------------------------------------------------
// GC threads
// ------------------------------------------------------------------------------------------------

pub fn spawn_gc_thread(_tls: VMThread, ctx: GCThreadContext<VerifVM>) {
    let w = world();
    let GCThreadContext::Worker(worker) = ctx;
    let ordinal = worker.ordinal;
    emit(EV_SPAWN_WORKER, ordinal as u64, 0, 0);
    w.workers_spawned.fetch_add(1, Ordering::SeqCst);
    struct SendPtr(Box<mmtk::scheduler::GCWorker<VerifVM>>);
    unsafe impl Send for SendPtr {}
    let sp = SendPtr(worker);
    let h = std::thread::Builder::new()
        .name(format!("gcworker-{}", ordinal))
        .spawn(move || {
            let sp = sp;
            let tls = VMWorkerThread(VMThread(OpaquePointer::from_address(unsafe {
                Address::from_usize(0x10000 + ordinal)
            })));
            memory_manager::start_worker(world().mmtk, tls, sp.0);
            emit(EV_WORKER_RETURNED, ordinal as u64, 0, 0);
            world().workers_returned.fetch_add(1, Ordering::SeqCst);
        })
        .expect("spawn gc worker");
    w.worker_threads.lock().unwrap().push(h);
}

pub fn out_of_memory(tls: VMThread, err_kind: AllocationError) {
    let w = world();
    w.counters.oom_calls.fetch_add(1, Ordering::Relaxed);
    let idx = idx_of(tls);
    emit(EV_OOM, idx as u64, matches!(err_kind, AllocationError::MmapOutOfMemory) as u64, 0);
    crate::prog::on_out_of_memory(idx, err_kind);
}

// ------------------------------------------------------------------------------------------------
// Root scanning
// ------------------------------------------------------------------------------------------------

pub fn scan_mutator_roots(
    _tls: VMWorkerThread,
    mutator: &'static mut Mutator<VerifVM>,
    mut factory: impl RootsWorkFactory<SimpleSlot>,
) {
    use mmtk::MutatorContext;
    let w = world();
    let idx = idx_of(mutator.get_tls().0);
    emit(EV_SCAN_MUTATOR, idx as u64, 0, 0);
    if !w.stop_flag.load(Ordering::SeqCst) {
        violation("C11", "scan_roots:mutators-not-stopped", "scan_roots_in_mutator_thread called while no stop is in force");
    }
    let roots = w.registry.lock().unwrap()[idx].roots;
    let base = roots as usize;
    let pin = w.cfg.pin_roots && w.cfg.supports_pinning_roots();
    let nslots = if pin { NROOTS - NPINROOTS } else { NROOTS };
    let mut slots = Vec::with_capacity(16);
    for i in 0..nslots {
        slots.push(SimpleSlot::from_address(unsafe { Address::from_usize(base + 8 * i) }));
        if slots.len() == 16 {
            factory.create_process_roots_work(std::mem::take(&mut slots));
        }
    }
    if !slots.is_empty() {
        factory.create_process_roots_work(slots);
    }
    let mut pinned_ids = vec![];
    if pin {
        let mut nodes = vec![];
        for i in nslots..NROOTS {
            let v = unsafe { (*roots)[i] };
            if v != 0 {
                nodes.push(objref(v));
                pinned_ids.push(unsafe { read_hdr(start_of(v)).id });
            }
        }
        if !nodes.is_empty() {
            factory.create_process_pinning_roots_work(nodes);
        }
    }
    let mut gl = w.gclog.lock().unwrap();
    gl.scanned_mutators.push(idx);
    gl.pinned_root_ids.extend(pinned_ids);
}

pub fn scan_global_roots(_tls: VMWorkerThread, mut factory: impl RootsWorkFactory<SimpleSlot>) {
    let w = world();
    emit(EV_SCAN_VM_ROOTS, 0, 0, 0);
    let base = w.globals as usize;
    let mut slots = Vec::with_capacity(NGLOBALS);
    for i in 0..NGLOBALS {
        slots.push(SimpleSlot::from_address(unsafe { Address::from_usize(base + 8 * i) }));
    }
    factory.create_process_roots_work(slots);
    // VM-side tables whose entries are strong roots (e.g. popped finalizables held by the VM)
    crate::shadow::report_vm_strong_roots(&mut factory);
    w.gclog.lock().unwrap().scanned_vm_roots += 1;
}

pub fn on_prepare_for_roots_re_scanning() {
    emit(EV_PREPARE_RESCAN, 0, 0, 0);
    world().gclog.lock().unwrap().rescans_announced += 1;
}

// ------------------------------------------------------------------------------------------------
// Observations made inside GC callbacks
// ------------------------------------------------------------------------------------------------

pub fn record_move(id: u64, from: usize, to: usize, bytes: usize, how: u8) {
    let w = world();
    w.counters.copies.fetch_add(1, Ordering::Relaxed);
    if !w.stw.load(Ordering::SeqCst) {
        violation("C11", "copy:outside-stw", format!("object id {} copied {:#x}->{:#x} while mutators are not stopped", id, from, to));
    }
    if !w.first_copy_logged.swap(true, Ordering::SeqCst) {
        emit(EV_FIRST_COPY, id, from as u64, to as u64);
    }
    if trace_refs() {
        let h = unsafe { read_hdr(start_of(to)) };
        if h.kind != KIND_NORMAL {
            eprintln!("REFTRACE move id={} {:#x}->{:#x}", id, from, to);
        }
    }
    let shard = mmtk::verif::thread_id() as usize % w.moves.len();
    w.moves[shard].lock().unwrap().push(MoveRec { id, from, to, bytes, how });
}

pub fn on_scan(h: &Hdr, start: usize) {
    let w = world();
    w.counters.scans.fetch_add(1, Ordering::Relaxed);
    if h.id & 0xFFFF_FFFF_FF00_0000 == (TOMBSTONE | 0xffff_0000) & 0xFFFF_FFFF_FF00_0000 {
        w.counters.stale_scans.fetch_add(1, Ordering::Relaxed);
        violation("C01", "scan:moved-from-object", format!("scan_object called on the old copy of a moved object at {:#x} (id low bits {:#x})", start, h.id & 0xffff));
    }
    if !w.cfg.is_concurrent() && !w.stw.load(Ordering::SeqCst) {
        violation("C11", "scan_object:outside-stw", format!("object id {} scanned while mutators are not stopped", h.id));
    }
    if !w.first_scan_logged.swap(true, Ordering::SeqCst) {
        emit(EV_FIRST_SCAN, h.id, 0, 0);
    }
}

pub fn on_clear_referent(h: &Hdr, start: usize) {
    world().gclog.lock().unwrap().cleared.push((h.id, start));
}

pub fn on_enqueue_references(references: &[ObjectReference], _tls: VMWorkerThread) {
    emit(EV_ENQUEUE_REFS, references.len() as u64, 0, 0);
    let mut gl = world().gclog.lock().unwrap();
    for r in references {
        if trace_refs() {
            eprintln!("REFTRACE enqueue {} id={}", r, unsafe { read_hdr(start_of(r.to_raw_address().as_usize())).id });
        }
        gl.enqueued.push(r.to_raw_address().as_usize());
    }
}

pub fn process_weak_refs(
    worker: &mut mmtk::scheduler::GCWorker<VerifVM>,
    tracer_context: impl ObjectTracerContext<VerifVM>,
) -> bool {
    emit(EV_PROCESS_WEAK_ENTER, 0, 0, 0);
    world().gclog.lock().unwrap().process_weak_calls += 1;
    let again = crate::shadow::process_weak_refs(worker, tracer_context);
    emit(EV_PROCESS_WEAK_RETURN, again as u64, 0, 0);
    again
}

pub fn forward_weak_refs(
    worker: &mut mmtk::scheduler::GCWorker<VerifVM>,
    tracer_context: impl ObjectTracerContext<VerifVM>,
) {
    emit(EV_FORWARD_WEAK, 0, 0, 0);
    world().gclog.lock().unwrap().forward_weak_calls += 1;
    crate::shadow::forward_weak_refs(worker, tracer_context);
}

/// C38: the heap size MMTk reports must stay within the configured bounds.
pub fn check_heap_size(site: &str) {
    let w = world();
    let total = memory_manager::total_bytes(w.mmtk);
    let page = 4096usize;
    match w.cfg.dyn_heap {
        Some((lo, hi)) => {
            let (lo_b, hi_b) = (lo << 20, hi << 20);
            if total + page <= lo_b || total >= hi_b + page {
                violation("C38", format!("heap-size:out-of-bounds:{}", if total < lo_b { "below-min" } else { "above-max" }), format!("total_bytes() = {} at {} with DynamicHeapSize:{}m,{}m (plan {})", total, site, lo, hi, w.cfg.plan));
            }
            with_report("C38", |r| {
                r.evaluations += 1;
                r.count("dynamic_samples", 1);
                if total == lo_b {
                    r.count("samples_at_min", 1);
                } else if total == hi_b {
                    r.count("samples_at_max", 1);
                } else {
                    r.count("samples_interior", 1);
                }
                r.key(vcommon::mix(0xC38, (total >> 20) as u64));
                if r.want_sample() {
                    r.sample(vcommon::J::obj(vec![("plan", vcommon::J::s(w.cfg.plan.clone())), ("site", vcommon::J::s(site)), ("total_bytes", vcommon::J::i(total as u64)), ("min_mb", vcommon::J::i(lo as u64)), ("max_mb", vcommon::J::i(hi as u64))]));
                }
            });
        }
        None => {
            let want = w.cfg.heap_mb << 20;
            if total != want {
                violation("C38", "heap-size:fixed-heap-changed", format!("total_bytes() = {} at {} with FixedHeapSize:{}m", total, site, w.cfg.heap_mb));
            }
            with_report("C38", |r| {
                r.evaluations += 1;
                r.count("fixed_samples", 1);
                r.key(vcommon::mix(0xF38, w.cfg.heap_mb as u64));
            });
        }
    }
}

/// Is `addr` safe to dereference as (part of) an object?  Used by the oracles before they read
/// heap memory through a possibly stale pointer.
pub fn readable(addr: usize, bytes: usize) -> bool {
    if addr == 0 || addr % 8 != 0 {
        return false;
    }
    let a = unsafe { Address::from_usize(addr) };
    let e = unsafe { Address::from_usize(addr + bytes.max(8) - 8) };
    memory_manager::is_mapped_address(a) && memory_manager::is_mapped_address(e)
}

#[allow(dead_code)]
fn _keep(_: &dyn Fn()) {
    let _ = obj::MIN_OBJ_BYTES;
}
