//! The shadow heap (what the VM believes the heap contains) and the oracles that compare it with
//! the real heap at quiescent points.
use crate::obj::*;
use crate::vm::VerifVM;
use crate::world::{self, violation, with_report, world, MoveRec, NGLOBALS, NROOTS};
use mmtk::memory_manager;
use mmtk::util::{Address, ObjectReference};
use mmtk::vm::slot::SimpleSlot;
use mmtk::vm::*;
use std::collections::{BTreeMap, HashMap, HashSet};
use vcommon::{mix, J};

pub const SEM_DEFAULT: u8 = 0;
pub const SEM_IMMORTAL: u8 = 1;
pub const SEM_LOS: u8 = 2;
pub const SEM_NONMOVING: u8 = 6;

#[derive(Clone, Debug)]
pub struct SObj {
    pub id: u64,
    /// current object reference (raw address)
    pub addr: usize,
    pub size: u32,
    pub nrefs: u16,
    pub kind: u8,
    pub sem: u8,
    pub align_log: u8,
    pub offset: u8,
    pub flags: u8,
    pub fields: Vec<u64>,
    pub pinned: bool,
    pub born_epoch: u64,
    /// number of pauses survived
    pub survived: u32,
    pub enqueued: bool,
    pub moved_count: u32,
}

#[derive(Default, Clone)]
pub struct PreGc {
    pub valid: bool,
    pub info: mmtk::verif::GcInfo,
    /// strong closure from the roots (not following referent slots)
    pub s0: HashSet<u64>,
    /// certainly live after soft-reference retention: s0 + closure of referents of soft
    /// references in s0
    pub s1: HashSet<u64>,
    /// possibly live after soft-reference retention (MMTk retains referents in hash-set order, so
    /// a soft reference reached only through another retained referent may or may not have been
    /// live when it was visited): fixpoint of adding referents of soft references in the set
    pub s1_max: HashSet<u64>,
    /// certainly live after finalization: s1 + closure of registered finalizables not in s1_max
    pub s2: HashSet<u64>,
    /// possibly live after finalization: s1_max + closure of registered finalizables not in s1
    pub s2_max: HashSet<u64>,
    /// registered finalizables not in s1 (expected to become ready in an exact GC)
    pub fin_expected_ready: HashSet<u64>,
    /// referent id of each reference object at GC start
    pub referent_of: HashMap<u64, u64>,
    /// the GC was requested as forced+exhaustive by a single-mutator program
    pub exact: bool,
    /// ids whose only strong path from the roots goes through an old->young edge (C05 evidence)
    pub remset_only: HashSet<u64>,
    pub ephemeron_expected_rounds: u32,
}

pub struct Eph {
    pub key: u64,
    pub val: u64,
    /// real addresses as the VM stores them (updated by process/forward_weak_refs)
    pub key_addr: usize,
    pub val_addr: usize,
}

pub struct Shadow {
    pub objs: HashMap<u64, SObj>,
    pub roots: Vec<[u64; NROOTS]>,
    pub globals: [u64; NGLOBALS],
    /// start -> (end, id): objects that are live or were allocated since the last completed pause
    pub by_addr: BTreeMap<usize, (usize, u64)>,
    pub epoch: u64,
    /// unreachable objects of never-collected spaces: must stay intact forever (C04)
    pub immortal_dead: HashSet<u64>,
    /// id -> outstanding finalizer registrations
    pub fin_registered: HashMap<u64, u32>,
    /// registered finalizables that were not certainly live at the start of some pause since
    /// their registration, i.e. that MMTk may legitimately hand out
    pub fin_may_be_ready: HashSet<u64>,
    /// popped finalizables the VM still holds: real cells (raw refs) + ids
    pub vm_strong: Vec<(Box<usize>, u64)>,
    pub ephemerons: Vec<Eph>,
    pub eph_rounds_this_gc: u32,
    pub eph_retained_this_gc: Vec<u64>,
    pub pre: PreGc,
    /// ConcurrentImmix: ids reachable at the InitialMark pause or allocated since
    pub satb: Option<HashSet<u64>>,
    /// request flags set by the program for the next pause
    pub next_gc_exact: bool,
    pub single_mutator: bool,
    pub gc_kinds: HashMap<String, u64>,
    pub dead_probe: Vec<(u64, usize, usize)>, // (id, ref addr, size) of objects that died at the last exact GC
    /// start addresses of objects that were found dead at some pause (bounded; C02 evidence of reuse)
    pub dead_starts: HashSet<usize>,
    /// (start, size) of dead objects of at least one chunk (C31: multi-chunk regions that were freed)
    pub dead_big: Vec<(usize, usize)>,
}

impl Shadow {
    pub fn new(mutators: usize) -> Self {
        Shadow {
            objs: HashMap::new(),
            roots: vec![[0; NROOTS]; mutators.max(1)],
            globals: [0; NGLOBALS],
            by_addr: BTreeMap::new(),
            epoch: 0,
            immortal_dead: HashSet::new(),
            fin_registered: HashMap::new(),
            fin_may_be_ready: HashSet::new(),
            vm_strong: Vec::new(),
            ephemerons: Vec::new(),
            eph_rounds_this_gc: 0,
            eph_retained_this_gc: vec![],
            pre: PreGc::default(),
            satb: None,
            next_gc_exact: false,
            single_mutator: mutators <= 1,
            gc_kinds: HashMap::new(),
            dead_probe: vec![],
            dead_starts: HashSet::new(),
            dead_big: vec![],
        }
    }

    pub fn root_ids(&self) -> Vec<u64> {
        let mut v = vec![];
        for r in &self.roots {
            v.extend(r.iter().copied().filter(|x| *x != 0));
        }
        v.extend(self.globals.iter().copied().filter(|x| *x != 0));
        v.extend(self.vm_strong.iter().map(|x| x.1));
        v
    }

    /// Transitive closure over the shadow graph.  `follow_referent`: follow slot 0 of reference
    /// objects too.  `eph`: treat live-key ephemerons as edges key -> value.
    pub fn closure(&self, seeds: impl IntoIterator<Item = u64>, follow_referent: bool, eph: bool, into: &mut HashSet<u64>) {
        let mut stack: Vec<u64> = vec![];
        for s in seeds {
            if s != 0 && into.insert(s) {
                stack.push(s);
            }
        }
        let eph_map: HashMap<u64, Vec<u64>> = if eph {
            let mut m: HashMap<u64, Vec<u64>> = HashMap::new();
            for e in &self.ephemerons {
                m.entry(e.key).or_default().push(e.val);
            }
            m
        } else {
            HashMap::new()
        };
        while let Some(id) = stack.pop() {
            let Some(o) = self.objs.get(&id) else { continue };
            let first = if o.kind != KIND_NORMAL && !follow_referent { 1 } else { 0 };
            for f in o.fields.iter().skip(first) {
                if *f != 0 && into.insert(*f) {
                    stack.push(*f);
                }
            }
            if eph {
                if let Some(vs) = eph_map.get(&id) {
                    for v in vs {
                        if into.insert(*v) {
                            stack.push(*v);
                        }
                    }
                }
            }
        }
    }

    pub fn insert_interval(&mut self, o: &SObj) {
        let s = start_of(o.addr);
        self.by_addr.insert(s, (s + o.size as usize, o.id));
    }

    /// Check that `[start, start+size)` does not overlap an interval in the map (C02).
    pub fn overlap(&self, start: usize, size: usize) -> Option<(usize, usize, u64)> {
        let end = start + size;
        if let Some((s, (e, id))) = self.by_addr.range(..end).next_back() {
            if *e > start && *s < end {
                return Some((*s, *e, *id));
            }
        }
        None
    }
}

/// Objects with this semantics live in a space that is never collected.
pub fn never_collected(sem: u8) -> bool {
    if sem == SEM_IMMORTAL {
        return true;
    }
    // variant C is built with `immortal_as_nonmoving`
    if sem == SEM_NONMOVING && cfg!(feature = "layout_c") {
        return true;
    }
    world().cfg.plan == "NoGC"
}

fn never_moves(o: &SObj) -> bool {
    o.sem == SEM_IMMORTAL || o.sem == SEM_LOS || o.sem == SEM_NONMOVING || o.pinned
}

// ------------------------------------------------------------------------------------------------
// World stopped: snapshot the reference-model sets of the pre-GC graph
// ------------------------------------------------------------------------------------------------

pub fn on_world_stopped() {
    let w = world();
    let mut sh = w.shadow.lock().unwrap();
    let info = mmtk::verif::gc_info(w.mmtk);
    let mut pre = PreGc { valid: true, info, ..Default::default() };
    let roots = sh.root_ids();
    sh.closure(roots.iter().copied(), false, false, &mut pre.s0);
    // soft referents of soft refs in s0
    let mut soft_seeds = vec![];
    for id in pre.s0.iter() {
        if let Some(o) = sh.objs.get(id) {
            if o.kind == KIND_SOFT && o.fields[0] != 0 {
                soft_seeds.push(o.fields[0]);
            }
        }
    }
    pre.s1 = pre.s0.clone();
    if !info.emergency {
        sh.closure(soft_seeds, false, false, &mut pre.s1);
    }
    // upper bound: keep adding referents of soft references that are in the set
    pre.s1_max = pre.s1.clone();
    if !info.emergency {
        loop {
            let mut more = vec![];
            for id in pre.s1_max.iter() {
                if let Some(o) = sh.objs.get(id) {
                    if o.kind == KIND_SOFT && o.fields[0] != 0 && !pre.s1_max.contains(&o.fields[0]) {
                        more.push(o.fields[0]);
                    }
                }
            }
            if more.is_empty() {
                break;
            }
            sh.closure(more, false, false, &mut pre.s1_max);
        }
    }
    let fin: Vec<u64> = sh.fin_registered.keys().copied().collect();
    for f in &fin {
        if !pre.s1_max.contains(f) {
            pre.fin_expected_ready.insert(*f);
        }
        if !pre.s1.contains(f) {
            sh.fin_may_be_ready.insert(*f);
        }
    }
    pre.s2 = pre.s1.clone();
    sh.closure(pre.fin_expected_ready.iter().copied().collect::<Vec<_>>(), false, false, &mut pre.s2);
    pre.s2_max = pre.s1_max.clone();
    sh.closure(fin.iter().copied().filter(|f| !pre.s1.contains(f)).collect::<Vec<_>>(), false, false, &mut pre.s2_max);
    for (id, o) in sh.objs.iter() {
        if o.kind != KIND_NORMAL {
            pre.referent_of.insert(*id, o.fields[0]);
        }
    }
    let non_conc_or_full = info.pause == 0 || info.pause == 1;
    pre.exact = sh.next_gc_exact && sh.single_mutator && !info.nursery && non_conc_or_full && info.user_triggered;
    sh.next_gc_exact = false;
    // C05 evidence: objects whose only strong path goes through an object that survived >= 1 pause
    if info.nursery {
        let mut young_direct: HashSet<u64> = HashSet::new();
        // closure from roots that never passes through an old object
        let mut stack: Vec<u64> = roots.clone();
        while let Some(id) = stack.pop() {
            if !young_direct.insert(id) {
                continue;
            }
            if let Some(o) = sh.objs.get(&id) {
                if o.survived >= 1 {
                    continue; // old object: do not traverse through it
                }
                let first = if o.kind != KIND_NORMAL { 1 } else { 0 };
                for f in o.fields.iter().skip(first) {
                    if *f != 0 {
                        stack.push(*f);
                    }
                }
            }
        }
        for id in pre.s0.iter() {
            if !young_direct.contains(id) {
                if let Some(o) = sh.objs.get(id) {
                    if o.survived == 0 {
                        pre.remset_only.insert(*id);
                    }
                }
            }
        }
    }
    sh.eph_rounds_this_gc = 0;
    sh.eph_retained_this_gc.clear();
    let kind = format!(
        "{}{}{}{}",
        if info.nursery { "nursery" } else { "full" },
        match info.pause {
            2 => "-initialmark",
            3 => "-finalmark",
            _ => "",
        },
        if info.emergency { "-emergency" } else { "" },
        if info.user_triggered { "-user" } else { "" }
    );
    *sh.gc_kinds.entry(kind).or_insert(0) += 1;
    sh.pre = pre;
}

// ------------------------------------------------------------------------------------------------
// Pause end: the heap oracle
// ------------------------------------------------------------------------------------------------

/// Verify one object by its shadow record.  Returns false when the object could not be read.
fn verify_object(sh: &Shadow, o: &SObj, why: &str, prop: &str, nursery_gc: bool) -> bool {
    let start = start_of(o.addr);
    if !world::readable(start, o.size as usize) {
        violation(prop, format!("heap:{}:unmapped", why), format!("object id {} ({}) at {:#x} size {} is not in mapped memory", o.id, why, o.addr, o.size));
        return false;
    }
    let h = unsafe { read_hdr(start) };
    if h.id != o.id || h.size != o.size || h.nrefs != o.nrefs || h.kind != o.kind || h.check != check_word(o.size, o.nrefs, o.kind, o.id) {
        let what = if h.id & 0xFFFF_FFFF_FF00_0000 == TOMBSTONE & 0xFFFF_FFFF_FF00_0000 { "tombstone" } else if h.id == 0 && h.size == 0 { "zeroed" } else if h.id != o.id { "other-object" } else { "header-corrupt" };
        violation(prop, format!("heap:{}:{}", why, what), format!("object id {} expected at {:#x} (size {}, nrefs {}, kind {}, sem {}, align 2^{} offset {}, moved {}x, survived {}, born in epoch {}, now {}): found header {:?}; first words {:x?}", o.id, o.addr, o.size, o.nrefs, o.kind, o.sem, o.align_log, o.offset, o.moved_count, o.survived, o.born_epoch, sh.epoch, h, (0..8).map(|i| unsafe { rd(start + 8 * i) }).collect::<Vec<u64>>()));
        return false;
    }
    if let Some((i, want, got)) = unsafe { verify_payload(start, o.id, o.nrefs as usize, o.size as usize) } {
        violation(prop, format!("heap:{}:payload", why), format!("object id {} at {:#x} size {} sem {}: payload word {} is {:#x}, expected {:#x}", o.id, o.addr, o.size, o.sem, i, got, want));
        return false;
    }
    for (i, f) in o.fields.iter().enumerate() {
        let v = unsafe { rd(slot_addr(start, i)) } as usize;
        let want = if *f == 0 { 0 } else { sh.objs.get(f).map(|t| t.addr).unwrap_or(usize::MAX) };
        if want == usize::MAX {
            violation(prop, "harness:dangling-shadow-field", format!("shadow object {} field {} names unknown id {}", o.id, i, f));
            return false;
        }
        if v != want {
            let kind = if v == 0 { "nulled" } else if want == 0 { "not-null" } else { "stale-or-wrong" };
            // An object that survived earlier pauses holds a reference to an object allocated
            // since the last pause, and a nursery collection did not update it: only the
            // remembered set could have told the collector about that slot.
            if nursery_gc && prop != "C05" && o.survived >= 1 && sh.objs.get(f).map(|t| t.survived == 0).unwrap_or(false) {
                violation("C05", "heap:old-to-young-slot-not-updated-by-nursery-gc", format!("object id {} (survived {} pauses) at {:#x} slot {} holds {:#x} after a nursery GC, expected {:#x} (young object id {})", o.id, o.survived, o.addr, i, v, want, f));
            }
            violation(prop, format!("heap:{}:slot-{}", why, kind), format!("object id {} at {:#x} slot {} holds {:#x}, expected {:#x} (id {}); referent-slot={}", o.id, o.addr, i, v, want, f, o.kind != KIND_NORMAL && i == 0));
            return false;
        }
    }
    true
}

pub fn on_pause_end() {
    let w = world();
    let mut guard = w.shadow.lock().unwrap();
    let sh: &mut Shadow = &mut guard;
    let pre = std::mem::take(&mut sh.pre);
    let gl = std::mem::take(&mut *w.gclog.lock().unwrap());
    let cfg = &w.cfg;
    let info = pre.info;

    // ---- 1. moves -------------------------------------------------------------------------
    let mut moves: Vec<MoveRec> = vec![];
    for m in &w.moves {
        moves.append(&mut m.lock().unwrap());
    }
    let mut moved_ids: HashMap<u64, usize> = HashMap::new();
    let mut moved = 0u64;
    let pinned_roots: HashSet<u64> = gl.pinned_root_ids.iter().copied().collect();
    if !moves.is_empty() {
        with_report("C17", |r| {
            r.evaluations += moves.len() as u64;
            r.count("gcsim_copies_checked_for_exactly_once", moves.len() as u64);
            r.count("gcsim_pauses_with_copies", 1);
            r.key(mix(0xC17, mix(cfg.workers as u64, (moves.len() as u64).next_power_of_two())));
        });
    }
    for m in &moves {
        let e = moved_ids.entry(m.id).or_insert(0);
        *e += 1;
        if *e == 2 {
            violation("C17", "copy:object-copied-twice-in-one-gc", format!("object id {} was copied more than once in one collection ({:#x}->{:#x})", m.id, m.from, m.to));
        }
        if let Some(o) = sh.objs.get_mut(&m.id) {
            if o.addr != m.from {
                violation("C01", "copy:from-unknown-address", format!("object id {} copied from {:#x} but the VM knows it at {:#x}", m.id, m.from, o.addr));
            }
            if m.to != m.from {
                if never_moves(o) {
                    let why = if o.pinned { "pinned" } else { "non-moving-semantics" };
                    violation("C04", format!("moved:{}", why), format!("object id {} (sem {}, pinned {}) moved {:#x}->{:#x}", o.id, o.sem, o.pinned, m.from, m.to));
                }
                if pinned_roots.contains(&m.id) {
                    violation("C04", "moved:pinning-root", format!("object id {} referenced by a pinning root moved {:#x}->{:#x}", o.id, m.from, m.to));
                }
                o.addr = m.to;
                o.moved_count += 1;
                moved += 1;
            }
        }
    }

    // ---- 2. reference processing observed through the glue ---------------------------------
    let mut cleared_now: HashSet<u64> = HashSet::new();
    for (rid, _start) in &gl.cleared {
        if let Some(o) = sh.objs.get_mut(rid) {
            if o.kind != KIND_NORMAL {
                o.fields[0] = 0;
                cleared_now.insert(*rid);
            }
        }
    }
    let mut enqueued_ids: Vec<u64> = vec![];
    for a in &gl.enqueued {
        // identify by address (after moves)
        let start = start_of(*a);
        if world::readable(start, MIN_OBJ_BYTES) {
            let h = unsafe { read_hdr(start) };
            enqueued_ids.push(h.id);
        } else {
            violation("C06", "enqueue:unmapped-reference", format!("enqueue_references got {:#x} which is not mapped", a));
        }
    }
    check_references(sh, &pre, &cleared_now, &enqueued_ids);

    // ---- 3. live set after the pause ---------------------------------------------------------
    let mut live: HashSet<u64> = HashSet::new();
    let mut seeds = sh.root_ids();
    seeds.extend(sh.fin_registered.keys().copied());
    sh.closure(seeds.iter().copied(), true, true, &mut live);

    // roots
    {
        let reg = w.registry.lock().unwrap();
        for (mi, slot) in reg.iter().enumerate() {
            for i in 0..NROOTS {
                let v = unsafe { (*slot.roots)[i] };
                let id = sh.roots[mi][i];
                let want = if id == 0 { 0 } else { sh.objs.get(&id).map(|o| o.addr).unwrap_or(usize::MAX) };
                if v != want {
                    violation("C01", "heap:root-slot", format!("mutator {} root {} holds {:#x}, expected {:#x} (id {})", mi, i, v, want, id));
                }
            }
        }
        for i in 0..NGLOBALS {
            let v = unsafe { (*w.globals)[i] };
            let id = sh.globals[i];
            let want = if id == 0 { 0 } else { sh.objs.get(&id).map(|o| o.addr).unwrap_or(usize::MAX) };
            if v != want {
                violation("C01", "heap:global-root-slot", format!("global root {} holds {:#x}, expected {:#x} (id {})", i, v, want, id));
            }
        }
        for (cell, id) in sh.vm_strong.iter() {
            let want = sh.objs.get(id).map(|o| o.addr).unwrap_or(usize::MAX);
            if **cell != want {
                violation("C06", "finalizable:vm-root-not-updated", format!("VM-held finalizable id {} cell holds {:#x}, expected {:#x}", id, **cell, want));
            }
        }
    }

    let mut verified = 0u64;
    let mut by_ref: HashMap<usize, u64> = HashMap::with_capacity(live.len());
    let vo = cfg!(feature = "f_vo");
    let mut remset_verified = 0u64;
    let mut los_checked = 0u64;
    for id in live.iter() {
        let Some(o) = sh.objs.get(id) else {
            violation("C01", "harness:live-id-unknown", format!("live id {} has no shadow record", id));
            continue;
        };
        let why = if pre.remset_only.contains(id) { "remset-only" } else if pre.s0.contains(id) || !pre.valid { "reachable" } else { "retained" };
        let prop = if pre.remset_only.contains(id) { "C05" } else if why == "retained" && sh.fin_registered.contains_key(id) { "C06" } else { "C01" };
        let ok = verify_object(sh, o, why, prop, pre.valid && info.nursery);
        if o.sem == SEM_LOS && pre.valid {
            los_checked += 1;
            if !ok && !world::readable(start_of(o.addr), 8) || (!ok && unsafe { read_hdr(start_of(o.addr)) }.id != o.id) {
                // a marked (reachable) large object was swept / its pages were released or reused
                violation("C36", format!("los:reachable-large-object-swept:{}", if info.nursery { "nursery-gc" } else { "full-gc" }), format!("large object id {} at {:#x} (size {}, survived {} pauses) was reachable in this collection but its memory is gone or reused", o.id, o.addr, o.size, o.survived));
            }
        }
        if ok {
            verified += 1;
            if pre.remset_only.contains(id) {
                remset_verified += 1;
            }
            if let Some(other) = by_ref.insert(o.addr, *id) {
                violation("C01", "identity:two-ids-one-address", format!("ids {} and {} are both at {:#x}", other, id, o.addr));
            }
            #[cfg(feature = "f_vo")]
            if vo {
                let a = unsafe { Address::from_usize(o.addr) };
                match memory_manager::is_mmtk_object(a) {
                    Some(r) if r.to_raw_address() == a => {}
                    other => violation("C07", "vo-bit:live-object-rejected", format!("is_mmtk_object({:#x}) = {:?} for live object id {} (sem {}, {})", o.addr, other, o.id, o.sem, why)),
                }
                if !memory_manager::is_in_mmtk_spaces(objref(o.addr)) {
                    violation("C31", "is_in_mmtk_spaces:live-object-rejected", format!("is_in_mmtk_spaces false for live object id {} at {:#x}", o.id, o.addr));
                }
            }
        }
    }
    let _ = vo;

    // objects of never-collected spaces that are unreachable must stay intact (C04)
    let mut immortal_checked = 0u64;
    let dead_now: Vec<u64> = sh.objs.keys().copied().filter(|k| !live.contains(k)).collect();
    for id in &dead_now {
        let o = &sh.objs[id];
        if never_collected(o.sem) {
            sh.immortal_dead.insert(*id);
        }
    }
    let imm: Vec<u64> = sh.immortal_dead.iter().copied().collect();
    for id in imm {
        if live.contains(&id) {
            sh.immortal_dead.remove(&id);
            continue;
        }
        if let Some(o) = sh.objs.get(&id) {
            // header and payload only: its reference slots may point at objects that legitimately died
            let start = start_of(o.addr);
            let ok = world::readable(start, o.size as usize) && unsafe {
                let h = read_hdr(start);
                h.id == o.id && h.size == o.size && verify_payload(start, o.id, o.nrefs as usize, o.size as usize).is_none()
            };
            if !ok {
                violation("C04", "immortal:unreachable-object-damaged", format!("unreachable object id {} (sem {}) of a never-collected space at {:#x} is no longer intact", o.id, o.sem, o.addr));
            }
            immortal_checked += 1;
        }
    }

    // ---- 4. exact-liveness checks (C07, C06 completeness) ------------------------------------
    let mut enumerated = 0u64;
    if pre.valid && pre.exact {
        enumerated = check_exact(sh, &pre, &live, &dead_now);
    }

    // ---- 4b. conservative lookups (C08) -------------------------------------------------------
    #[cfg(feature = "f_vo")]
    crate::c08::at_pause_end(sh, &live, pre.valid && pre.exact);

    // ---- 4c. address-to-space resolution (C31) -----------------------------------------------
    if cfg.resolve {
        crate::c31::at_pause_end(sh, &live);
    }

    // ---- 4d. Immix lines (C34) -----------------------------------------------------------------
    if cfg.lines && pre.valid {
        // (not at the final-state check: objects allocated since the last GC are not marked)
        crate::c34::at_pause_end(sh, &live);
    }

    // ---- 5. SATB (C12) -------------------------------------------------------------------------
    check_satb(sh, &info, &live);

    // ---- 6. bookkeeping ------------------------------------------------------------------------
    sh.by_addr.clear();
    let keep_dead = sh.satb.clone();
    let ids: Vec<u64> = sh.objs.keys().copied().collect();
    for id in ids {
        let keep = live.contains(&id) || sh.immortal_dead.contains(&id) || keep_dead.as_ref().map(|s| s.contains(&id)).unwrap_or(false);
        if keep {
            let o = sh.objs.get_mut(&id).unwrap();
            o.survived += 1;
            let s = start_of(o.addr);
            let e = s + o.size as usize;
            sh.by_addr.insert(s, (e, id));
        } else {
            if let Some(o) = sh.objs.remove(&id) {
                if sh.dead_starts.len() < 200_000 {
                    sh.dead_starts.insert(start_of(o.addr));
                }
                if o.size as usize >= (4 << 20) && sh.dead_big.len() < 256 {
                    sh.dead_big.push((start_of(o.addr), o.size as usize));
                }
            }
        }
    }
    sh.epoch += 1;
    let epoch = sh.epoch;

    // ---- 7. evidence ---------------------------------------------------------------------------
    let kindkey = mix(info.nursery as u64 * 8 + info.pause as u64 * 16 + info.emergency as u64, (live.len() as u64).min(64).next_power_of_two());
    with_report("C01", |r| {
        r.evaluations += verified;
        r.key(mix(kindkey, (moved.min(1 << 20)).next_power_of_two()));
        r.count("pauses", 1);
        r.count("objects_verified", verified);
        r.count("objects_moved", moved);
        r.count(if info.nursery { "pauses_nursery" } else { "pauses_full" }, 1);
        if r.want_sample() && verified > 0 {
            r.sample(J::obj(vec![
                ("pause", J::i(epoch)),
                ("plan", J::s(cfg.plan.clone())),
                ("nursery", J::Bool(info.nursery)),
                ("live_objects", J::i(live.len() as u64)),
                ("moved", J::i(moved)),
                ("verified", J::i(verified)),
            ]));
        }
    });
    with_report("C04", |r| {
        r.count("immortal_dead_checked", immortal_checked);
        r.count("pauses", 1);
        r.count("moves_checked_against_semantics", moves.len() as u64);
        r.evaluations += immortal_checked + moves.len() as u64;
        r.key(mix(0xC04, mix(kindkey, mix(immortal_checked.next_power_of_two(), (moves.len() as u64).next_power_of_two()))));
    });
    with_report("C05", |r| {
        r.count("remset_only_verified", remset_verified);
        if info.nursery {
            r.count("nursery_pauses", 1);
        } else if info.generational {
            r.count("full_pauses", 1);
        }
        r.evaluations += remset_verified;
        if remset_verified > 0 {
            r.key(mix(0xC05, mix(remset_verified.next_power_of_two(), moved.next_power_of_two())));
        }
    });
    with_report("C07", |r| {
        r.count("objects_enumerated", enumerated);
    });
    if los_checked > 0 {
        with_report("C36", |r| {
            r.evaluations += los_checked;
            r.count("gcsim_reachable_large_objects_checked_after_gc", los_checked);
            r.count(if info.nursery { "gcsim_nursery_pauses_with_large_objects" } else { "gcsim_full_pauses_with_large_objects" }, 1);
            r.key(mix(0xC36, mix(info.nursery as u64, los_checked.next_power_of_two())));
        });
    }
    let _ = cfg;
}

fn check_references(sh: &mut Shadow, pre: &PreGc, cleared: &HashSet<u64>, enqueued: &[u64]) {
    if !pre.valid {
        return;
    }
    let mut evals = 0u64;
    let mut cleared_ok = 0u64;
    let mut kept = 0u64;
    for rid in cleared {
        evals += 1;
        let Some(&referent) = pre.referent_of.get(rid) else { continue };
        // only a strongly reachable reference object is certainly live for MMTk; clearing the
        // referent of a dead reference object is legitimate
        if referent != 0 && pre.s0.contains(&referent) && pre.s0.contains(rid) {
            let kind = sh.objs.get(rid).map(|o| o.kind).unwrap_or(0);
            violation("C06", format!("reference:cleared-strongly-reachable-referent:kind{}", kind), format!("reference object id {} (kind {}) was cleared although its referent id {} is strongly reachable", rid, kind, referent));
        } else {
            cleared_ok += 1;
        }
        // a strongly reachable reference that gets cleared must be enqueued
        if pre.s0.contains(rid) && referent != 0 && !enqueued.contains(rid) {
            violation("C06", "reference:cleared-not-enqueued", format!("live reference object id {} was cleared but not handed to enqueue_references", rid));
        }
    }
    let mut seen = HashSet::new();
    for rid in enqueued {
        evals += 1;
        if !seen.insert(*rid) {
            violation("C06", "reference:enqueued-twice-in-one-gc", format!("reference object id {} enqueued twice", rid));
        }
        match sh.objs.get_mut(rid) {
            Some(o) if o.kind != KIND_NORMAL => {
                if o.enqueued {
                    violation("C06", "reference:enqueued-twice", format!("reference object id {} enqueued in two collections", rid));
                }
                o.enqueued = true;
                if !cleared.contains(rid) {
                    violation("C06", "reference:enqueued-not-cleared", format!("reference object id {} enqueued but clear_referent was not called on it", rid));
                }
            }
            _ => violation("C06", "reference:enqueued-unknown-object", format!("enqueue_references got object id {} which is not a registered reference object", rid)),
        }
    }
    // exact GCs: completeness
    let mut must_clear = 0u64;
    if pre.exact {
        for (rid, referent) in &pre.referent_of {
            if *referent == 0 {
                continue;
            }
            let Some(o) = sh.objs.get(rid) else { continue };
            if o.enqueued && !enqueued.contains(rid) {
                continue; // already processed in an earlier GC
            }
            // r_live: the reference object is certainly live at its processing stage;
            // ref_live / ref_maybe_live: the referent is certainly / possibly live at that stage
            let (r_live, ref_live, ref_maybe_live) = match o.kind {
                KIND_SOFT | KIND_WEAK => (pre.s1.contains(rid), pre.s1.contains(referent), pre.s1_max.contains(referent)),
                _ => (pre.s2.contains(rid), pre.s2.contains(referent), pre.s2_max.contains(referent)),
            };
            // a soft reference reached only through another soft referent is order dependent
            if o.kind == KIND_SOFT && !pre.s0.contains(rid) {
                continue;
            }
            if r_live && !ref_maybe_live {
                must_clear += 1;
                if !cleared.contains(rid) {
                    violation("C06", format!("reference:not-cleared-after-exhaustive-gc:kind{}", o.kind), format!("reference object id {} (kind {}) still refers to id {} which was unreachable in an exhaustive collection", rid, o.kind, referent));
                }
            } else if r_live && ref_live {
                kept += 1;
                if cleared.contains(rid) {
                    violation("C06", format!("reference:cleared-reachable-referent:kind{}", o.kind), format!("reference object id {} (kind {}) was cleared although referent id {} was reachable at its strength level", rid, o.kind, referent));
                }
            }
        }
    }
    with_report("C06", |r| {
        r.evaluations += evals;
        r.count("references_cleared", cleared.len() as u64);
        r.count("references_cleared_legitimately", cleared_ok);
        r.count("references_enqueued", enqueued.len() as u64);
        r.count("references_kept_checked", kept);
        r.count("references_must_clear_checked", must_clear);
        r.count("pauses", 1);
        if pre.exact {
            r.count("exact_pauses", 1);
        }
        if !cleared.is_empty() || must_clear > 0 {
            r.key(mix(0xC06, mix(cleared.len() as u64, mix(enqueued.len() as u64, must_clear))));
        }
    });
}

/// Checks that are only sound when liveness is exact (forced exhaustive full-heap STW GC).
fn check_exact(sh: &mut Shadow, pre: &PreGc, live: &HashSet<u64>, dead_now: &[u64]) -> u64 {
    let w = world();
    // finalizers: pop everything that is ready now (acting as the VM's finalizer thread)
    let mut popped: Vec<u64> = vec![];
    while let Some(obj) = memory_manager::get_finalized_object(w.mmtk) {
        let r = obj.to_raw_address().as_usize();
        let start = start_of(r);
        if !world::readable(start, MIN_OBJ_BYTES) {
            violation("C06", "finalizable:returned-unmapped", format!("get_finalized_object returned {:#x} which is not mapped", r));
            continue;
        }
        let id = unsafe { read_hdr(start).id };
        on_finalizable_popped(sh, id, r, Some(pre));
        popped.push(id);
    }
    let popped_set: HashSet<u64> = popped.iter().copied().collect();
    for f in &pre.fin_expected_ready {
        if !popped_set.contains(f) {
            violation("C06", "finalizable:unreachable-not-returned-after-exhaustive-gc", format!("finalizable id {} was unreachable in an exhaustive collection but get_finalized_object did not return it", f));
        }
    }
    with_report("C06", |r| {
        r.count("finalizables_popped_at_exact_gc", popped.len() as u64);
        r.count("finalizables_expected_ready", pre.fin_expected_ready.len() as u64);
        if !popped.is_empty() {
            r.key(mix(0xF1, popped.len() as u64));
        }
    });

    // C07: enumerate_objects == survivors
    let mut n = 0u64;
    #[cfg(feature = "f_vo")]
    {
        let mut expected: HashMap<usize, u64> = HashMap::new();
        for id in live.iter() {
            if let Some(o) = sh.objs.get(id) {
                expected.insert(o.addr, *id);
            }
        }
        for id in sh.immortal_dead.iter() {
            if let Some(o) = sh.objs.get(id) {
                expected.insert(o.addr, *id);
            }
        }
        let mut seen: HashMap<usize, u32> = HashMap::new();
        w.mmtk.enumerate_objects(|o: ObjectReference| {
            *seen.entry(o.to_raw_address().as_usize()).or_insert(0) += 1;
        });
        n = seen.len() as u64;
        let mut extra = 0;
        for (a, c) in &seen {
            if *c > 1 {
                violation("C07", "enumerate:object-visited-twice", format!("enumerate_objects visited {:#x} {} times", a, c));
            }
            if !expected.contains_key(a) {
                extra += 1;
                if extra <= 3 {
                    let desc = if world::readable(start_of(*a), MIN_OBJ_BYTES) { format!("{:?}", unsafe { read_hdr(start_of(*a)) }) } else { "unmapped".into() };
                    violation("C07", "enumerate:visits-non-survivor", format!("enumerate_objects visited {:#x} which is not a survivor of the exhaustive GC ({})", a, desc));
                }
            }
        }
        for (a, id) in &expected {
            if !seen.contains_key(a) {
                let o = &sh.objs[id];
                violation("C07", format!("enumerate:misses-survivor:sem{}", o.sem), format!("enumerate_objects did not visit surviving object id {} at {:#x} (sem {})", id, a, o.sem));
            }
        }
        // dead objects must not be reported as valid objects any more
        let mut probed = 0u64;
        for id in dead_now {
            if sh.immortal_dead.contains(id) {
                continue;
            }
            let o = &sh.objs[id];
            if expected.contains_key(&o.addr) {
                continue; // address reused by a survivor (e.g. compaction)
            }
            probed += 1;
            let a = unsafe { Address::from_usize(o.addr) };
            if let Some(r) = memory_manager::is_mmtk_object(a) {
                violation("C07", format!("vo-bit:reclaimed-object-still-valid:sem{}", o.sem), format!("is_mmtk_object({:#x}) = Some({}) for object id {} (sem {}) that did not survive the exhaustive GC", o.addr, r, id, o.sem));
            }
        }
        with_report("C07", |r| {
            r.evaluations += n + probed;
            r.count("exact_pauses", 1);
            r.count("dead_objects_probed", probed);
            r.count("survivors_expected", expected.len() as u64);
            r.key(mix(0xC07, mix(n.next_power_of_two(), probed.next_power_of_two())));
            if r.want_sample() {
                r.sample(J::obj(vec![("plan", J::s(w.cfg.plan.clone())), ("enumerated", J::i(n)), ("survivors", J::i(expected.len() as u64)), ("dead_probed", J::i(probed))]));
            }
        });
        sh.dead_probe = dead_now.iter().filter_map(|id| sh.objs.get(id)).filter(|o| !expected.contains_key(&o.addr) && !sh.immortal_dead.contains(&o.id)).map(|o| (o.id, o.addr, o.size as usize)).take(4096).collect();
    }
    let _ = (live, dead_now);
    n
}

/// A finalizable object was returned by `get_finalized_object`.
pub fn on_finalizable_popped(sh: &mut Shadow, id: u64, addr: usize, pre: Option<&PreGc>) {
    let w = world();
    match sh.fin_registered.get_mut(&id) {
        Some(c) if *c > 0 => {
            *c -= 1;
            if *c == 0 {
                sh.fin_registered.remove(&id);
            }
        }
        _ => {
            violation("C06", "finalizable:returned-more-often-than-registered", format!("get_finalized_object returned object id {} with no outstanding registration", id));
        }
    }
    // It must have been (possibly) unreachable at the start of some pause since it was
    // registered; an object that was strongly reachable at every pause must never be returned.
    let _ = pre;
    if !sh.fin_may_be_ready.remove(&id) {
        violation("C06", "finalizable:reachable-object-returned", format!("get_finalized_object returned object id {} which was strongly reachable at the start of every pause since its registration", id));
    }
    match sh.objs.get(&id) {
        Some(o) => {
            if o.addr != addr {
                violation("C06", "finalizable:returned-stale-address", format!("get_finalized_object returned {:#x} for object id {}, which now lives at {:#x}", addr, id, o.addr));
            }
        }
        None => violation("C06", "finalizable:returned-unknown-object", format!("get_finalized_object returned object id {} which the VM does not know as alive", id)),
    }
    // the VM now holds it strongly
    sh.vm_strong.push((Box::new(addr), id));
    let _ = w;
}

fn check_satb(sh: &mut Shadow, info: &mmtk::verif::GcInfo, live: &HashSet<u64>) {
    match info.pause {
        2 => {
            // InitialMark: snapshot of what is *strongly* reachable now (weakly reachable
            // referents are not part of the snapshot: they may legitimately be cleared at the
            // final mark), plus referents of strongly reachable soft references, plus registered
            // finalizables and what they reach.
            let mut snap: HashSet<u64> = HashSet::new();
            let mut seeds = sh.root_ids();
            seeds.extend(sh.fin_registered.keys().copied());
            sh.closure(seeds, false, false, &mut snap);
            // (referents that are only softly reachable are left out too: the final mark may be
            // an emergency collection, which clears soft references)
            let _ = live;
            sh.satb = Some(snap);
            SATB_ACTIVE.store(true, std::sync::atomic::Ordering::SeqCst);
            with_report("C12", |r| r.count("initial_mark_pauses", 1));
        }
        3 => {
            SATB_ACTIVE.store(false, std::sync::atomic::Ordering::SeqCst);
            if let Some(snap) = sh.satb.take() {
                let mut checked = 0u64;
                let mut unreachable_now = 0u64;
                for id in snap.iter() {
                    if live.contains(id) {
                        continue; // verified by the general oracle
                    }
                    let Some(o) = sh.objs.get(id) else { continue };
                    unreachable_now += 1;
                    if verify_object(sh, o, "satb-snapshot", "C12", false) {
                        checked += 1;
                        #[cfg(feature = "f_vo")]
                        {
                            let a = unsafe { Address::from_usize(o.addr) };
                            if memory_manager::is_mmtk_object(a).is_none() {
                                violation("C12", "satb:snapshot-object-reclaimed", format!("object id {} at {:#x} was reachable at the initial mark (or allocated during marking) but is not a valid object after the final mark", id, o.addr));
                            }
                        }
                    }
                }
                with_report("C12", |r| {
                    r.evaluations += snap.len() as u64;
                    r.count("final_mark_pauses", 1);
                    r.count("snapshot_objects", snap.len() as u64);
                    r.count("snapshot_objects_unreachable_at_final_mark_verified", checked);
                    r.count("snapshot_objects_unreachable_at_final_mark", unreachable_now);
                    r.key(mix(0xC12, mix((snap.len() as u64).next_power_of_two(), unreachable_now.next_power_of_two())));
                    if r.want_sample() {
                        r.sample(J::obj(vec![("snapshot", J::i(snap.len() as u64)), ("unreachable_at_final_mark", J::i(unreachable_now)), ("verified_intact", J::i(checked))]));
                    }
                });
            }
        }
        _ => {
            // a full pause cancels any snapshot
            sh.satb = None;
            SATB_ACTIVE.store(false, std::sync::atomic::Ordering::SeqCst);
        }
    }
}

/// True between an InitialMark and the following FinalMark pause (concurrent marking in progress).
pub static SATB_ACTIVE: std::sync::atomic::AtomicBool = std::sync::atomic::AtomicBool::new(false);

/// Called by the mutator side when an object is allocated while a SATB snapshot is active.
pub fn satb_note_alloc(sh: &mut Shadow, id: u64) {
    if let Some(s) = sh.satb.as_mut() {
        s.insert(id);
        with_report("C12", |r| r.count("objects_allocated_during_concurrent_marking", 1));
    }
}

// ------------------------------------------------------------------------------------------------
// VM-side weak tables (ephemerons) — C13
// ------------------------------------------------------------------------------------------------

pub fn report_vm_strong_roots(factory: &mut impl RootsWorkFactory<SimpleSlot>) {
    let w = world();
    let sh = w.shadow.lock().unwrap();
    let mut slots = vec![];
    for (cell, _) in sh.vm_strong.iter() {
        slots.push(SimpleSlot::from_address(Address::from_ref(&**cell)));
    }
    if !slots.is_empty() {
        factory.create_process_roots_work(slots);
    }
}

pub fn process_weak_refs(
    worker: &mut mmtk::scheduler::GCWorker<VerifVM>,
    tracer_context: impl ObjectTracerContext<VerifVM>,
) -> bool {
    let w = world();
    let mut guard = w.shadow.lock().unwrap();
    let sh: &mut Shadow = &mut guard;
    let round = sh.eph_rounds_this_gc;
    sh.eph_rounds_this_gc += 1;
    let needs_forward = w.cfg.needs_forward_after_liveness();

    // (C13) the strong closure (and everything retained in earlier rounds) must be complete now
    let mut probes = 0u64;
    if sh.pre.valid {
        let mut must: Vec<u64> = vec![];
        // sample the strong closure (bounded)
        for id in sh.pre.s2.iter().take(4000) {
            must.push(*id);
        }
        let mut retained: HashSet<u64> = HashSet::new();
        let prev: Vec<u64> = sh.eph_retained_this_gc.clone();
        sh.closure(prev, false, false, &mut retained);
        must.extend(retained.iter().take(4000));
        for id in must {
            let Some(o) = sh.objs.get(&id) else { continue };
            // In a nursery GC objects of the immortal / non-moving spaces are not traced, so
            // is_reachable() says nothing about closure completeness for them.
            if sh.pre.info.nursery && (o.sem == SEM_IMMORTAL || o.sem == SEM_NONMOVING) {
                continue;
            }
            // address at GC start
            let a = pre_gc_addr(o);
            probes += 1;
            if !objref(a).is_reachable() {
                let which = if retained.contains(&id) { "closure-of-previously-retained-incomplete" } else { "strong-closure-incomplete" };
                violation("C13", format!("process_weak_refs:{}", which), format!("process_weak_refs round {}: object id {} (sem {}, survived {}, size {}, nursery_gc {}) at {:#x} should have been reached but is_reachable() is false", round, id, o.sem, o.survived, o.size, sh.pre.info.nursery, a));
                break;
            }
        }
    }

    let mut retained_now: Vec<u64> = vec![];
    let mut to_trace: Vec<usize> = vec![]; // indices into ephemerons
    let already: HashSet<u64> = sh.eph_retained_this_gc.iter().copied().collect();
    for (i, e) in sh.ephemerons.iter().enumerate() {
        let k = objref(e.key_addr);
        if k.is_reachable() {
            let v = objref(e.val_addr);
            // a value is traced at most once per GC: in a nursery GC `is_reachable()` stays false
            // for objects of spaces that are not traced (immortal, non-moving) even after tracing
            if !v.is_reachable() && !already.contains(&e.val) {
                to_trace.push(i);
            }
        }
    }
    if !to_trace.is_empty() {
        tracer_context.with_tracer(worker, |tracer| {
            for i in &to_trace {
                let e = &mut sh.ephemerons[*i];
                let nv = tracer.trace_object(objref(e.val_addr));
                if !needs_forward {
                    e.val_addr = nv.to_raw_address().as_usize();
                }
                retained_now.push(e.val);
            }
        });
    }
    let again = !retained_now.is_empty();
    sh.eph_retained_this_gc.extend(retained_now.iter().copied());
    if !again {
        // fixpoint: drop entries with dead keys, update addresses of the rest
        let mut kept = vec![];
        let old = std::mem::take(&mut sh.ephemerons);
        let mut dropped = 0u64;
        for mut e in old {
            let k = objref(e.key_addr);
            if k.is_reachable() {
                if !needs_forward {
                    e.key_addr = k.get_forwarded_object().unwrap_or(k).to_raw_address().as_usize();
                    let v = objref(e.val_addr);
                    e.val_addr = v.get_forwarded_object().unwrap_or(v).to_raw_address().as_usize();
                }
                kept.push(e);
            } else {
                dropped += 1;
            }
        }
        sh.ephemerons = kept;
        with_report("C13", |r| {
            r.count("ephemerons_dropped", dropped);
        });
    }
    let rounds = sh.eph_rounds_this_gc as u64;
    with_report("C13", |r| {
        r.evaluations += 1 + probes;
        r.count("process_weak_refs_calls", 1);
        r.count("reachability_probes", probes);
        r.count("values_retained", retained_now.len() as u64);
        r.set_max("max_rounds_in_one_gc", rounds);
        r.key(mix(0xC13, mix(round as u64, retained_now.len().min(8) as u64)));
    });
    again
}

/// Address an object had when the current GC started (undo nothing: moves are applied only at
/// pause end, so the shadow address IS the pre-GC address during the pause).
fn pre_gc_addr(o: &SObj) -> usize {
    o.addr
}

pub fn forward_weak_refs(
    worker: &mut mmtk::scheduler::GCWorker<VerifVM>,
    tracer_context: impl ObjectTracerContext<VerifVM>,
) {
    let w = world();
    let mut guard = w.shadow.lock().unwrap();
    let sh: &mut Shadow = &mut guard;
    if !w.cfg.needs_forward_after_liveness() {
        violation("C13", "forward_weak_refs:called-for-plan-without-forwarding-pass", format!("forward_weak_refs called for plan {}", w.cfg.plan));
    }
    tracer_context.with_tracer(worker, |tracer| {
        for e in sh.ephemerons.iter_mut() {
            let nk = tracer.trace_object(objref(e.key_addr));
            let nv = tracer.trace_object(objref(e.val_addr));
            e.key_addr = nk.to_raw_address().as_usize();
            e.val_addr = nv.to_raw_address().as_usize();
        }
    });
    with_report("C13", |r| r.count("forward_weak_refs_calls", 1));
}
