//! C28: page-resource monitor over the grant / release / reset events of a live run.
//!
//! Model: per page resource the set of granted page runs.  The hooks emit a release event
//! *before* the pages are given back and a grant event *after* the pages were obtained, so in
//! sequence-number order a run is never granted while the model still holds it unless the real
//! page resource handed out pages that are in use.  At every pause end (world stopped, all GC
//! work done) the binding emits one snapshot event per space carrying the real counters.
use crate::world::{world, EV_PR_SNAPSHOT};
use mmtk::verif::{Event, SpaceInfo, EV_GRANT, EV_PR_RESET, EV_RELEASE};
use std::collections::{BTreeMap, HashMap};
use vcommon::{mix, Report, J};

const PAGE: usize = 4096;

struct Pr {
    info: SpaceInfo,
    /// start -> pages
    grants: BTreeMap<usize, usize>,
    pages: usize,
    /// false after an operation the model cannot follow (reset_cursor of a discontiguous space)
    tracked: bool,
    seen_grant: bool,
}

pub struct PageMon {
    prs: HashMap<usize, Pr>,
    /// all live grants of all page resources: start -> (end, pr)
    all: BTreeMap<usize, (usize, usize)>,
    loaded: bool,
    pub rep: Report,
    grants: u64,
    releases: u64,
    resets: u64,
    snapshots: u64,
    regranted: u64,
    freed_starts: std::collections::HashSet<usize>,
}

impl PageMon {
    pub fn new() -> Self {
        PageMon { prs: HashMap::new(), all: BTreeMap::new(), loaded: false, rep: Report::new("C28"), grants: 0, releases: 0, resets: 0, snapshots: 0, regranted: 0, freed_starts: Default::default() }
    }

    fn load(&mut self) {
        if self.loaded {
            return;
        }
        self.loaded = true;
        for s in mmtk::verif::space_table(world().mmtk) {
            self.prs.insert(s.pr_id, Pr { info: s, grants: BTreeMap::new(), pages: 0, tracked: true, seen_grant: false });
        }
    }

    fn remove(&mut self, pr: usize, start: usize) -> Option<usize> {
        let p = self.prs.get_mut(&pr)?;
        let pages = p.grants.remove(&start)?;
        p.pages -= pages;
        self.all.remove(&start);
        if self.freed_starts.len() < 100_000 {
            self.freed_starts.insert(start);
        }
        Some(pages)
    }

    pub fn step(&mut self, e: &Event) {
        match e.kind {
            EV_GRANT => {
                self.load();
                self.grants += 1;
                self.rep.evaluations += 1;
                let (pr, start, pages, desc) = (e.a as usize, e.b as usize, e.c as usize, e.d);
                let Some(p) = self.prs.get_mut(&pr) else {
                    self.rep.violation("grant:unknown-page-resource", format!("grant of {} pages at {:#x} by a page resource ({:#x}) that belongs to no space of the plan", pages, start, pr));
                    return;
                };
                p.seen_grant = true;
                let name = p.info.name;
                let end = start + pages * PAGE;
                if start % PAGE != 0 || pages == 0 {
                    self.rep.violation(format!("grant:not-page-aligned-or-empty:{}", name), format!("{} was granted {} pages at {:#x}", name, pages, start));
                }
                if desc != p.info.descriptor as u64 {
                    self.rep.violation(format!("grant:vm-map-descriptor-differs:{}", name), format!("{} (descriptor {:#x}) was granted [{:#x},{:#x}) but the VM map says descriptor {:#x} for it", name, p.info.descriptor, start, end, desc));
                }
                if p.info.contiguous {
                    let (s, x) = (p.info.start.as_usize(), p.info.extent);
                    if start < s || end > s + x {
                        self.rep.violation(format!("grant:outside-contiguous-space:{}", name), format!("{} = [{:#x},{:#x}) was granted [{:#x},{:#x})", name, s, s + x, start, end));
                    }
                }
                // disjoint from every live grant of every space
                let mut clash = None;
                if let Some((s0, (e0, o))) = self.all.range(..end).next_back() {
                    if *e0 > start {
                        clash = Some((*s0, *e0, *o));
                    }
                }
                if let Some((s0, e0, o)) = clash {
                    let oname = self.prs.get(&o).map(|x| x.info.name).unwrap_or("?");
                    self.rep.violation(format!("grant:overlaps-live-grant:{}+{}", name, oname), format!("{} was granted [{:#x},{:#x}) which overlaps [{:#x},{:#x}) still held by {} (seq {})", name, start, end, s0, e0, oname, e.seq));
                    // keep the model usable
                    self.remove(o, s0);
                }
                let p = self.prs.get_mut(&pr).unwrap();
                p.grants.insert(start, pages);
                p.pages += pages;
                self.all.insert(start, (end, pr));
                if self.freed_starts.remove(&start) {
                    self.regranted += 1;
                }
                self.rep.key(mix(0xC28, mix(pr as u64, (pages as u64).next_power_of_two())));
            }
            EV_RELEASE => {
                self.load();
                self.releases += 1;
                self.rep.evaluations += 1;
                let (pr, start, pages) = (e.a as usize, e.b as usize, e.c as usize);
                let name = self.prs.get(&pr).map(|x| x.info.name).unwrap_or("?");
                let tracked = self.prs.get(&pr).map(|x| x.tracked).unwrap_or(false);
                match self.remove(pr, start) {
                    Some(g) if g == pages => {}
                    Some(g) => self.rep.violation(format!("release:size-differs-from-grant:{}", name), format!("{} releases {} pages at {:#x} but was granted {} pages there", name, pages, start, g)),
                    None if tracked => self.rep.violation(format!("release:not-a-live-grant:{}", name), format!("{} releases {} pages at {:#x} which is not the start of a live grant of it (seq {})", name, pages, start, e.seq)),
                    None => {}
                }
            }
            EV_PR_RESET => {
                self.load();
                self.resets += 1;
                if e.c > 1 {
                    // RegionPageResource::reset_cursor: within [d, c) only [d, b) stays granted
                    let (pr, keep, rend, rstart) = (e.a as usize, e.b as usize, e.c as usize, e.d as usize);
                    let Some(p) = self.prs.get(&pr) else { return };
                    let starts: Vec<usize> = p.grants.range(rstart..rend).map(|(s, _)| *s).collect();
                    for s in starts {
                        let pages = self.prs[&pr].grants[&s];
                        if s >= keep {
                            self.remove(pr, s);
                        } else if s + pages * PAGE > keep {
                            self.remove(pr, s);
                            let np = (keep - s) / PAGE;
                            let p = self.prs.get_mut(&pr).unwrap();
                            p.grants.insert(s, np);
                            p.pages += np;
                            self.all.insert(s, (keep, pr));
                        }
                    }
                    return;
                }
                let (pr, top, cursor) = (e.a as usize, e.b as usize, e.c != 0);
                let Some(p) = self.prs.get(&pr) else { return };
                let contiguous = p.info.contiguous;
                let starts: Vec<usize> = p.grants.keys().copied().collect();
                if !cursor || top == 0 || contiguous {
                    let keep = if cursor && top != 0 { (top + PAGE - 1) & !(PAGE - 1) } else { 0 };
                    for s in starts {
                        let pages = self.prs[&pr].grants[&s];
                        if s >= keep {
                            self.remove(pr, s);
                        } else if s + pages * PAGE > keep {
                            self.remove(pr, s);
                            let np = (keep - s) / PAGE;
                            let p = self.prs.get_mut(&pr).unwrap();
                            p.grants.insert(s, np);
                            p.pages += np;
                            self.all.insert(s, (keep, pr));
                        }
                    }
                } else {
                    // reset_cursor of a discontiguous space keeps regions by list order: not modelled
                    for s in starts {
                        self.remove(pr, s);
                    }
                    self.prs.get_mut(&pr).unwrap().tracked = false;
                }
                if !cursor {
                    if let Some(p) = self.prs.get_mut(&pr) {
                        p.tracked = true;
                    }
                }
            }
            EV_PR_SNAPSHOT => {
                self.load();
                self.snapshots += 1;
                let (pr, reserved, committed) = (e.a as usize, e.b as usize, e.c as usize);
                let Some(p) = self.prs.get(&pr) else { return };
                if !p.tracked {
                    return;
                }
                self.rep.evaluations += 1;
                let name = p.info.name;
                if reserved != committed {
                    self.rep.violation(format!("quiescent:reserved-differs-from-committed:{}", name), format!("{} at pause end: reserved {} pages, committed {} pages", name, reserved, committed));
                }
                if committed != p.pages {
                    self.rep.violation(format!("quiescent:committed-differs-from-live-grants:{}", name), format!("{} at pause end (seq {}): committed {} pages, reserved {} pages, but the grants not yet released add up to {} pages in {} runs", name, e.seq, committed, reserved, p.pages, p.grants.len()));
                }
                if p.pages > 0 {
                    self.rep.count("snapshots_nonempty_space", 1);
                }
                self.rep.key(mix(0xC28A, mix(pr as u64, (p.pages as u64).next_power_of_two())));
            }
            _ => {}
        }
    }

    pub fn finish(&mut self) {
        self.rep.count("grants", self.grants);
        self.rep.count("releases", self.releases);
        self.rep.count("monotone_resets", self.resets);
        self.rep.count("quiescent_snapshots", self.snapshots);
        self.rep.count("grants_of_previously_released_pages", self.regranted);
        self.rep.count("spaces_with_grants", self.prs.values().filter(|p| p.seen_grant).count() as u64);
        let spaces: Vec<J> = self.prs.values().filter(|p| p.seen_grant).map(|p| J::obj(vec![("space", J::s(p.info.name)), ("contiguous", J::Bool(p.info.contiguous)), ("live_runs", J::i(p.grants.len() as u64)), ("live_pages", J::i(p.pages as u64))])).collect();
        self.rep.sample(J::obj(vec![("plan", J::s(world().cfg.plan.clone())), ("grants", J::i(self.grants)), ("releases", J::i(self.releases)), ("spaces", J::Arr(spaces))]));
    }
}
