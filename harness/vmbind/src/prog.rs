//! Generated mutator programs: each mutator thread interprets a PRNG-driven stream of heap
//! operations against the real MMTk instance, updating the shadow heap atomically with the real
//! heap (under the shadow lock), and checks every value it reads.
use crate::obj::*;
use crate::shadow::*;
use crate::vm::VerifVM;
use crate::world::{self, emit, violation, with_report, world, NGLOBALS, NPINROOTS, NROOTS};

/// Roots 0..GEN_ROOTS are general purpose, SCRATCH.. are scratch registers of composite
/// operations, the last NPINROOTS may be reported as pinning roots.
pub const GEN_ROOTS: usize = 36;
pub const SCRATCH: usize = 36;
use mmtk::memory_manager;
use mmtk::util::alloc::AllocationError;
use mmtk::util::Address;
use mmtk::vm::slot::SimpleSlot;
use mmtk::{AllocationSemantics, Mutator};
use std::sync::atomic::Ordering;
use vcommon::{mix, Rng, J};

#[derive(Clone, Copy, PartialEq, Eq, Debug)]
pub enum Bar {
    None,
    Object,
    Satb,
}

pub fn active_barrier() -> Bar {
    use mmtk::BarrierSelector;
    match world().mmtk.get_plan().constraints().barrier {
        BarrierSelector::NoBarrier => Bar::None,
        BarrierSelector::ObjectBarrier => Bar::Object,
        BarrierSelector::SATBBarrier => Bar::Satb,
    }
}

pub struct Mut {
    pub idx: usize,
    pub bar: Bar,
    pub rng: Rng,
    pub mutator: *mut Mutator<VerifVM>,
    pub roots: *mut [usize; NROOTS],
    pub max_default: usize,
    pub usable_roots: usize,
    pub oom_seen: u64,
    /// allocation options of the next requests (None = plain `alloc`)
    pub alloc_opts: Option<mmtk::util::alloc::AllocationOptions>,
    pub last_alloc: AllocObs,
}

thread_local! {
    static OOM_FLAG: std::cell::Cell<u64> = const { std::cell::Cell::new(0) };
    static BLOCKED_FLAG: std::cell::Cell<u64> = const { std::cell::Cell::new(0) };
    static OOM_EPOCH: std::cell::Cell<u64> = const { std::cell::Cell::new(0) };
}

/// Per mutator: non-zero while an allocation request is in flight; the watchdog uses it to tell a
/// request that never returns from other kinds of stalls.
pub static ALLOC_IN_FLIGHT: [std::sync::atomic::AtomicU64; 8] = [const { std::sync::atomic::AtomicU64::new(0) }; 8];
pub static ALLOC_DESC: [std::sync::atomic::AtomicU64; 8] = [const { std::sync::atomic::AtomicU64::new(0) }; 8];
pub static IN_BLOCK_FOR_GC: [std::sync::atomic::AtomicBool; 8] = [const { std::sync::atomic::AtomicBool::new(false) }; 8];

/// Called by the watchdog when nothing has progressed for the whole budget: a mutator that has
/// been inside one allocation request all that time without being blocked for a GC is a request
/// that does not return.
pub fn stuck_allocation() -> Option<String> {
    for i in 0..ALLOC_IN_FLIGHT.len() {
        if ALLOC_IN_FLIGHT[i].load(Ordering::SeqCst) != 0 && !IN_BLOCK_FOR_GC[i].load(Ordering::SeqCst) {
            let d = ALLOC_DESC[i].load(Ordering::Relaxed);
            let opts = if d & 8 != 0 { format!("allow_overcommit={} at_safepoint={} allow_oom_call={}", d & 1 != 0, d & 2 != 0, d & 4 != 0) } else { "default options".to_string() };
            return Some(format!("mutator {} is inside alloc(size={}, sem={}, {}) and not blocked for a GC", i, d >> 8, (d >> 4) & 15, opts));
        }
    }
    None
}

/// What the binding observed during one allocation request (C10).
#[derive(Clone, Copy, Default, Debug)]
pub struct AllocObs {
    pub null: bool,
    pub ooms: u64,
    pub blocks: u64,
    pub epoch_at_entry: u64,
    pub epoch_at_oom: u64,
    pub epoch_at_return: u64,
}

pub fn on_out_of_memory(_idx: usize, _kind: AllocationError) {
    OOM_FLAG.with(|f| f.set(f.get() + 1));
    OOM_EPOCH.with(|f| f.set(world::current_epoch()));
}
pub fn on_block_for_gc_return(idx: usize) {
    IN_BLOCK_FOR_GC[idx.min(7)].store(false, Ordering::SeqCst);
}
pub fn on_block_for_gc(idx: usize) {
    IN_BLOCK_FOR_GC[idx.min(7)].store(true, Ordering::SeqCst);
    BLOCKED_FLAG.with(|f| f.set(f.get() + 1));
    // a requester of the fork scenario has left the part of its MMTk call that may touch the
    // scheduler's lock
    IN_CALL.with(|f| {
        if f.get() {
            f.set(false);
            REQUESTERS_IN_CALL.fetch_sub(1, Ordering::SeqCst);
        }
    });
}

// Fork scenario gate.  MMTk's fork protocol expects that nothing else talks to the scheduler
// while the last worker exits (WorkerMonitor::on_all_workers_exited uses try_lock().unwrap(), and
// the documentation asks for a single-threaded process at fork() time).  Requests that are already
// pending (requester blocked in block_for_gc) when prepare_to_fork is called are legal and wanted.
static STORM: std::sync::atomic::AtomicU64 = std::sync::atomic::AtomicU64::new(0);
static STORM_ARRIVED: std::sync::atomic::AtomicUsize = std::sync::atomic::AtomicUsize::new(0);
static FORKING: std::sync::atomic::AtomicBool = std::sync::atomic::AtomicBool::new(false);
static REQUESTERS_IN_CALL: std::sync::atomic::AtomicUsize = std::sync::atomic::AtomicUsize::new(0);
thread_local! {
    static IN_CALL: std::cell::Cell<bool> = const { std::cell::Cell::new(false) };
}

/// Returns false when a fork cycle is in progress (the caller must not call into MMTk).
fn requester_enter() -> bool {
    if FORKING.load(Ordering::SeqCst) {
        return false;
    }
    REQUESTERS_IN_CALL.fetch_add(1, Ordering::SeqCst);
    if FORKING.load(Ordering::SeqCst) {
        REQUESTERS_IN_CALL.fetch_sub(1, Ordering::SeqCst);
        return false;
    }
    IN_CALL.with(|f| f.set(true));
    true
}

fn requester_leave() {
    IN_CALL.with(|f| {
        if f.get() {
            f.set(false);
            REQUESTERS_IN_CALL.fetch_sub(1, Ordering::SeqCst);
        }
    });
}
pub fn oom_count() -> u64 {
    OOM_FLAG.with(|f| f.get())
}
pub fn blocked_count() -> u64 {
    BLOCKED_FLAG.with(|f| f.get())
}

fn sem_of(s: u8) -> AllocationSemantics {
    match s {
        SEM_IMMORTAL => AllocationSemantics::Immortal,
        SEM_LOS => AllocationSemantics::Los,
        SEM_NONMOVING => AllocationSemantics::NonMoving,
        _ => AllocationSemantics::Default,
    }
}

/// Boundary-heavy size generator for the default semantics.
pub fn gen_size(rng: &mut Rng, max_default: usize) -> usize {
    let cap = max_default.min(64 << 10);
    let s = match rng.below(100) {
        0..=54 => 32 + 8 * rng.below(16) as usize,                  // 32..152
        55..=69 => 160 + 8 * rng.below(64) as usize,                // up to 664: covers many MS size classes
        70..=77 => {
            // around a line (256) and multiples
            let k = 1 + rng.below(8) as usize;
            (256 * k + 8 * (rng.below(5) as usize)).saturating_sub(16)
        }
        78..=84 => {
            // around mark-sweep size classes (words 8*2^k pattern)
            let b = [10usize, 12, 14, 16, 20, 24, 28, 32, 40, 48, 56, 64, 80, 96, 112, 128, 160, 192, 224, 256, 320, 384, 448, 512, 640, 768, 896, 1024];
            let w = *rng.pick(&b);
            (w * 8 + 8 * rng.below(3) as usize).saturating_sub(8)
        }
        85..=90 => 1024 + 8 * rng.below(384) as usize,              // 1K..4K
        91..=94 => {
            // near the non-LOS limit
            cap - 8 * rng.below(4) as usize
        }
        95..=97 => {
            // page multiples +-8
            let k = 1 + rng.below(4) as usize;
            (4096 * k + 8 * rng.below(3) as usize).saturating_sub(8)
        }
        _ => 4096 + 8 * rng.below(1024) as usize,
    };
    s.clamp(MIN_OBJ_BYTES, cap) & !7
}

pub fn gen_los_size(rng: &mut Rng, max_default: usize) -> usize {
    let base = max_default.min(64 << 10);
    let s = match rng.below(10) {
        0..=3 => base + 8 + 8 * rng.below(64) as usize,
        4..=6 => {
            let k = 1 + rng.below(16) as usize;
            (base & !4095) + 4096 * k + 8 * rng.below(3) as usize - 8
        }
        _ => base + 4096 * (1 + rng.below(40) as usize) + 8 * rng.below(512) as usize,
    };
    s & !7
}

impl Mut {
    pub fn new(idx: usize, seed: u64) -> Mut {
        let w = world();
        let max_default = w.mmtk.get_plan().constraints().max_non_los_default_alloc_bytes;
        let pin = w.cfg.pin_roots && w.cfg.supports_pinning_roots();
        Mut {
            idx,
            rng: Rng::new(seed),
            bar: active_barrier(),
            mutator: world::mutator_ptr(idx),
            roots: world::roots_ptr(idx),
            max_default,
            usable_roots: if pin { NROOTS } else { NROOTS },
            oom_seen: 0,
            alloc_opts: None,
            last_alloc: AllocObs::default(),
        }
    }

    fn m(&self) -> &'static mut Mutator<VerifVM> {
        unsafe { &mut *self.mutator }
    }

    #[inline]
    fn root(&self, i: usize) -> usize {
        unsafe { (*self.roots)[i] }
    }
    #[inline]
    fn set_root(&self, i: usize, v: usize) {
        unsafe { std::ptr::write_volatile(&mut (*self.roots)[i], v) }
    }

    /// Allocate an object, initialise it, register it in the shadow and store it in root `r`.
    /// Returns the id, or 0 if the allocation failed (out of memory).
    #[allow(clippy::too_many_arguments)]
    pub fn alloc_into_root(&mut self, r: usize, size: usize, nrefs: usize, sem: u8, kind: u8, flags: u8, align_log: u8, offset: u8) -> u64 {
        self.alloc_into_root_with_referent(r, size, nrefs, sem, kind, flags, align_log, offset, None)
    }

    /// One allocation request (with `self.alloc_opts`), observed and judged against C10.
    pub fn raw_alloc(&mut self, size: usize, align: usize, offset: usize, sem: u8) -> Address {
        let w = world();
        let (o0, b0, e0) = (oom_count(), blocked_count(), world::current_epoch());
        let opts = self.alloc_opts;
        let slot = self.idx.min(ALLOC_IN_FLIGHT.len() - 1);
        ALLOC_DESC[slot].store(((size as u64).min((1 << 56) - 1) << 8) | (sem as u64) << 4 | opts.map(|o| 8 | (o.allow_overcommit as u64) | (o.at_safepoint as u64) << 1 | (o.allow_oom_call as u64) << 2).unwrap_or(0), Ordering::Relaxed);
        ALLOC_IN_FLIGHT[slot].store(1 + blocked_count(), Ordering::SeqCst);
        if size >= (1 << 20) && std::env::var_os("VERIF_DEBUG_ALLOC").is_some() {
            eprintln!("ALLOC size={} align={} sem={} opts={:?} used={}", size, align, sem, opts, memory_manager::used_bytes(w.mmtk));
        }
        let addr = match opts {
            None => memory_manager::alloc(self.m(), size, align, offset, sem_of(sem)),
            Some(o) => memory_manager::alloc_with_options(self.m(), size, align, offset, sem_of(sem), o),
        };
        ALLOC_IN_FLIGHT[slot].store(0, Ordering::SeqCst);
        w.counters.allocs.fetch_add(1, Ordering::Relaxed);
        w.counters.alloc_bytes.fetch_add(size as u64, Ordering::Relaxed);
        let obs = AllocObs { null: addr.is_zero(), ooms: oom_count() - o0, blocks: blocked_count() - b0, epoch_at_entry: e0, epoch_at_oom: OOM_EPOCH.with(|f| f.get()), epoch_at_return: world::current_epoch() };
        self.last_alloc = obs;
        self.judge_alloc(size, align, sem, opts.unwrap_or_default(), opts.is_some(), &obs);
        addr
    }

    fn judge_alloc(&self, size: usize, align: usize, sem: u8, o: mmtk::util::alloc::AllocationOptions, with_options: bool, obs: &AllocObs) {
        let w = world();
        // the maximum heap size (the upper bound of a dynamic heap)
        let heap = w.cfg.dyn_heap.map(|(_, hi)| hi).unwrap_or(w.cfg.heap_mb) << 20;
        let ctx = || format!("alloc{}(size={}, sem={}, {:?}) on plan {} (heap {} MiB): {:?}", if with_options { "_with_options" } else { "" }, size, sem, o, w.cfg.plan, w.cfg.heap_mb, obs);
        let oc = if o.allow_overcommit { "overcommit" } else { "no-overcommit" };
        let sp = if o.at_safepoint { "safepoint" } else { "not-at-safepoint" };
        if obs.ooms > 0 && !o.allow_oom_call {
            violation("C10", format!("oom-callback-although-allow_oom_call-is-false:{}:{}", sp, oc), ctx());
        }
        if obs.ooms > 1 {
            violation("C10", "oom-callback-more-than-once-per-request", ctx());
        }
        if obs.ooms > 0 && !obs.null {
            violation("C10", "non-null-result-after-oom-callback", ctx());
        }
        // larger than the whole heap: fails immediately; otherwise a collection must have been
        // completed for this request before out_of_memory is signalled
        // "larger than the maximum heap" is decided in pages; for page-multiple requests with the
        // minimum alignment (no padding) the boundary is exact, otherwise a 1 MiB margin is left out
        let exact = size % 4096 == 0 && align <= 8;
        let larger_than_heap = if exact { size / 4096 > heap / 4096 } else { size > heap + (1 << 20) };
        let clearly_fits = if exact { size / 4096 <= heap / 4096 } else { size + (1 << 20) < heap };
        if obs.ooms > 0 && !larger_than_heap && clearly_fits && obs.epoch_at_oom == obs.epoch_at_entry {
            violation("C10", "oom-callback-without-a-collection-attempt", ctx());
        }
        if larger_than_heap && !obs.null {
            violation("C10", "request-larger-than-the-heap-succeeded", ctx());
        }
        if larger_than_heap && obs.epoch_at_return != obs.epoch_at_entry && w.cfg.mutators == 1 && w.cfg.stress == 0 {
            violation("C10", "request-larger-than-the-heap-triggered-a-collection", ctx());
        }
        if obs.blocks > 0 && !o.at_safepoint {
            violation("C10", format!("block_for_gc-although-at_safepoint-is-false:{}", oc), ctx());
        }
        // (An over-committing request at a safepoint may still block: when the space has no
        // address range left, MMTk forces a GC and retries.  "May exceed the heap size without
        // blocking" is observed as coverage -- overcommit_success_beyond_heap_size -- not demanded.)
        if obs.blocks > 0 && o.allow_overcommit && o.at_safepoint && !obs.null {
            with_report("C10", |r| r.count("overcommit_requests_that_blocked_and_then_succeeded", 1));
        }
        if obs.null && o.at_safepoint && o.allow_oom_call && obs.ooms == 0 {
            violation("C10", format!("null-result-without-oom-callback:{}", oc), ctx());
        }
        if obs.null || with_options {
            with_report("C10", |r| {
                r.evaluations += 1;
                let cls = (o.allow_overcommit as u64) | (o.at_safepoint as u64) << 1 | (o.allow_oom_call as u64) << 2;
                r.count(if with_options { "requests_with_options" } else { "default_requests_failed" }, 1);
                if obs.null {
                    r.count("null_results", 1);
                }
                if obs.ooms > 0 {
                    r.count(if larger_than_heap { "oom_immediate_larger_than_heap" } else { "oom_after_collection" }, 1);
                }
                if obs.null && obs.ooms == 0 {
                    r.count(if !o.at_safepoint { "null_not_at_safepoint" } else { "null_oom_call_suppressed" }, 1);
                }
                if !obs.null && o.allow_overcommit && memory_manager::used_bytes(w.mmtk) > heap {
                    r.count("overcommit_success_beyond_heap_size", 1);
                }
                if obs.blocks > 0 {
                    r.count("requests_that_blocked_for_gc", 1);
                }
                r.key(mix(0xC10, mix(cls + 8 * with_options as u64, mix(sem as u64, mix(obs.null as u64 + 2 * (obs.ooms > 0) as u64 + 4 * (obs.blocks > 0) as u64, (larger_than_heap as u64) + 2 * (size > (64 << 10)) as u64)))));
                if r.want_sample() && (obs.null || obs.blocks > 0) {
                    r.sample(J::obj(vec![("request", J::s(ctx()))]));
                }
            });
        }
    }

    /// Like `alloc_into_root`; a reference object gets its referent (the object in root
    /// `referent_root`) as an initialising store *before* it is registered with MMTk, the way a
    /// `java.lang.ref.Reference` is constructed: the referent is never set again afterwards.
    #[allow(clippy::too_many_arguments)]
    pub fn alloc_into_root_with_referent(&mut self, r: usize, size: usize, nrefs: usize, sem: u8, kind: u8, flags: u8, align_log: u8, offset: u8, referent_root: Option<usize>) -> u64 {
        let w = world();
        debug_assert!(size >= HEADER_BYTES + 8 * nrefs && size % 8 == 0);
        let align = 1usize << align_log;
        let addr = self.raw_alloc(size, align, offset as usize, sem);
        if addr.is_zero() {
            self.oom_seen += 1;
            return 0;
        }
        let start = addr.as_usize();
        check_alloc_result(start, size, align, offset as usize, sem, false);
        let id = w.next_id.fetch_add(1, Ordering::Relaxed);
        let h = Hdr { size: size as u32, nrefs: nrefs as u16, kind, id, sem, align_log, offset, flags, check: 0 };
        unsafe { init_object(start, &h) };
        let r_addr = ref_of(start);
        // initialising store of the referent (no safepoint between `alloc` returning and here, so
        // the address in our root is current)
        let mut referent_id = 0;
        if let Some(rr) = referent_root {
            if kind != KIND_NORMAL && nrefs >= 1 && rr != r {
                let v = self.root(rr);
                if v != 0 {
                    unsafe { wr(slot_addr(start, 0), v as u64) };
                    referent_id = w.shadow.lock().unwrap().roots[self.idx][rr];
                }
            }
        }
        memory_manager::post_alloc(self.m(), objref(r_addr), size, sem_of(sem));
        if kind != KIND_NORMAL && world::trace_refs() {
            eprintln!("REFTRACE alloc id={} kind={} at {:#x} referent_id={} slot0={:#x}", id, kind, start, referent_id, unsafe { rd(slot_addr(start, 0)) });
        }
        match kind {
            KIND_WEAK => memory_manager::add_weak_candidate(w.mmtk, objref(r_addr)),
            KIND_SOFT => memory_manager::add_soft_candidate(w.mmtk, objref(r_addr)),
            KIND_PHANTOM => memory_manager::add_phantom_candidate(w.mmtk, objref(r_addr)),
            _ => {}
        }
        let mut sh = w.shadow.lock().unwrap();
        if let Some((s, e, other)) = sh.overlap(start, size) {
            let oalive = sh.objs.contains_key(&other);
            violation("C02", "alloc:overlaps-live-or-recent-object", format!("alloc(size={}, sem={}) returned [{:#x},{:#x}) which overlaps object id {} at [{:#x},{:#x}) (known={}, plan {})", size, sem, start, start + size, other, s, e, oalive, w.cfg.plan));
        }
        let reused = sh.dead_starts.remove(&start);
        let mut o = SObj { id, addr: r_addr, size: size as u32, nrefs: nrefs as u16, kind, sem, align_log, offset, flags, fields: vec![0; nrefs], pinned: false, born_epoch: sh.epoch, survived: 0, enqueued: false, moved_count: 0 };
        if referent_id != 0 {
            o.fields[0] = referent_id;
        }
        sh.insert_interval(&o);
        sh.objs.insert(id, o);
        satb_note_alloc(&mut sh, id);
        // store into the root (dropping what was there)
        sh.roots[self.idx][r] = id;
        self.set_root(r, r_addr);
        drop(sh);
        with_report("C02", |rep| {
            rep.evaluations += 1;
            rep.count("allocations_checked", 1);
            if reused {
                rep.count("allocations_at_address_of_a_dead_object", 1);
            }
            rep.key(mix(mix(0xC02, (size as u64).next_power_of_two()), mix(sem as u64, reused as u64)));
            if reused && rep.want_sample() {
                rep.sample(J::obj(vec![("plan", J::s(w.cfg.plan.clone())), ("size", J::i(size as u64)), ("sem", J::i(sem as u64)), ("addr", J::s(format!("{:#x}", start))), ("reuses_dead_object_address", J::Bool(true))]));
            }
        });
        id
    }

    /// A general-purpose root (sometimes one of the roots that may be reported as pinning roots).
    fn pick_root(&mut self) -> usize {
        if self.rng.chance(1, 10) {
            NROOTS - NPINROOTS + self.rng.usize_below(NPINROOTS)
        } else {
            self.rng.usize_below(GEN_ROOTS)
        }
    }

    fn pick_nonnull_root(&mut self) -> Option<usize> {
        for _ in 0..6 {
            let r = self.pick_root();
            if self.root(r) != 0 {
                return Some(r);
            }
        }
        (0..GEN_ROOTS).find(|r| self.root(*r) != 0)
    }

    /// roots[a].field[i] = roots[b] (or null), through the barriers.
    fn write_field(&mut self, a: usize, i: usize, b: Option<usize>) {
        let w = world();
        let mut sh = w.shadow.lock().unwrap();
        let src_id = sh.roots[self.idx][a];
        if src_id == 0 {
            return;
        }
        let (src_addr, nrefs) = {
            let o = &sh.objs[&src_id];
            (o.addr, o.nrefs as usize)
        };
        if nrefs == 0 {
            return;
        }
        let mut i = i % nrefs;
        if sh.objs[&src_id].kind != KIND_NORMAL && i == 0 && b.is_some() {
            // the referent of a reference object is only set at construction
            if nrefs == 1 {
                return;
            }
            i = 1;
        }
        let (tgt_id, tgt_addr) = match b {
            Some(b) => {
                let t = sh.roots[self.idx][b];
                if t == 0 {
                    (0, 0)
                } else {
                    (t, sh.objs[&t].addr)
                }
            }
            None => (0, 0),
        };
        // the real root slots must agree with the shadow (checked here for free)
        if self.root(a) != src_addr {
            violation("C01", "mutator:root-disagrees-with-shadow", format!("root {} of mutator {} holds {:#x}, shadow says id {} at {:#x}", a, self.idx, self.root(a), src_id, src_addr));
            return;
        }
        let slot = SimpleSlot::from_address(unsafe { Address::from_usize(slot_addr(start_of(src_addr), i)) });
        let tgt = if tgt_addr == 0 { None } else { Some(objref(tgt_addr)) };
        // A binding calls the barrier(s) the plan's BarrierSelector asks for: the SATB barrier is a
        // pre-write barrier (its post-write half is unimplemented), the object-remembering
        // barrier a post-write barrier.
        if self.bar != Bar::Object {
            memory_manager::object_reference_write_pre(self.m(), objref(src_addr), slot, tgt);
        }
        unsafe { wr(slot_addr(start_of(src_addr), i), tgt_addr as u64) };
        if self.bar != Bar::Satb {
            memory_manager::object_reference_write_post(self.m(), objref(src_addr), slot, tgt);
        }
        let o = sh.objs.get_mut(&src_id).unwrap();
        o.fields[i] = tgt_id;
        let old_src = o.survived >= 1;
        let young_tgt = tgt_id != 0 && sh.objs[&tgt_id].survived == 0;
        drop(sh);
        if old_src && young_tgt {
            with_report("C05", |r| r.count("old_to_young_stores", 1));
        }
    }

    /// roots[r] = roots[a].field[i]; verifies the loaded value against the shadow.
    fn load_field(&mut self, r: usize, a: usize, i: usize) {
        let w = world();
        let mut sh = w.shadow.lock().unwrap();
        let src_id = sh.roots[self.idx][a];
        if src_id == 0 {
            return;
        }
        let (src_addr, nrefs, kind) = {
            let o = &sh.objs[&src_id];
            (o.addr, o.nrefs as usize, o.kind)
        };
        if nrefs == 0 {
            return;
        }
        let mut i = i % nrefs;
        if kind == KIND_PHANTOM && i == 0 {
            // a phantom reference never hands out its referent
            if nrefs == 1 {
                return;
            }
            i = 1;
        }
        let v = unsafe { rd(slot_addr(start_of(src_addr), i)) } as usize;
        let fid = sh.objs[&src_id].fields[i];
        let want = if fid == 0 { 0 } else { sh.objs.get(&fid).map(|o| o.addr).unwrap_or(usize::MAX) };
        if v != want {
            violation("C01", "mutator:loaded-field-disagrees-with-shadow", format!("mutator {} loaded {:#x} from object id {} slot {}, expected {:#x} (id {})", self.idx, v, src_id, i, want, fid));
            return;
        }
        if kind != KIND_NORMAL && i == 0 && v != 0 {
            // a weak-reference get: for concurrent plans the referent must be kept alive (load barrier)
            self.m().barrier.load_weak_reference(objref(v));
            with_report("C06", |r| r.count("weak_gets_nonnull", 1));
        }
        sh.roots[self.idx][r] = fid;
        self.set_root(r, v);
    }

    fn drop_root(&mut self, r: usize) {
        let w = world();
        let mut sh = w.shadow.lock().unwrap();
        sh.roots[self.idx][r] = 0;
        self.set_root(r, 0);
    }

    fn copy_root(&mut self, dst: usize, src: usize) {
        let w = world();
        let mut sh = w.shadow.lock().unwrap();
        let id = sh.roots[self.idx][src];
        sh.roots[self.idx][dst] = id;
        self.set_root(dst, self.root(src));
    }

    fn share_out(&mut self, g: usize, r: usize) {
        let w = world();
        let mut sh = w.shadow.lock().unwrap();
        let id = sh.roots[self.idx][r];
        sh.globals[g] = id;
        unsafe { std::ptr::write_volatile(&mut (*w.globals)[g], self.root(r)) };
    }

    fn share_in(&mut self, r: usize, g: usize) {
        let w = world();
        let mut sh = w.shadow.lock().unwrap();
        let id = sh.globals[g];
        sh.roots[self.idx][r] = id;
        let v = unsafe { (*w.globals)[g] };
        self.set_root(r, v);
    }

    /// Verify the object in root r right now (mutator-side check between pauses).
    fn verify_root(&mut self, r: usize) {
        let w = world();
        let sh = w.shadow.lock().unwrap();
        let id = sh.roots[self.idx][r];
        if id == 0 {
            return;
        }
        let o = &sh.objs[&id];
        let start = start_of(o.addr);
        let h = unsafe { read_hdr(start) };
        if h.id != id || h.size != o.size {
            violation("C01", "mutator:object-header-changed-between-pauses", format!("object id {} at {:#x} has header {:?}", id, o.addr, h));
            return;
        }
        if let Some((i, want, got)) = unsafe { verify_payload(start, id, o.nrefs as usize, o.size as usize) } {
            violation("C01", "mutator:object-payload-changed-between-pauses", format!("object id {} at {:#x}: payload word {} is {:#x}, expected {:#x}", id, o.addr, i, got, want));
        }
    }

    /// C08 from the mutator side: the object in root `r` was possibly allocated a moment ago.
    #[cfg(feature = "f_vo")]
    fn op_probe_lookups(&mut self, r: usize) {
        let w = world();
        let sh = w.shadow.lock().unwrap();
        let id = sh.roots[self.idx][r];
        if id == 0 {
            return;
        }
        let o = sh.objs[&id].clone();
        drop(sh);
        let mut t = crate::c08::Tally::default();
        crate::c08::probe_object(&o, &mut self.rng, &mut t);
        crate::c08::record(&t, false, "mutator");
    }
    #[cfg(not(feature = "f_vo"))]
    fn op_probe_lookups(&mut self, _r: usize) {}

    fn random_shape(&mut self) -> (usize, usize, u8, u8, u8, u8, u8) {
        // (size, nrefs, sem, kind, flags, align_log, offset)
        let w = world();
        let cfg = &w.cfg;
        let maxa = <VerifVM as mmtk::vm::VMBinding>::MAX_ALIGNMENT.trailing_zeros() as u8;
        let align_log = if self.rng.chance(1, 4) { 3 + self.rng.below((maxa - 3 + 1) as u64) as u8 } else { 3 };
        let offset = if align_log > 3 && self.rng.chance(1, 2) { (8 * self.rng.below(1 << (align_log - 3))) as u8 } else { 0 };
        let mut sem = match self.rng.below(100) {
            0..=84 => SEM_DEFAULT,
            85..=89 => SEM_LOS,
            90..=94 => SEM_NONMOVING,
            _ => SEM_IMMORTAL,
        };
        // KNOWN FINDINGS: allocation semantics that a (variant, plan) combination does not
        // support on this tree.  Only the dedicated "finding-*" scenarios exercise them (see
        // DESIGN.md section 5 and known_findings.json).
        if !cfg.scenario.starts_with("finding-") {
            let immix_nonmoving = cfg!(any(feature = "var_a", feature = "var_b"));
            if sem == SEM_NONMOVING && immix_nonmoving && (cfg.plan == "MarkCompact" || cfg.plan == "ConcurrentImmix" || cfg.is_generational()) {
                // MarkCompact's two transitive closures, ConcurrentImmix's SATB log bits and the
                // nursery collections of the generational plans (sweep without trace, no unlog
                // bit on allocation, is_live false for untraced objects) do not cover the Immix
                // non-moving space.
                sem = SEM_DEFAULT;
            }
            if (sem == SEM_NONMOVING || sem == SEM_IMMORTAL) && cfg.plan == "Compressor" {
                // The Compressor only forwards references held in roots, the compressor space and
                // the LOS.
                sem = SEM_DEFAULT;
            }
        }
        if (sem == SEM_NONMOVING && cfg.off("nonmoving")) || (sem == SEM_LOS && cfg.off("los")) || (sem == SEM_IMMORTAL && cfg.off("immortal")) {
            sem = SEM_DEFAULT;
        }
        let mut size = if sem == SEM_LOS { gen_los_size(&mut self.rng, self.max_default) } else { gen_size(&mut self.rng, self.max_default) };
        if sem == SEM_IMMORTAL {
            size = size.min(512); // immortal objects are never reclaimed: keep them small
        }
        if sem == SEM_DEFAULT && cfg.plan == "MarkSweep" {
            // KNOWN FINDING (C35): a request whose aligned size exceeds the largest size class
            // indexes past the bin table; keep gcsim programs away from that input class (it is
            // decided by the C35 unit monitor).
            let pad = (1usize << align_log) - 8;
            size = size.min(self.max_default - pad);
        }
        if sem == SEM_NONMOVING {
            size = size.min(2048);
        }
        let maxrefs = (size - HEADER_BYTES) / 8;
        let nrefs = match self.rng.below(10) {
            0 => 0,
            1..=6 => 1 + self.rng.usize_below(4),
            7..=8 => 2 + self.rng.usize_below(14),
            _ => self.rng.usize_below(maxrefs.min(200) + 1),
        }
        .min(maxrefs);
        let kind = if cfg.weak && nrefs >= 1 && sem == SEM_DEFAULT && self.rng.chance(1, 8) {
            match self.rng.below(4) {
                0 => KIND_SOFT,
                1 => KIND_PHANTOM,
                _ => KIND_WEAK,
            }
        } else {
            KIND_NORMAL
        };
        // (the SATB barrier iterates the fields of an object with scan_object and is documented
        // to work only for objects that support slot enqueuing)
        let flags = if !cfg.is_concurrent() && self.rng.chance(1, 10) { FLAG_TRACE_SCAN } else { 0 };
        (size, nrefs, sem, kind, flags, align_log, offset)
    }

    fn op_alloc(&mut self) {
        let r = self.pick_root();
        let (size, nrefs, sem, kind, flags, al, off) = self.random_shape();
        // A referent in a never-collected space stays "alive" for MMTk although nothing it
        // references is kept alive once it is unreachable, so a weak get could hand out an object
        // with dangling fields: a VM must not do that, and neither does the generator.
        let referent = if kind != KIND_NORMAL {
            self.pick_nonnull_root().filter(|t| *t != r).filter(|t| {
                let sh = world().shadow.lock().unwrap();
                let id = sh.roots[self.idx][*t];
                id != 0 && !never_collected(sh.objs[&id].sem)
            })
        } else {
            None
        };
        self.alloc_into_root_with_referent(r, size, nrefs, sem, kind, flags, al, off, referent);
    }

    /// A burst of small allocations while concurrent marking runs: a list of 24 objects; half of
    /// the time it is dropped again (unreachable at the final mark, must stay intact), otherwise
    /// it stays in a root (reachable although never traced: allocated "black").
    fn op_alloc_burst(&mut self) {
        let r = self.pick_root();
        let t = SCRATCH;
        let keep = self.rng.chance(1, 2);
        let target = if keep { r } else { SCRATCH + 1 };
        let size = 32 + 8 + 8 * self.rng.usize_below(12);
        if self.alloc_into_root(target, size, 1, SEM_DEFAULT, KIND_NORMAL, 0, 3, 0) == 0 {
            return;
        }
        for _ in 1..24 {
            world::safepoint_poll();
            let size = 40 + 8 * self.rng.usize_below(14);
            if self.alloc_into_root(t, size, 1, SEM_DEFAULT, KIND_NORMAL, 0, 3, 0) == 0 {
                break;
            }
            self.write_field(t, 0, Some(target));
            self.copy_root(target, t);
        }
        self.drop_root(t);
        if !keep {
            self.drop_root(SCRATCH + 1);
        }
    }

    /// Build a singly linked list of `n` small objects hanging off root r.
    fn op_build_list(&mut self, n: usize) {
        let r = self.pick_root();
        let t = SCRATCH;
        let size = 32 + 8 + 8 * self.rng.usize_below(6);
        if self.alloc_into_root(r, size, 1, SEM_DEFAULT, KIND_NORMAL, 0, 3, 0) == 0 {
            return;
        }
        for _ in 1..n {
            world::safepoint_poll();
            let size = 40 + 8 * self.rng.usize_below(8);
            if self.alloc_into_root(t, size, 1, SEM_DEFAULT, KIND_NORMAL, 0, 3, 0) == 0 {
                break;
            }
            // t.next = r ; r = t
            self.write_field(t, 0, Some(r));
            self.copy_root(r, t);
        }
        self.drop_root(t);
    }

    /// Build a small tree (fanout f, depth d) under root r.
    fn op_build_tree(&mut self, depth: usize, fanout: usize) {
        let r = self.pick_root();
        self.build_tree_rec(r, depth, fanout);
    }
    fn build_tree_rec(&mut self, r: usize, depth: usize, fanout: usize) {
        let size = HEADER_BYTES + 8 * fanout + 8 * self.rng.usize_below(4);
        let fl = if !world().cfg.is_concurrent() && self.rng.chance(1, 8) { FLAG_TRACE_SCAN } else { 0 };
        if self.alloc_into_root(r, size, fanout, SEM_DEFAULT, KIND_NORMAL, fl, 3, 0) == 0 {
            return;
        }
        if depth == 0 {
            return;
        }
        // children are built in the scratch root of this depth (never a general root, so nothing
        // that is still referenced is ever hidden from the collector)
        let t = SCRATCH + depth;
        for i in 0..fanout {
            world::safepoint_poll();
            self.build_tree_rec(t, depth - 1, fanout);
            self.write_field(r, i, Some(t));
        }
        self.drop_root(t);
    }

    /// The generational shape of C05: an old object is made to hold the only reference to a
    /// young object, then a collection is provoked.
    fn op_remset_shape(&mut self) {
        let w = world();
        // find a root whose object has survived at least one pause and has a reference slot
        let mut old = None;
        {
            let sh = w.shadow.lock().unwrap();
            for r in 0..GEN_ROOTS {
                let id = sh.roots[self.idx][r];
                if id != 0 {
                    let o = &sh.objs[&id];
                    if o.survived >= 1 && o.nrefs as usize > (if o.kind != KIND_NORMAL { 1 } else { 0 }) {
                        old = Some(r);
                        break;
                    }
                }
            }
        }
        let Some(a) = old else { return };
        let t = SCRATCH;
        let u = SCRATCH + 1;
        let n = 1 + self.rng.usize_below(3);
        // young chain
        let size = 48 + 8 * self.rng.usize_below(8);
        if self.alloc_into_root(t, size, 2, SEM_DEFAULT, KIND_NORMAL, 0, 3, 0) == 0 {
            return;
        }
        for _ in 0..n {
            if self.alloc_into_root(u, 40, 1, SEM_DEFAULT, KIND_NORMAL, 0, 3, 0) != 0 {
                self.write_field(u, 0, Some(t));
                self.copy_root(t, u);
            }
            self.drop_root(u);
        }
        let slot = {
            let sh = w.shadow.lock().unwrap();
            let id = sh.roots[self.idx][a];
            if id == 0 {
                None
            } else {
                let o = &sh.objs[&id];
                let first = if o.kind != KIND_NORMAL { 1 } else { 0 };
                if o.nrefs as usize > first {
                    Some(first + self.rng.usize_below(o.nrefs as usize - first))
                } else {
                    None
                }
            }
        };
        if let Some(slot) = slot {
            self.write_field(a, slot, Some(t));
            with_report("C05", |r| r.count("remset_shapes_planted", 1));
        }
        self.drop_root(t);
    }

    fn op_array_copy(&mut self) {
        // copy a range of slots from one object to another through memory_region_copy
        let w = world();
        let (Some(a), Some(b)) = (self.pick_nonnull_root(), self.pick_nonnull_root()) else { return };
        if a == b {
            return;
        }
        let mut sh = w.shadow.lock().unwrap();
        let (ia, ib) = (sh.roots[self.idx][a], sh.roots[self.idx][b]);
        if ia == ib {
            return;
        }
        let (sa, na, ka) = {
            let o = &sh.objs[&ia];
            (o.addr, o.nrefs as usize, o.kind)
        };
        let (sb, nb, kb) = {
            let o = &sh.objs[&ib];
            (o.addr, o.nrefs as usize, o.kind)
        };
        let fa = if ka != KIND_NORMAL { 1 } else { 0 };
        let fb = if kb != KIND_NORMAL { 1 } else { 0 };
        if na <= fa || nb <= fb {
            return;
        }
        let len = 1 + self.rng.usize_below((na - fa).min(nb - fb));
        let oa = fa + self.rng.usize_below(na - fa - len + 1);
        let ob = fb + self.rng.usize_below(nb - fb - len + 1);
        let tell = self.rng.chance(1, 2);
        let src = unsafe { crate::vm::VSlice { start: Address::from_usize(slot_addr(start_of(sa), oa)), end: Address::from_usize(slot_addr(start_of(sa), oa + len)), obj: if tell { Some(objref(sa)) } else { None } } };
        let dst = unsafe { crate::vm::VSlice { start: Address::from_usize(slot_addr(start_of(sb), ob)), end: Address::from_usize(slot_addr(start_of(sb), ob + len)), obj: if tell { Some(objref(sb)) } else { None } } };
        if self.bar != Bar::Object {
            memory_manager::memory_region_copy_pre(self.m(), src.clone(), dst.clone());
        }
        for k in 0..len {
            let v = unsafe { rd(slot_addr(start_of(sa), oa + k)) };
            unsafe { wr(slot_addr(start_of(sb), ob + k), v) };
        }
        if self.bar != Bar::Satb {
            memory_manager::memory_region_copy_post(self.m(), src, dst);
        }
        let vals: Vec<u64> = sh.objs[&ia].fields[oa..oa + len].to_vec();
        let o = sh.objs.get_mut(&ib).unwrap();
        o.fields[ob..ob + len].copy_from_slice(&vals);
        drop(sh);
        with_report("C05", |r| r.count("array_copies", 1));
    }

    fn op_user_gc(&mut self, exhaustive: bool) {
        let w = world();
        if !w.cfg.collects() {
            return;
        }
        {
            let mut sh = w.shadow.lock().unwrap();
            if exhaustive {
                sh.next_gc_exact = true;
            }
        }
        let e0 = world::current_epoch();
        emit(world::EV_USER_GC_CALL, self.idx as u64, exhaustive as u64, 0);
        w.mmtk.handle_user_collection_request(world::tls_of(self.idx), true, exhaustive);
        emit(world::EV_USER_GC_RETURN, self.idx as u64, 0, 0);
        let e1 = world::current_epoch();
        if e1 == e0 {
            violation("C11", "user-gc:returned-before-gc-ended", format!("handle_user_collection_request(force=true) returned to mutator {} without a collection having completed", self.idx));
        }
        with_report("C11", |r| r.count("user_gc_requests", 1));
    }

    /// Several mutators request a collection at (nearly) the same instant: the initiator raises a
    /// flag, every mutator that sees it at its next operation boundary joins, all spin until the
    /// others have arrived (bounded) and then call handle_user_collection_request together.
    fn join_gc_storm(&mut self) {
        let w = world();
        let n = w.cfg.mutators;
        STORM_ARRIVED.fetch_add(1, Ordering::SeqCst);
        let mut spins = 0u32;
        while STORM_ARRIVED.load(Ordering::SeqCst) < n && spins < 20_000 && STORM.load(Ordering::SeqCst) != 0 {
            std::hint::spin_loop();
            spins += 1;
        }
        STORM.store(0, Ordering::SeqCst);
        self.op_user_gc(false);
        with_report("C14", |r| r.count("gc_storm_requests", 1));
    }

    fn maybe_gc_storm(&mut self) {
        let w = world();
        if !w.cfg.log_events || w.cfg.mutators < 2 || !w.cfg.collects() {
            return;
        }
        let s = STORM.load(Ordering::SeqCst);
        if s != 0 && s != self.idx as u64 + 1 {
            self.join_gc_storm();
        }
    }

    fn op_start_gc_storm(&mut self) {
        STORM_ARRIVED.store(0, Ordering::SeqCst);
        STORM.store(self.idx as u64 + 1, Ordering::SeqCst);
        self.join_gc_storm();
    }

    #[cfg(feature = "f_pin")]
    fn op_pin(&mut self, unpin: bool) {
        let w = world();
        if !matches!(w.cfg.plan.as_str(), "Immix" | "StickyImmix" | "ConcurrentImmix") {
            return;
        }
        let Some(r) = self.pick_nonnull_root() else { return };
        let mut sh = w.shadow.lock().unwrap();
        let id = sh.roots[self.idx][r];
        let o = sh.objs.get_mut(&id).unwrap();
        if o.sem != SEM_DEFAULT {
            return;
        }
        let obj = objref(o.addr);
        if unpin {
            let res = memory_manager::unpin_object(obj);
            if res != o.pinned {
                violation("C18", "pin:unpin-result", format!("unpin_object(id {}) returned {} but the object was {}pinned", id, res, if o.pinned { "" } else { "not " }));
            }
            o.pinned = false;
        } else {
            let res = memory_manager::pin_object(obj);
            if res == o.pinned {
                violation("C18", "pin:pin-result", format!("pin_object(id {}) returned {} but the object was {}pinned", id, res, if o.pinned { "already " } else { "not " }));
            }
            o.pinned = true;
        }
        if memory_manager::is_pinned(obj) != o.pinned {
            violation("C04", "pin:is_pinned-disagrees", format!("is_pinned(id {}) != {}", id, o.pinned));
        }
        drop(sh);
        with_report("C04", |r| {
            r.evaluations += 1;
            r.count(if unpin { "unpins" } else { "pins" }, 1);
        });
    }
    #[cfg(not(feature = "f_pin"))]
    fn op_pin(&mut self, _unpin: bool) {}

    fn op_reg_finalizer(&mut self) {
        let w = world();
        let Some(r) = self.pick_nonnull_root() else { return };
        let mut sh = w.shadow.lock().unwrap();
        let id = sh.roots[self.idx][r];
        let o = &sh.objs[&id];
        if never_collected(o.sem) {
            return;
        }
        // one outstanding registration per object (a second one would be returned while the VM
        // already holds the object strongly from the first)
        if sh.fin_registered.contains_key(&id) || sh.vm_strong.iter().any(|x| x.1 == id) {
            return;
        }
        let a = o.addr;
        memory_manager::add_finalizer(w.mmtk, objref(a));
        *sh.fin_registered.entry(id).or_insert(0) += 1;
        drop(sh);
        with_report("C06", |r| r.count("finalizers_registered", 1));
    }

    /// `get_finalizers_for(o)`: the VM withdraws the registration(s) of an object it still holds.
    /// Exactly the outstanding registrations of that object must come back, and the remaining
    /// candidates must be treated as before (in particular the ones registered since the last GC
    /// are still scanned by the next nursery GC).
    fn op_get_finalizers_for(&mut self) {
        let w = world();
        let mut sh = w.shadow.lock().unwrap();
        // an object with an outstanding registration that is strongly reachable from the mutators'
        // roots right now (so the VM may legitimately hold a reference to it), preferably an old one
        if sh.fin_registered.is_empty() {
            return;
        }
        let mut reach = std::collections::HashSet::new();
        let seeds = sh.root_ids();
        sh.closure(seeds, false, false, &mut reach);
        let mut cand: Vec<(u32, u64)> = sh.fin_registered.keys().filter(|id| reach.contains(*id)).map(|id| (sh.objs[id].survived, *id)).collect();
        cand.sort();
        if cand.is_empty() {
            return;
        }
        // the oldest two thirds of the time, any otherwise
        let id = if self.rng.chance(2, 3) { cand[cand.len() - 1].1 } else { cand[self.rng.usize_below(cand.len())].1 };
        let n = sh.fin_registered[&id];
        let a = sh.objs[&id].addr;
        let got = memory_manager::get_finalizers_for(w.mmtk, objref(a));
        if got.len() != n as usize || got.iter().any(|o| o.to_raw_address().as_usize() != a) {
            violation("C06", "get_finalizers_for:wrong-registrations-returned", format!("get_finalizers_for({:#x}) (object id {}, {} outstanding registration(s)) returned {:?}", a, id, n, got.iter().map(|o| o.to_raw_address().as_usize()).collect::<Vec<_>>()));
        }
        sh.fin_registered.remove(&id);
        sh.fin_may_be_ready.remove(&id);
        drop(sh);
        with_report("C06", |r| {
            r.evaluations += 1;
            r.count("get_finalizers_for_calls", 1);
        });
    }

    fn op_pop_finalized(&mut self) {
        let w = world();
        // pop under the shadow lock so that the reachability judgement is consistent
        let mut sh = w.shadow.lock().unwrap();
        if let Some(obj) = memory_manager::get_finalized_object(w.mmtk) {
            let a = obj.to_raw_address().as_usize();
            let start = start_of(a);
            if !world::readable(start, MIN_OBJ_BYTES) {
                violation("C06", "finalizable:returned-unmapped", format!("get_finalized_object returned {:#x}", a));
                return;
            }
            let id = unsafe { read_hdr(start).id };
            on_finalizable_popped(&mut sh, id, a, None);
            drop(sh);
            with_report("C06", |r| {
                r.evaluations += 1;
                r.count("finalizables_popped_by_mutator", 1);
            });
        }
    }

    fn op_drop_vm_strong(&mut self) {
        let w = world();
        let mut sh = w.shadow.lock().unwrap();
        if !sh.vm_strong.is_empty() {
            let i = self.rng.usize_below(sh.vm_strong.len());
            sh.vm_strong.swap_remove(i);
        }
    }

    fn op_add_ephemeron(&mut self) {
        let w = world();
        let (Some(k), Some(v)) = (self.pick_nonnull_root(), self.pick_nonnull_root()) else { return };
        let mut sh = w.shadow.lock().unwrap();
        if sh.ephemerons.len() >= 256 {
            let i = self.rng.usize_below(sh.ephemerons.len());
            sh.ephemerons.swap_remove(i);
        }
        let (kid, vid) = (sh.roots[self.idx][k], sh.roots[self.idx][v]);
        if kid == vid {
            return;
        }
        let ka = sh.objs[&kid].addr;
        let va = sh.objs[&vid].addr;
        sh.ephemerons.push(Eph { key: kid, val: vid, key_addr: ka, val_addr: va });
        drop(sh);
        with_report("C13", |r| r.count("ephemerons_added", 1));
    }

    /// An ephemeron chain of length n: key_i reachable only through value_{i-1}: needs n rounds.
    fn op_ephemeron_chain(&mut self, n: usize) {
        let w = world();
        let r0 = self.pick_root();
        // k0 is held by a root
        if self.alloc_into_root(r0, 48, 1, SEM_DEFAULT, KIND_NORMAL, 0, 3, 0) == 0 {
            return;
        }
        let t = SCRATCH; // the value being built
        let k = SCRATCH + 1; // the current key while building
        self.copy_root(k, r0);
        let mut built = 0;
        for _ in 0..n {
            // value_i (will be the next key)
            if self.alloc_into_root(t, 56, 1, SEM_DEFAULT, KIND_NORMAL, 0, 3, 0) == 0 {
                break;
            }
            {
                let mut sh = w.shadow.lock().unwrap();
                let (kid, vid) = (sh.roots[self.idx][k], sh.roots[self.idx][t]);
                if kid == 0 || vid == 0 {
                    break;
                }
                let ka = sh.objs[&kid].addr;
                let va = sh.objs[&vid].addr;
                sh.ephemerons.push(Eph { key: kid, val: vid, key_addr: ka, val_addr: va });
            }
            // next key = this value
            self.copy_root(k, t);
            built += 1;
        }
        self.drop_root(t);
        self.drop_root(k);
        with_report("C13", |r| {
            r.count("ephemeron_chains", 1);
            r.set_max("max_chain_length", built as u64);
        });
    }

    fn op_rebind(&mut self) {
        if world().cfg.is_concurrent() {
            return;
        }
        if world::rebind_mutator(self.idx) {
            self.mutator = world::mutator_ptr(self.idx);
            with_report("C01", |r| r.count("mutator_rebinds", 1));
        }
    }

    /// Inject user work packets that spawn PRNG fan-out trees: into the always-open bucket (they
    /// run right away on woken workers) or into stop-the-world buckets (they run in the next GC,
    /// children go to the same or a later stage).
    fn op_inject_packets(&mut self) {
        use mmtk::scheduler::WorkBucketStage as S;
        let w = world();
        let stages = [S::Unconstrained, S::Prepare, S::Closure, S::VMRefClosure, S::Release, S::Final];
        let si = self.rng.usize_below(stages.len());
        let depth = 1 + self.rng.below(3) as u8;
        let fanout = 1 + self.rng.below(3) as u8;
        let seed = self.rng.next();
        let n = 1 + self.rng.usize_below(3);
        if n == 1 {
            memory_manager::add_work_packet(w.mmtk, stages[si], StressPacket { depth, fanout, stage: si as u8, seed });
        } else {
            let v: Vec<Box<dyn mmtk::scheduler::GCWork<VerifVM>>> = (0..n).map(|i| Box::new(StressPacket { depth, fanout, stage: si as u8, seed: seed ^ i as u64 }) as Box<dyn mmtk::scheduler::GCWork<VerifVM>>).collect();
            memory_manager::add_work_packets(w.mmtk, stages[si], v);
        }
        with_report("C15", |r| r.count("user_packet_trees_injected", n as u64));
    }

    /// prepare_to_fork -> wait for every GC thread to return -> after_fork (no real fork() is
    /// needed: the protocol is exit/respawn of the worker threads).
    fn op_fork_cycle(&mut self) {
        let w = world();
        let n = w.cfg.workers;
        let ret0 = w.workers_returned.load(Ordering::SeqCst);
        // close the gate and wait until no requester is between "call entered" and "blocked for GC"
        FORKING.store(true, Ordering::SeqCst);
        while REQUESTERS_IN_CALL.load(Ordering::SeqCst) != 0 {
            world::safepoint_poll();
            std::thread::sleep(std::time::Duration::from_micros(20));
            if w.done.load(Ordering::Relaxed) {
                FORKING.store(false, Ordering::SeqCst);
                return;
            }
        }
        emit(world::EV_FORK_PREPARE_CALL, self.idx as u64, 0, 0);
        w.mmtk.prepare_to_fork();
        emit(world::EV_FORK_PREPARE_RETURN, self.idx as u64, 0, 0);
        // Wait for the native threads to exit.  A GC requested earlier is served first and needs
        // this mutator to park, so keep polling.
        while w.workers_returned.load(Ordering::SeqCst) < ret0 + n {
            world::safepoint_poll();
            std::thread::sleep(std::time::Duration::from_micros(20));
            if w.done.load(Ordering::Relaxed) {
                FORKING.store(false, Ordering::SeqCst);
                return;
            }
        }
        for h in w.worker_threads.lock().unwrap().drain(..) {
            let _ = h.join();
        }
        w.last_progress.fetch_add(1, Ordering::Relaxed);
        emit(world::EV_AFTER_FORK_CALL, self.idx as u64, 0, 0);
        w.mmtk.after_fork(world::tls_of(self.idx).0);
        emit(world::EV_AFTER_FORK_RETURN, self.idx as u64, 0, 0);
        FORKING.store(false, Ordering::SeqCst);
        with_report("C16", |r| r.count("fork_cycles_by_mutator", 1));
    }

    /// The other mutators of the fork scenario: they only request collections (a VM must not
    /// allocate between prepare_to_fork and after_fork), racing with the fork cycles.
    fn run_gc_requester(&mut self, ops: u64) {
        let w = world();
        let mut n = 0;
        while n < ops / 40 && !w.done.load(Ordering::Relaxed) {
            n += 1;
            w.last_progress.fetch_add(1, Ordering::Relaxed);
            world::safepoint_poll();
            if !requester_enter() {
                std::thread::sleep(std::time::Duration::from_micros(50));
                continue;
            }
            if self.rng.chance(1, 3) {
                self.op_user_gc(false);
            } else {
                memory_manager::gc_poll(w.mmtk, world::tls_of(self.idx));
            }
            requester_leave();
            std::thread::sleep(std::time::Duration::from_micros(self.rng.below(300)));
        }
    }

    /// C09: `cycles` rounds of {allocate `fill_pct` % of the heap and keep all of it reachable,
    /// drop every reference, force an exhaustive GC, read used_bytes}.
    fn run_cycles(&mut self, cycles: u64) {
        let w = world();
        let cfg = w.cfg.clone();
        let heap = cfg.heap_mb << 20;
        let budget = heap / 100 * cfg.fill_pct;
        // the stated constant: 1/16 of the heap (1/4 for ConcurrentImmix, whose non-moving
        // concurrent collector keeps partially used blocks); on this tree the observed value is 0
        let floor = if cfg.plan == "ConcurrentImmix" { heap / 4 } else { heap / 16 };
        let mut series: Vec<usize> = vec![];
        let oom0 = oom_count();
        for c in 0..cycles {
            if w.done.load(Ordering::Relaxed) {
                return;
            }
            w.last_progress.fetch_add(1, Ordering::Relaxed);
            let profile = (c % 7) as u8;
            let mut bytes = 0usize;
            let mut objs = 0u64;
            let mut los_bytes = 0usize;
            let mut root = 0usize;
            let mut in_root = 0usize;
            let t = SCRATCH;
            while bytes < budget {
                world::safepoint_poll();
                w.counters.ops.fetch_add(1, Ordering::Relaxed);
                let (mut size, _n, mut sem, _k, fl, al, off) = self.random_shape();
                if never_collected(sem) {
                    sem = SEM_DEFAULT; // never reclaimed by definition: not part of "garbage"
                }
                match profile {
                    0 => {
                        sem = SEM_DEFAULT;
                        size = 32 + 8 * self.rng.usize_below(16);
                    }
                    1 => {
                        if sem == SEM_DEFAULT {
                            size = 160 + 8 * self.rng.usize_below(480);
                        }
                    }
                    2 => {} // the general boundary-heavy mix
                    3 => {
                        // half of the bytes in large objects
                        if los_bytes * 2 < bytes + 1 && !cfg.off("los") {
                            sem = SEM_LOS;
                            size = gen_los_size(&mut self.rng, self.max_default);
                        }
                    }
                    4 => {
                        // around an Immix line / a block
                        if sem == SEM_DEFAULT {
                            size = (256 * (1 + self.rng.usize_below(12)) + 8 * self.rng.usize_below(5)).saturating_sub(16).min(self.max_default.min(32 << 10)) & !7;
                        }
                    }
                    5 => {
                        // alternating tiny and big: fragments blocks
                        if sem == SEM_DEFAULT {
                            size = if objs % 2 == 0 { 32 } else { 2048 + 8 * self.rng.usize_below(256) };
                        }
                    }
                    _ => {
                        // one size class only, different one per cycle
                        if sem == SEM_DEFAULT {
                            size = 40 + 8 * ((c / 7) as usize % 120);
                        }
                    }
                }
                if sem == SEM_DEFAULT && cfg.plan == "MarkSweep" {
                    size = size.min(self.max_default - ((1usize << al) - 8));
                }
                let size = size.max(HEADER_BYTES + 8);
                let size = if cfg.plan == "PageProtect" { size.min(64 << 10) } else { size };
                if bytes + size > budget + (64 << 10) && bytes > 0 {
                    break;
                }
                if self.alloc_into_root(t, size, 1, sem, KIND_NORMAL, fl & !FLAG_TRACE_SCAN, al, off) == 0 {
                    violation("C09", format!("out-of-memory:while-filling-{}-percent-of-the-heap", cfg.fill_pct), format!("cycle {} (profile {}): allocation of {} bytes (sem {}) failed after {} bytes in {} objects; used_bytes after the previous cycles: {:?}", c, profile, size, sem, bytes, objs, &series[series.len().saturating_sub(6)..]));
                    return;
                }
                // t.next = roots[root]; roots[root] = t
                if in_root > 0 {
                    self.write_field(t, 0, Some(root));
                }
                self.copy_root(root, t);
                in_root += 1;
                if in_root >= 4000 {
                    root = (root + 1) % GEN_ROOTS;
                    in_root = 0;
                    // a full rotation never happens: 36 roots x 4000 objects x >= 40 bytes
                }
                // PageProtect and the LOS give every object its own pages: the heap fills by pages
                bytes += if cfg.plan == "PageProtect" || sem == SEM_LOS { (size + 8 + 4095) & !4095 } else { size };
                objs += 1;
                if sem == SEM_LOS {
                    los_bytes += size;
                }
            }
            self.drop_root(t);
            if oom_count() != oom0 {
                violation("C09", "out-of-memory:callback", format!("Collection::out_of_memory was called in cycle {}", c));
                return;
            }
            let used_full = memory_manager::used_bytes(w.mmtk);
            for r in 0..NROOTS {
                self.drop_root(r);
            }
            self.op_user_gc(true);
            let used = memory_manager::used_bytes(w.mmtk);
            series.push(used);
            if used > floor {
                violation("C09", "used-bytes-after-exhaustive-gc-above-floor", format!("cycle {} (profile {}): used_bytes = {} after an exhaustive GC with an empty root set, floor = {} (series so far {:?})", c, profile, used, floor, &series[series.len().saturating_sub(8)..]));
            }
            with_report("C09", |r| {
                r.evaluations += 1;
                r.count("cycles", 1);
                r.count("bytes_allocated_mb", (bytes >> 20) as u64);
                r.count("objects_allocated", objs);
                r.count(&format!("cycles_profile_{}", profile), 1);
                r.set_max("max_used_kb_after_gc", (used >> 10) as u64);
                r.set_max("max_used_kb_when_full", (used_full >> 10) as u64);
                r.key(mix(0xC09, mix(profile as u64, ((used >> 12) as u64).next_power_of_two())));
                if r.want_sample() && c % 5 == 0 {
                    r.sample(J::obj(vec![("plan", J::s(cfg.plan.clone())), ("cycle", J::i(c)), ("profile", J::i(profile as u64)), ("objects", J::i(objs)), ("bytes", J::i(bytes as u64)), ("used_when_full", J::i(used_full as u64)), ("used_after_gc", J::i(used as u64))]));
                }
            });
        }
        // absence of growth: the second half of the run must not sit above the first half
        if series.len() >= 12 {
            let warm = 3;
            let mid = warm + (series.len() - warm) / 2;
            let a = *series[warm..mid].iter().max().unwrap();
            let b = *series[mid..].iter().max().unwrap();
            let slack = 1 << 20;
            if b > a + slack {
                violation("C09", "used-bytes-after-gc-grows", format!("max used_bytes after GC: cycles {}..{}: {}, cycles {}..{}: {} (slack {}); series tail {:?}", warm, mid, a, mid, series.len(), b, slack, &series[series.len() - 8..]));
            }
            with_report("C09", |r| r.count("growth_checks", 1));
        }
    }

    /// C10: fill the heap with reachable objects until a request fails, then issue requests with
    /// every option combination and size class against the full heap, then drop everything.
    fn run_oom(&mut self, rounds: u64) {
        use mmtk::util::alloc::AllocationOptions;
        let w = world();
        let cfg = w.cfg.clone();
        let heap = cfg.dyn_heap.map(|(_, hi)| hi).unwrap_or(cfg.heap_mb) << 20;
        let t = SCRATCH;
        for round in 0..rounds {
            if w.done.load(Ordering::Relaxed) {
                return;
            }
            if let Some((lo, hi)) = cfg.dyn_heap {
                // a dynamic heap that is still small: requests above the *current* size but below
                // the maximum are not "larger than the maximum heap" (raw memory, never initialised)
                for mb in [(lo + hi) / 2, hi - 1, lo + 1] {
                    world::safepoint_poll();
                    let _ = self.raw_alloc(mb << 20, 8, 0, SEM_LOS);
                    with_report("C10", |r| r.count("requests_between_current_and_maximum_heap", 1));
                }
                self.op_user_gc(false);
            }
            // ---- A: fill -------------------------------------------------------------------------
            let mut root = 0usize;
            let mut in_root = 0usize;
            let mut filled = 0u64;
            let link = |m: &mut Mut, root: &mut usize, in_root: &mut usize| {
                if *in_root > 0 {
                    m.write_field(t, 0, Some(*root));
                }
                m.copy_root(*root, t);
                *in_root += 1;
                if *in_root >= 6000 {
                    *root = (*root + 1) % GEN_ROOTS;
                    *in_root = 0;
                }
            };
            loop {
                world::safepoint_poll();
                w.last_progress.fetch_add(1, Ordering::Relaxed);
                w.counters.ops.fetch_add(1, Ordering::Relaxed);
                let (mut size, _n, mut sem, _k, _fl, al, off) = self.random_shape();
                if sem == SEM_IMMORTAL {
                    sem = SEM_DEFAULT;
                }
                if sem == SEM_DEFAULT {
                    size = size.max(96 + 8 * self.rng.usize_below(64));
                }
                if cfg.plan == "PageProtect" {
                    size = size.min(32 << 10);
                }
                if self.alloc_into_root(t, size.max(HEADER_BYTES + 8), 1, sem, KIND_NORMAL, 0, al, off) == 0 {
                    break;
                }
                link(self, &mut root, &mut in_root);
                filled += 1;
                if filled > 3_000_000 {
                    with_report("C10", |r| r.inconclusive("the heap did not fill up after 3M objects"));
                    return;
                }
            }
            self.drop_root(t);
            with_report("C10", |r| {
                r.count("heap_fill_rounds", 1);
                r.count("objects_retained_when_full", filled);
            });
            // ---- B: requests against the full heap --------------------------------------------------
            // exactly the heap size is not "larger than the heap": a collection must be attempted first
            let big = [heap, heap + 4096, heap + (8 << 20), heap * 4, 1usize << 40, 1usize << 46, usize::MAX / 2 & !7];
            for combo in 0..8u32 {
                let o = AllocationOptions { allow_overcommit: combo & 1 != 0, at_safepoint: combo & 2 != 0, allow_oom_call: combo & 4 != 0 };
                self.alloc_opts = Some(o);
                // realistic sizes: the object is initialised and (sometimes) retained
                let mut reqs: Vec<(u8, usize)> = vec![(SEM_DEFAULT, 64), (SEM_DEFAULT, 1024), (SEM_DEFAULT, self.max_default.min(32 << 10) & !7), (SEM_LOS, 128 << 10), (SEM_LOS, 1 << 20)];
                if !never_collected(SEM_NONMOVING) && self.sem_supported(SEM_NONMOVING) {
                    reqs.push((SEM_NONMOVING, 256));
                }
                if cfg.plan == "MarkSweep" {
                    reqs[2].1 = reqs[2].1.min(self.max_default - 64);
                }
                for (sem, size) in reqs {
                    world::safepoint_poll();
                    w.last_progress.fetch_add(1, Ordering::Relaxed);
                    if self.alloc_into_root(t, size, 1, sem, KIND_NORMAL, 0, 3, 0) != 0 {
                        if self.rng.chance(1, 2) {
                            link(self, &mut root, &mut in_root);
                        }
                        self.drop_root(t);
                    }
                }
                // requests larger than the whole heap (LOS and Immortal: the semantics a VM would use)
                for &size in &big {
                    for sem in [SEM_LOS, SEM_IMMORTAL] {
                        world::safepoint_poll();
                        let a = self.raw_alloc(size, 8, 0, sem);
                        if !a.is_zero() {
                            // already reported by judge_alloc; nothing is written to the memory
                        }
                    }
                }
            }
            self.alloc_opts = None;
            // ---- C: drop everything, collect, go again -----------------------------------------------
            for r in 0..NROOTS {
                self.drop_root(r);
            }
            if self.idx == 0 || round % 2 == 0 {
                self.op_user_gc(false);
            }
            with_report("C10", |r| r.count("rounds", 1));
        }
    }

    /// C35 (third clause): the cells a native mark-sweep space hands out for each size class are
    /// cell-size strided from the block start and lie entirely within their 64 KiB block.
    /// Raw allocations (never initialised as objects, reclaimed by the next GC).
    fn run_msblocks(&mut self) {
        use mmtk::verif::ms;
        let w = world();
        let sizes = ms::bin_sizes();
        let block = ms::block_bytes();
        let sem = if w.cfg.plan == "MarkSweep" { SEM_DEFAULT } else { SEM_NONMOVING };
        let mut cells = 0u64;
        let mut blocks_seen: std::collections::HashSet<usize> = Default::default();
        for round in 0..2 {
            for (bin, &cell) in sizes.iter().enumerate() {
                if cell == 0 || cell > ms::MAX_BIN_SIZE || bin == 0 {
                    continue;
                }
                if sem == SEM_NONMOVING && cell > 2048 {
                    continue;
                }
                // a request of exactly the cell size with the minimum alignment lands in this bin
                if ms::mi_bin::<VerifVM>(cell, 8) != bin {
                    continue;
                }
                let n = 2 * (block / cell) + 3;
                let mut per_block: std::collections::HashMap<usize, Vec<usize>> = Default::default();
                for _ in 0..n {
                    world::safepoint_poll();
                    w.last_progress.fetch_add(1, Ordering::Relaxed);
                    let a = self.raw_alloc(cell, 8, 0, sem);
                    if a.is_zero() {
                        break;
                    }
                    let a = a.as_usize();
                    cells += 1;
                    let b = a & !(block - 1);
                    blocks_seen.insert(b);
                    per_block.entry(b).or_default().push(a);
                    if (a - b) % cell != 0 {
                        violation("C35", format!("ms-cell:not-strided-from-block-start:bin{}", bin), format!("alloc({}) returned {:#x}: offset {} in its block is not a multiple of the cell size {} (bin {})", cell, a, a - b, cell, bin));
                    }
                    if (a - b) + cell > block {
                        violation("C35", format!("ms-cell:crosses-the-end-of-its-block:bin{}", bin), format!("alloc({}) returned {:#x}: the cell [{},{}) of size class {} (bin {}) ends beyond its {} byte block", cell, a, a - b, a - b + cell, cell, bin, block));
                    }
                }
                for (b, v) in per_block.iter_mut() {
                    v.sort();
                    for p in v.windows(2) {
                        if p[1] - p[0] < cell {
                            violation("C35", format!("ms-cell:overlapping-cells:bin{}", bin), format!("block {:#x}: cells at {:#x} and {:#x} of size {} overlap", b, p[0], p[1], cell));
                        }
                    }
                }
                with_report("C35", |r| {
                    r.evaluations += n as u64;
                    r.count("size_classes_allocated_live", 1);
                    r.key(mix(0xC35, mix(bin as u64, round)));
                });
            }
            // reclaim everything (nothing is reachable) and go again over recycled blocks
            self.op_user_gc(false);
        }
        with_report("C35", |r| {
            r.count("live_cells_checked", cells);
            r.count("live_blocks_seen", blocks_seen.len() as u64);
            r.sample(J::obj(vec![("plan", J::s(w.cfg.plan.clone())), ("cells", J::i(cells)), ("blocks", J::i(blocks_seen.len() as u64)), ("block_bytes", J::i(block as u64))]));
        });
    }

    fn sem_supported(&self, sem: u8) -> bool {
        let cfg = &world().cfg;
        if sem == SEM_NONMOVING && cfg!(any(feature = "var_a", feature = "var_b")) && (cfg.plan == "MarkCompact" || cfg.plan == "ConcurrentImmix" || cfg.is_generational()) {
            return false; // known findings, see random_shape
        }
        if (sem == SEM_NONMOVING || sem == SEM_IMMORTAL) && cfg.plan == "Compressor" {
            return false;
        }
        true
    }

    /// Run `ops` operations.
    pub fn run(&mut self, ops: u64) {
        let w = world();
        let cfg = w.cfg.clone();
        if cfg.scenario == "cycles" {
            return self.run_cycles(ops);
        }
        if cfg.scenario == "oom" {
            return self.run_oom(ops);
        }
        if cfg.scenario == "msblocks" {
            return self.run_msblocks();
        }

        if cfg.scenario == "fork" && self.idx != 0 {
            return self.run_gc_requester(ops);
        }
        let live_budget = cfg.max_live_kb * 1024 / cfg.mutators.max(1);
        let scen = cfg.scenario.as_str();
        let mut n = 0u64;
        while n < ops && !w.done.load(Ordering::Relaxed) {
            n += 1;
            w.counters.ops.fetch_add(1, Ordering::Relaxed);
            w.last_progress.fetch_add(1, Ordering::Relaxed);
            world::safepoint_poll();
            // keep the live set bounded: when over budget, prefer dropping
            if n % 128 == 0 {
                world::check_heap_size("mutator");
            }
            let over = if n % 64 == 0 {
                let sh = w.shadow.lock().unwrap();
                let bytes: usize = sh.by_addr.values().map(|(e, _)| *e).zip(sh.by_addr.keys()).map(|(e, s)| e - *s).sum();
                bytes > live_budget * cfg.mutators.max(1)
            } else {
                false
            };
            if over {
                for _ in 0..NROOTS / 3 {
                    let r = self.rng.usize_below(NROOTS);
                    self.drop_root(r);
                }
                for g in 0..NGLOBALS {
                    if self.rng.chance(1, 3) {
                        let mut sh = w.shadow.lock().unwrap();
                        sh.globals[g] = 0;
                        unsafe { std::ptr::write_volatile(&mut (*w.globals)[g], 0) };
                    }
                }
                continue;
            }
            if scen == "fork" && n % 150 == 0 {
                self.op_fork_cycle();
                continue;
            }
            self.maybe_gc_storm();
            if SATB_ACTIVE.load(Ordering::Relaxed) && self.rng.chance(1, 2) {
                // concurrent marking is running: allocate a burst of small objects (they go into
                // recycled lines of partly used blocks and into fresh blocks), keep a few
                self.op_alloc_burst();
                continue;
            }
            if scen == "nogcops" && cfg.is_concurrent() && !cfg.off("los") && self.rng.chance(1, 150) {
                // large garbage fills the heap quickly, so that the next concurrent cycle starts while
                // partly free (reusable) Immix blocks are still around for the allocation bursts
                for _ in 0..3 {
                    world::safepoint_poll();
                    let size = (1usize << 20) + 4096 * self.rng.usize_below(64);
                    self.alloc_into_root(SCRATCH, size, 1, SEM_LOS, KIND_NORMAL, 0, 3, 0);
                }
                self.drop_root(SCRATCH);
                continue;
            }
            // KNOWN FINDING (C03): under a discontiguous layout PageProtect's page resource decides
            // whether to unprotect a multi-chunk grant by looking at its first chunk only; only the
            // dedicated finding shard allocates multi-chunk objects there.
            let multi_chunk_ok = !(cfg.plan == "PageProtect" && cfg.layout == "map32") || scen.starts_with("finding-");
            if cfg.resolve && multi_chunk_ok && cfg.heap_mb >= 48 && cfg.collects() && !cfg.off("los") && self.rng.chance(1, 400) {
                // a large object spanning several chunks, dropped right away (C31: multi-chunk regions
                // are acquired and, under a discontiguous layout, freed as a whole)
                let size = (4usize << 20) + (1 << 20) * (1 + self.rng.usize_below(5)) + 4096 * self.rng.usize_below(100);
                self.alloc_into_root(SCRATCH, size, 1, SEM_LOS, KIND_NORMAL, 0, 3, 0);
                self.drop_root(SCRATCH);
                continue;
            }
            let x = self.rng.below(1000);
            match x {
                0..=299 => self.op_alloc(),
                300..=479 => {
                    let (Some(a), b) = (self.pick_nonnull_root(), self.pick_nonnull_root()) else { continue };
                    let i = self.rng.usize_below(64);
                    self.write_field(a, i, b);
                }
                480..=519 => {
                    let Some(a) = self.pick_nonnull_root() else { continue };
                    let i = self.rng.usize_below(64);
                    self.write_field(a, i, None);
                }
                520..=669 => {
                    let Some(a) = self.pick_nonnull_root() else { continue };
                    let r = self.pick_root();
                    let i = self.rng.usize_below(64);
                    self.load_field(r, a, i);
                }
                670..=739 => {
                    let r = self.pick_root();
                    self.drop_root(r);
                }
                740..=759 => {
                    let (g, r) = (self.rng.usize_below(NGLOBALS), self.pick_root());
                    self.share_out(g, r);
                }
                760..=779 => {
                    let (g, r) = (self.rng.usize_below(NGLOBALS), self.pick_root());
                    self.share_in(r, g);
                }
                780..=799 => {
                    let n = 2 + self.rng.usize_below(if scen == "deep" { 2000 } else { 60 });
                    self.op_build_list(n);
                }
                800..=809 => {
                    let d = 1 + self.rng.usize_below(3);
                    let f = 2 + self.rng.usize_below(3);
                    self.op_build_tree(d, f);
                }
                810..=859 => {
                    let r = self.pick_root();
                    if cfg.lookups && x < 830 {
                        self.op_probe_lookups(r);
                    } else {
                        self.verify_root(r);
                    }
                }
                860..=879 => {
                    if !cfg.off("arraycopy") {
                        self.op_array_copy()
                    }
                }
                880..=909 => {
                    if cfg.is_generational() && !cfg.off("remset") {
                        self.op_remset_shape();
                    } else {
                        self.op_alloc();
                    }
                }
                910..=919 => {
                    if cfg.supports_pin_object() {
                        let unpin = self.rng.chance(1, 2);
                        self.op_pin(unpin);
                    }
                }
                920..=934 => {
                    if cfg.finalizers {
                        match self.rng.below(7) {
                            0 | 1 => self.op_reg_finalizer(),
                            2 | 3 => self.op_pop_finalized(),
                            4 | 5 => self.op_get_finalizers_for(),
                            _ => self.op_drop_vm_strong(),
                        }
                    }
                }
                935..=949 => {
                    if cfg.ephemerons {
                        if self.rng.chance(1, 4) {
                            let n = 1 + self.rng.usize_below(5);
                            self.op_ephemeron_chain(n);
                        } else {
                            self.op_add_ephemeron();
                        }
                    }
                }
                950..=954 => {
                    if cfg.log_events && cfg.mutators >= 2 && scen != "fork" && self.rng.chance(1, 4) {
                        self.op_start_gc_storm();
                    } else if cfg.log_events && self.rng.chance(1, 2) {
                        self.op_inject_packets();
                    } else {
                        memory_manager::gc_poll(w.mmtk, world::tls_of(self.idx));
                    }
                }
                955..=957 => {
                    if !cfg.off("rebind") {
                        self.op_rebind()
                    }
                }
                958..=961 => {
                    if cfg.collects() && (scen != "nogcops") {
                        let ex = self.rng.chance(1, 2);
                        self.op_user_gc(ex);
                    }
                }
                _ => self.op_alloc(),
            }
        }
    }
}

/// Check what `alloc` returned (C03).  `start` is non-zero.
pub fn check_alloc_result(start: usize, size: usize, align: usize, offset: usize, sem: u8, dirty_expected: bool) {
    let w = world();
    let mut bad = false;
    if (start + offset) % align != 0 {
        bad = true;
        violation("C03", format!("alloc:misaligned:align{}:sem{}", align, sem), format!("alloc(size={}, align={}, offset={}, sem={}) returned {:#x}: (addr+offset) % align = {}", size, align, offset, sem, start, (start + offset) % align));
    }
    if !world::readable(start, size) {
        violation("C03", format!("alloc:unmapped:sem{}", sem), format!("alloc(size={}, sem={}) returned {:#x} which is not inside mapped MMTk memory", size, sem, start));
        return;
    }
    // zeroing
    let mut off = 0;
    while off + 8 <= size {
        let v = unsafe { rd(start + off) };
        if v != 0 {
            bad = true;
            violation("C03", format!("alloc:not-zeroed:sem{}", sem), format!("alloc(size={}, align={}, offset={}, sem={}) returned {:#x}: word at +{} is {:#x} (plan {})", size, align, offset, sem, start, off, v, w.cfg.plan));
            break;
        }
        off += 8;
    }
    let _ = dirty_expected;
    with_report("C03", |r| {
        r.evaluations += 1;
        let szc = (size as u64).next_power_of_two();
        r.key(mix(mix(szc, align as u64), mix(offset as u64, sem as u64)));
        r.count("allocations_checked", 1);
        if r.want_sample() && !bad {
            r.sample(J::obj(vec![("size", J::i(size as u64)), ("align", J::i(align as u64)), ("offset", J::i(offset as u64)), ("sem", J::i(sem as u64)), ("addr", J::s(format!("{:#x}", start)))]));
        }
    });
    let _ = NPINROOTS;
}


/// A user work packet of the scheduler stress workload: burns a little time and spawns children.
pub struct StressPacket {
    pub depth: u8,
    pub fanout: u8,
    pub stage: u8,
    pub seed: u64,
}

pub static STRESS_PACKETS_RUN: std::sync::atomic::AtomicU64 = std::sync::atomic::AtomicU64::new(0);

impl mmtk::scheduler::GCWork<VerifVM> for StressPacket {
    fn do_work(&mut self, worker: &mut mmtk::scheduler::GCWorker<VerifVM>, _mmtk: &'static mmtk::MMTK<VerifVM>) {
        use mmtk::scheduler::WorkBucketStage as S;
        STRESS_PACKETS_RUN.fetch_add(1, Ordering::Relaxed);
        let stages = [S::Unconstrained, S::Prepare, S::Closure, S::VMRefClosure, S::Release, S::Final];
        let mut x = self.seed | 1;
        let mut next = || {
            x ^= x << 13;
            x ^= x >> 7;
            x ^= x << 17;
            x
        };
        for _ in 0..(next() % 400) {
            std::hint::spin_loop();
        }
        if next() % 8 == 0 {
            std::thread::yield_now();
        }
        if self.depth == 0 {
            return;
        }
        for _ in 0..self.fanout {
            // children go to the same stage or a later one (never to an earlier stop-the-world stage)
            let cs = if self.stage == 0 { 0 } else { (self.stage as usize + (next() % 2) as usize).min(stages.len() - 1) };
            let child = StressPacket { depth: self.depth - 1, fanout: self.fanout, stage: cs as u8, seed: next() };
            if next() % 2 == 0 {
                worker.add_work(stages[cs], child);
            } else {
                worker.scheduler().work_buckets[stages[cs]].add(child);
            }
        }
    }
}
