//! Offline checker over the event log of the GC scheduler and the binding callbacks
//! (properties C11, C14, C15, C16).  It only relies on the `seq` order of events: an event that
//! enables something is logged before the enabling store, an event that consumes is logged after.
use crate::world::*;
use mmtk::verif::*;
use std::collections::{HashMap, HashSet};
use vcommon::{mix, Report, J};

const GOAL_GC: u64 = 0;
const GOAL_SHUTDOWN: u64 = 1;
const GOAL_FORK: u64 = 2;

#[derive(Default, Clone)]
struct StageState {
    name: String,
    stw: bool,
    sequential: bool,
    open: bool,
    enabled: bool,
    /// packets added to this stage (bucket queue or worker-local) and not yet started
    pending: i64,
    sentinel: bool,
}

#[derive(Clone)]
struct Pkt {
    stage: usize,
    tname: &'static str,
    /// the GC epoch it was added for
    epoch: u64,
    added_seq: u64,
}

pub struct Monitor {
    stages: Vec<StageState>,
    first_stw: usize,
    nworkers: usize,
    parked: HashSet<u64>,
    exited: HashSet<u64>,
    requested: [bool; 3],
    current: Option<u64>,
    /// pending non-ZST packets by address
    pkts: HashMap<u64, Pkt>,
    /// pending ZST packets by (stage, type name)
    zst: HashMap<(usize, &'static str), i64>,
    /// designated packets pending per ordinal
    designated: HashMap<u64, i64>,
    running: HashMap<u64, (u64, &'static str, usize)>, // ordinal -> (addr, type, stage)
    in_gc: bool,
    gc_count: u64,
    /// epoch number packets added now belong to (= number of GC_ENDs seen + 1)
    epoch: u64,
    stop_enter: u32,
    stop_return: u32,
    resume_enter: u32,
    resumed: bool,
    scans: HashMap<u64, u32>,
    rescans: u32,
    bound: HashSet<u64>,
    vm_root_scans: u32,
    last_seq: u64,
    // fork / shutdown
    surrendered: Vec<u64>,
    exit_goal_active: bool,
    spawned_since_fork: Vec<u64>,
    returned_since_request: Vec<u64>,
    forks_completed: u64,
    // evidence
    states_seen: HashSet<u64>,
    last_parked_decisions: [u64; 3],
    packets_started: u64,
    opens_checked: u64,
    events: u64,
    pub c11: Report,
    gc_stw_pkts: u64,
    pub park_events: u64,
    pub c14: Report,
    pub c15: Report,
    pub c16: Report,
    pub pages: crate::pagemon::PageMon,
    gc_requests: u64,
    gc_starts: u64,
    pending_user_gc: HashMap<u64, u64>, // mutator -> gc_count at call
}

fn tname(e: &Event) -> &'static str {
    unsafe { static_str(e.c, e.d) }
}

impl Monitor {
    pub fn new() -> Monitor {
        let table = stage_table();
        let mut stages = vec![];
        let mut first_stw = usize::MAX;
        for (i, name, stw, seq) in table {
            if stw && first_stw == usize::MAX {
                first_stw = i;
            }
            stages.push(StageState {
                name: name.clone(),
                stw,
                sequential: seq,
                // Unconstrained and Concurrent are open by default; Concurrent is disabled by default
                open: !stw,
                enabled: name != "Concurrent",
                pending: 0,
                sentinel: false,
            });
        }
        Monitor {
            stages,
            first_stw,
            nworkers: 0,
            parked: HashSet::new(),
            exited: HashSet::new(),
            requested: [false; 3],
            current: None,
            pkts: HashMap::new(),
            zst: HashMap::new(),
            designated: HashMap::new(),
            running: HashMap::new(),
            in_gc: false,
            gc_count: 0,
            epoch: 1,
            stop_enter: 0,
            stop_return: 0,
            resume_enter: 0,
            resumed: false,
            scans: HashMap::new(),
            rescans: 0,
            bound: HashSet::new(),
            vm_root_scans: 0,
            last_seq: 0,
            surrendered: vec![],
            exit_goal_active: false,
            spawned_since_fork: vec![],
            returned_since_request: vec![],
            forks_completed: 0,
            states_seen: HashSet::new(),
            last_parked_decisions: [0; 3],
            packets_started: 0,
            opens_checked: 0,
            events: 0,
            c11: Report::new("C11"),
            pages: crate::pagemon::PageMon::new(),
            gc_stw_pkts: 0,
            park_events: 0,
            c14: Report::new("C14"),
            c15: Report::new("C15"),
            c16: Report::new("C16"),
            gc_requests: 0,
            gc_starts: 0,
            pending_user_gc: HashMap::new(),
        }
    }

    fn stage_name(&self, s: usize) -> String {
        self.stages.get(s).map(|x| x.name.clone()).unwrap_or_else(|| format!("stage{}", s))
    }

    fn stw_pending_total(&self) -> i64 {
        self.stages.iter().filter(|s| s.stw).map(|s| s.pending).sum()
    }

    fn note_state(&mut self) {
        let mut h = 0u64;
        let mut p: Vec<u64> = self.parked.iter().copied().collect();
        p.sort();
        for x in p {
            h = mix(h, x + 1);
        }
        h = mix(h, self.current.map(|c| c + 1).unwrap_or(0));
        for (i, s) in self.stages.iter().enumerate() {
            if s.open {
                h = mix(h, 100 + i as u64);
            }
        }
        self.states_seen.insert(h);
    }

    fn add_packet(&mut self, e: &Event, stage: usize, local: bool) {
        let name = tname(e);
        let addr = e.b;
        if stage >= self.stages.len() {
            self.c15.violation("add:unknown-stage", format!("packet {} added to stage index {}", name, stage));
            return;
        }
        self.stages[stage].pending += 1;
        if addr < 4096 {
            *self.zst.entry((stage, name)).or_insert(0) += 1;
        } else if let Some(old) = self.pkts.insert(addr, Pkt { stage, tname: name, epoch: self.epoch, added_seq: e.seq }) {
            // the allocator may reuse the address of a finished packet, but then it was removed
            self.c15.violation("add:address-still-pending", format!("packet {} at {:#x} added while {} at the same address (added at seq {}) has not been executed", name, addr, old.tname, old.added_seq));
        }
        let st = &self.stages[stage];
        // a packet added to a closed STW bucket while no GC is running belongs to the next GC
        let _ = (local, st);
        self.c15.count("packets_added", 1);
    }

    pub fn feed(&mut self, evs: &[Event]) {
        for e in evs {
            self.events += 1;
            self.last_seq = e.seq;
            self.step(e);
        }
    }

    fn step(&mut self, e: &Event) {
        if matches!(e.kind, mmtk::verif::EV_GRANT | mmtk::verif::EV_RELEASE | mmtk::verif::EV_PR_RESET | crate::world::EV_PR_SNAPSHOT) {
            return self.pages.step(e);
        }
        match e.kind {
            EV_SPAWN => {
                self.nworkers = e.a as usize;
                self.spawned_since_fork.clear();
                self.parked.clear();
                self.exited.clear();
                self.c16.count("spawn_rounds", 1);
            }
            EV_WORKER_RUN => {
                self.c14.count("worker_thread_starts", 1);
            }
            EV_PARK => {
                self.park_events += 1;
                let n = self.nworkers as u64;
                if !self.parked.insert(e.a) {
                    self.c14.violation("park:worker-parked-twice", format!("worker {} parked while already parked (seq {})", e.a, e.seq));
                }
                if e.b as usize != self.parked.len() {
                    self.c14.violation("park:parked-count-disagrees", format!("worker {} parked: monitor counts {} parked, scheduler says {} (seq {})", e.a, self.parked.len(), e.b, e.seq));
                }
                if e.b > n || e.c != n {
                    self.c14.violation("park:count-out-of-range", format!("parked count {} of {} workers (expected {} workers)", e.b, e.c, n));
                }
                self.c14.evaluations += 1;
                self.note_state();
            }
            EV_LAST_PARKED => {
                self.last_parked_decisions[(e.b as usize).min(2)] += 1;
                if self.parked.len() != self.nworkers {
                    self.c14.violation("last-parked:not-all-parked", format!("on_last_parked evaluated by worker {} with {} of {} workers parked (seq {})", e.a, self.parked.len(), self.nworkers, e.seq));
                }
                // ParkSelf with something to do = lost wake-up in the making
                if e.b == 0 {
                    let goal_pending = self.requested.iter().any(|x| *x);
                    if goal_pending && self.current.is_none() {
                        self.c14.violation("last-parked:parkself-with-pending-request", format!("the last parked worker decided to park itself although a goal is requested (seq {})", e.seq));
                    }
                    if self.current == Some(GOAL_GC) {
                        self.c14.violation("last-parked:parkself-during-gc", format!("the last parked worker parked itself while a GC is the current goal (seq {})", e.seq));
                    }
                }
                self.c14.key(mix(0xC14, mix(e.b, mix(self.current.map(|c| c + 1).unwrap_or(0), self.parked.len() as u64))));
                self.c14.evaluations += 1;
            }
            EV_UNPARK => {
                self.park_events += 1;
                if !self.parked.remove(&e.a) {
                    self.c14.violation("unpark:worker-not-parked", format!("worker {} unparked but was not parked (seq {})", e.a, e.seq));
                }
                if e.b as usize != self.parked.len() {
                    self.c14.violation("unpark:parked-count-disagrees", format!("worker {} unparked: monitor counts {} parked, scheduler says {}", e.a, self.parked.len(), e.b));
                }
                self.note_state();
            }
            EV_EXIT_DECISION => {
                if !matches!(self.current, Some(GOAL_SHUTDOWN) | Some(GOAL_FORK)) {
                    self.c16.violation("exit:without-exit-goal", format!("worker {} decided to exit while the current goal is {:?}", e.a, self.current));
                }
                if !self.exited.insert(e.a) {
                    self.c16.violation("exit:worker-exits-twice", format!("worker {} decided to exit twice", e.a));
                }
            }
            EV_REQUEST => {
                let g = e.a as usize;
                if g < 3 {
                    if e.b == 1 {
                        self.requested[g] = true;
                    }
                    if g as u64 == GOAL_GC {
                        self.gc_requests += e.b;
                        if self.requested[GOAL_FORK as usize] || self.current == Some(GOAL_FORK) {
                            self.c16.count("gc_requested_while_fork_pending", 1);
                        }
                    } else if self.requested[GOAL_GC as usize] || self.current == Some(GOAL_GC) {
                        self.c16.count("exit_requested_while_gc_pending_or_running", 1);
                        self.c16.key(mix(0xC16F, mix(self.requested[GOAL_GC as usize] as u64, self.current.map(|c| c + 1).unwrap_or(0))));
                    }
                }
                self.c14.count("goal_requests", 1);
            }
            EV_GOAL_START => {
                let g = e.a as usize;
                if g < 3 {
                    if !self.requested[g] {
                        self.c14.violation("goal:started-without-request", format!("goal {} became current without a pending request", g));
                    }
                    self.requested[g] = false;
                }
                if self.current.is_some() {
                    self.c14.violation("goal:started-while-another-is-current", format!("goal {} started while goal {:?} is current", g, self.current));
                }
                self.current = Some(e.a);
                if e.a == GOAL_SHUTDOWN || e.a == GOAL_FORK {
                    self.exit_goal_active = true;
                    self.surrendered.clear();
                    self.returned_since_request.clear();
                    // packets pending when the workers are asked to exit must not be lost: remember
                    self.c16.count("exit_goals", 1);
                }
                self.note_state();
            }
            EV_GOAL_DONE => {
                if e.a == GOAL_SHUTDOWN || e.a == GOAL_FORK {
                    // all workers must have surrendered exactly once
                    let mut s = self.surrendered.clone();
                    s.sort();
                    let want: Vec<u64> = (0..self.nworkers as u64).collect();
                    if s != want {
                        self.c16.violation("surrender:not-each-worker-once", format!("exit goal completed with surrendered workers {:?}, expected each of {:?} once", self.surrendered, want));
                    }
                    self.c16.evaluations += 1;
                    self.c16.key(mix(0xC16, mix(e.a, self.nworkers as u64)));
                    self.exit_goal_active = false;
                }
                self.current = None;
                self.note_state();
            }
            EV_BUCKET_OPEN => {
                let s = e.a as usize;
                if s < self.stages.len() {
                    if self.stages[s].sequential {
                        self.opens_checked += 1;
                        self.c15.evaluations += 1;
                        if self.parked.len() != self.nworkers {
                            self.c15.violation("open:not-all-workers-parked", format!("bucket {} opened with {} of {} workers parked (seq {})", self.stage_name(s), self.parked.len(), self.nworkers, e.seq));
                        }
                        for t in self.first_stw..s {
                            let st = &self.stages[t];
                            if st.enabled && st.pending != 0 {
                                self.c15.violation("open:earlier-bucket-not-drained", format!("bucket {} opened while earlier bucket {} still has {} pending packets (seq {})", self.stage_name(s), st.name, st.pending, e.seq));
                            }
                            if st.enabled && st.sentinel {
                                self.c15.violation("open:earlier-bucket-sentinel-not-run", format!("bucket {} opened while the sentinel packet of earlier bucket {} has not been scheduled (seq {})", self.stage_name(s), st.name, e.seq));
                            }
                            if st.enabled && !st.open {
                                self.c15.violation("open:earlier-bucket-not-open", format!("bucket {} opened while earlier enabled bucket {} has not been opened (seq {})", self.stage_name(s), st.name, e.seq));
                            }
                        }
                        if !self.running.is_empty() {
                            self.c15.violation("open:packet-still-running", format!("bucket {} opened while {} packets are still running", self.stage_name(s), self.running.len()));
                        }
                        if !self.in_gc {
                            self.c15.violation("open:outside-gc", format!("bucket {} opened while no GC is in progress", self.stage_name(s)));
                        }
                        self.c15.key(mix(0xC15, mix(s as u64, self.stages[s].pending.min(4) as u64)));
                    } else if s == self.first_stw {
                        // opened by notify_mutators_paused: mutators must have been stopped
                        if self.stop_return == 0 && self.stop_enter == 0 {
                            self.c11.violation("prepare-bucket-opened-before-stop", format!("the first STW bucket was opened before stop_all_mutators (seq {})", e.seq));
                        }
                    }
                    self.stages[s].open = true;
                }
                self.note_state();
            }
            EV_BUCKET_CLOSE => {
                let s = e.a as usize;
                if s < self.stages.len() {
                    if self.stages[s].stw && self.stages[s].pending != 0 && self.in_gc {
                        self.c15.violation("close:bucket-not-empty", format!("bucket {} closed with {} pending packets", self.stage_name(s), self.stages[s].pending));
                    }
                    self.stages[s].open = false;
                }
            }
            EV_BUCKET_ENABLE => {
                let s = e.a as usize;
                if s < self.stages.len() {
                    self.stages[s].enabled = e.b != 0;
                }
            }
            EV_ADD => self.add_packet(e, e.a as usize, false),
            EV_ADD_LOCAL => self.add_packet(e, e.a as usize, true),
            EV_ADD_DESIGNATED => {
                *self.designated.entry(e.a).or_insert(0) += 1;
            }
            EV_SENTINEL_SET => {
                let s = e.a as usize;
                if s < self.stages.len() {
                    self.stages[s].sentinel = true;
                }
            }
            EV_SENTINEL_SCHEDULED => {
                let s = e.a as usize;
                if s < self.stages.len() {
                    self.stages[s].sentinel = false;
                    if self.parked.len() != self.nworkers {
                        self.c15.violation("sentinel:scheduled-with-workers-running", format!("sentinel of bucket {} scheduled with {} of {} workers parked", self.stage_name(s), self.parked.len(), self.nworkers));
                    }
                    if self.stages[s].pending != 0 {
                        self.c15.violation("sentinel:scheduled-before-bucket-drained", format!("sentinel of bucket {} scheduled while {} packets are pending", self.stage_name(s), self.stages[s].pending));
                    }
                }
                // the sentinel packet itself is then pushed through the bucket queue (EV_ADD)
            }
            EV_PACKET_START => {
                let name = tname(e);
                self.packets_started += 1;
                self.c15.count("packets_started", 1);
                let ord = e.a;
                if self.parked.contains(&ord) {
                    self.c14.violation("packet:run-by-parked-worker", format!("worker {} started {} while parked", ord, name));
                }
                // designated packets first (they have no ADD event with an address)
                let mut stage = usize::MAX;
                if name.ends_with("PrepareCollector") || name.ends_with("ReleaseCollector") {
                    let d = self.designated.entry(ord).or_insert(0);
                    if *d <= 0 {
                        self.c15.violation("packet:designated-run-without-add", format!("worker {} ran {} which was not designated to it", ord, name));
                    } else {
                        *d -= 1;
                    }
                } else if e.b < 4096 {
                    // zero-sized packet: identified by type; find a stage with a pending one
                    let mut found = None;
                    for ((s, n), c) in self.zst.iter() {
                        if *n == name && *c > 0 {
                            found = Some(*s);
                            break;
                        }
                    }
                    match found {
                        Some(s) => {
                            *self.zst.get_mut(&(s, name)).unwrap() -= 1;
                            self.stages[s].pending -= 1;
                            stage = s;
                        }
                        None => self.c15.violation("packet:run-without-add", format!("zero-sized packet {} started but none is pending (seq {})", name, e.seq)),
                    }
                } else {
                    match self.pkts.remove(&e.b) {
                        Some(p) => {
                            self.stages[p.stage].pending -= 1;
                            stage = p.stage;
                            if p.tname != name {
                                self.c15.violation("packet:type-changed", format!("packet at {:#x} was added as {} but runs as {}", e.b, p.tname, name));
                            }
                            if self.stages[p.stage].stw && p.epoch != self.epoch {
                                self.c15.violation("packet:executed-in-a-later-gc", format!("{} added for GC #{} is executed in GC #{}", name, p.epoch, self.epoch));
                            }
                        }
                        None => self.c15.violation("packet:run-twice-or-never-added", format!("packet {} at {:#x} started but is not pending (executed twice, or never added) (seq {})", name, e.b, e.seq)),
                    }
                }
                if stage != usize::MAX {
                    let st = &self.stages[stage];
                    if st.stw {
                        if !st.open {
                            self.c15.violation("packet:from-closed-bucket", format!("{} of bucket {} started while the bucket is closed (seq {})", name, st.name, e.seq));
                        }
                        if !self.in_gc {
                            self.c11.violation("stw-packet:outside-gc", format!("stop-the-world packet {} ({}) started while no GC is in progress (seq {})", name, st.name, e.seq));
                        } else if self.resumed {
                            self.c11.violation("stw-packet:after-resume", format!("stop-the-world packet {} ({}) started after resume_mutators (seq {})", name, st.name, e.seq));
                        } else if self.stop_return == 0 {
                            self.c11.violation("stw-packet:before-stop-returned", format!("packet {} of bucket {} started before stop_all_mutators returned", name, st.name));
                        }
                        self.c11.evaluations += 1;
                        self.gc_stw_pkts += 1;
                    }
                }
                self.running.insert(ord, (e.b, name, stage));
            }
            EV_PACKET_END => {
                if self.running.remove(&e.a).is_none() {
                    self.c15.violation("packet:end-without-start", format!("worker {} ended a packet it did not start", e.a));
                }
            }
            EV_SURRENDER => {
                self.surrendered.push(e.a);
                self.c16.count("surrenders", 1);
                if !self.exit_goal_active {
                    self.c16.violation("surrender:without-exit-goal", format!("worker {} surrendered without an exit goal", e.a));
                }
            }
            EV_GC_START => {
                if self.in_gc {
                    self.c11.violation("gc-start:nested", "GC started while another one is in progress".to_string());
                }
                self.in_gc = true;
                self.gc_starts += 1;
                self.stop_enter = 0;
                self.stop_return = 0;
                self.resume_enter = 0;
                self.resumed = false;
                self.scans.clear();
                self.rescans = 0;
                self.vm_root_scans = 0;
                self.c14.count("gc_starts", 1);
            }
            EV_GC_END => {
                // all STW buckets closed and empty, nothing running
                for st in self.stages.iter().filter(|s| s.stw) {
                    if st.open {
                        self.c15.violation("gc-end:stw-bucket-open", format!("bucket {} is still open at the end of the GC", st.name));
                    }
                    if st.pending != 0 {
                        self.c15.violation("gc-end:stw-bucket-not-empty", format!("bucket {} has {} pending packets at the end of GC #{}", st.name, st.pending, self.epoch));
                    }
                }
                for st in self.stages.iter_mut().filter(|s| s.stw) {
                    if st.sentinel && st.enabled {
                        self.c15.violation("gc-end:sentinel-never-scheduled", format!("the sentinel packet set for bucket {} was never scheduled in GC #{}", st.name, self.epoch));
                    }
                    st.sentinel = false;
                }
                let stale: Vec<String> = self.pkts.values().filter(|p| self.stages[p.stage].stw && p.epoch == self.epoch).map(|p| format!("{}@{}", p.tname, self.stages[p.stage].name)).take(4).collect();
                if !stale.is_empty() {
                    self.c15.violation("gc-end:packet-never-executed", format!("packets added for GC #{} were not executed in it: {:?}", self.epoch, stale));
                }
                if self.designated.values().any(|v| *v != 0) {
                    self.c15.violation("gc-end:designated-packet-not-executed", format!("designated packets left: {:?}", self.designated));
                }
                // C11: stop once, every bound mutator scanned once per round
                if self.stop_enter != 1 || self.stop_return != 1 {
                    self.c11.violation("stop_all_mutators:not-exactly-once", format!("stop_all_mutators entered {} / returned {} times in GC #{}", self.stop_enter, self.stop_return, self.epoch));
                }
                let rounds = 1 + self.rescans;
                let bound: Vec<u64> = self.bound.iter().copied().collect();
                for m in bound {
                    let c = self.scans.get(&m).copied().unwrap_or(0);
                    if c != rounds {
                        self.c11.violation("scan_roots:not-once-per-round", format!("mutator {} was root-scanned {} times in GC #{} ({} root-scanning rounds)", m, c, self.epoch, rounds));
                    }
                }
                if self.vm_root_scans != rounds {
                    self.c11.violation("scan_vm_specific_roots:not-once-per-round", format!("scan_vm_specific_roots called {} times in GC #{} ({} rounds)", self.vm_root_scans, self.epoch, rounds));
                }
                self.c11.evaluations += 1;
                self.c11.count("gcs_checked", 1);
                // distinct case = (#bound mutators, #workers, root-scanning rounds, log2 of the
                // number of stop-the-world packets this GC executed)
                let lg = 64 - self.gc_stw_pkts.leading_zeros() as u64;
                self.c11.key(mix(0xC11, mix(self.bound.len() as u64, mix(self.nworkers as u64, mix(rounds as u64, lg)))));
                self.gc_stw_pkts = 0;
                self.c15.count("gcs_checked", 1);
                self.gc_count += 1;
                self.epoch += 1;
                // not yet: in_gc stays true until resume_mutators has been called
            }
            EV_MUTATORS_PAUSED => {
                if self.stop_enter == 0 {
                    self.c11.violation("notify_mutators_paused:before-stop", "notify_mutators_paused before stop_all_mutators".to_string());
                }
            }
            // ---- binding side ----------------------------------------------------------------
            EV_BIND => {
                self.bound.insert(e.a);
            }
            EV_UNBIND => {
                self.bound.remove(&e.a);
            }
            EV_STOP_ENTER => {
                self.stop_enter += 1;
                if !self.in_gc {
                    self.c11.violation("stop_all_mutators:outside-gc", "stop_all_mutators called while no GC is in progress".to_string());
                }
            }
            EV_STOP_RETURN => {
                self.stop_return += 1;
            }
            EV_SCAN_MUTATOR => {
                *self.scans.entry(e.a).or_insert(0) += 1;
                if self.stop_enter == 0 {
                    self.c11.violation("scan_roots:before-stop", format!("mutator {} scanned before stop_all_mutators was called", e.a));
                }
            }
            EV_SCAN_VM_ROOTS => {
                self.vm_root_scans += 1;
            }
            EV_PREPARE_RESCAN => {
                self.rescans += 1;
            }
            EV_RESUME_ENTER => {
                self.resume_enter += 1;
                if self.resume_enter > 1 {
                    self.c11.violation("resume_mutators:twice", format!("resume_mutators called {} times in one GC", self.resume_enter));
                }
                if !self.running.is_empty() {
                    let r: Vec<String> = self.running.values().map(|x| x.1.to_string()).collect();
                    self.c11.violation("resume_mutators:gc-work-still-running", format!("resume_mutators called while packets are running: {:?}", r));
                }
                if self.designated.values().any(|v| *v > 0) {
                    self.c11.violation("resume_mutators:designated-work-pending", format!("resume_mutators called while designated (per-worker) packets have not run: {:?}", self.designated));
                }
                if self.stw_pending_total() != 0 {
                    self.c11.violation("resume_mutators:stw-packets-pending", format!("resume_mutators called with {} stop-the-world packets pending", self.stw_pending_total()));
                }
                self.resumed = true;
            }
            EV_RESUME_RETURN => {
                self.in_gc = false;
            }
            EV_FIRST_COPY | EV_FIRST_SCAN => {
                if self.stop_return == 0 && !world().cfg.is_concurrent() {
                    self.c11.violation("trace-or-copy:before-stop-returned", format!("an object was {} before stop_all_mutators returned", if e.kind == EV_FIRST_COPY { "copied" } else { "scanned" }));
                }
            }
            EV_SPAWN_WORKER => {
                self.spawned_since_fork.push(e.a);
                self.c16.count("workers_spawned", 1);
            }
            EV_WORKER_RETURNED => {
                self.returned_since_request.push(e.a);
                self.c16.count("workers_returned", 1);
            }
            EV_AFTER_FORK_RETURN => {
                let mut s = self.spawned_since_fork.clone();
                s.sort();
                let want: Vec<u64> = (0..self.nworkers as u64).collect();
                if s != want {
                    self.c16.violation("after_fork:respawn-not-each-worker-once", format!("after_fork respawned workers {:?}, expected each of {:?} once", self.spawned_since_fork, want));
                }
                self.forks_completed += 1;
                self.c16.count("fork_round_trips", 1);
                self.c16.evaluations += 1;
            }
            EV_USER_GC_CALL => {
                self.pending_user_gc.insert(e.a, self.gc_count);
            }
            EV_USER_GC_RETURN => {
                if let Some(g0) = self.pending_user_gc.remove(&e.a) {
                    if self.gc_count == g0 && !self.in_gc {
                        self.c11.violation("user-gc:returned-before-gc-ended", format!("handle_user_collection_request returned to mutator {} but no GC has ended since the call", e.a));
                    }
                    self.c14.count("user_gc_round_trips", 1);
                }
            }
            _ => {}
        }
    }

    /// The deadlock predicate: evaluated when nothing has happened for a long time.
    pub fn deadlock_witness(&self) -> Option<String> {
        if self.nworkers == 0 || self.parked.len() != self.nworkers {
            return None;
        }
        let goal_pending = self.requested.iter().any(|x| *x) || self.current == Some(GOAL_GC);
        let runnable: Vec<String> = self.stages.iter().filter(|s| s.open && s.enabled && s.pending > 0).map(|s| format!("{}:{}", s.name, s.pending)).collect();
        let designated = self.designated.values().any(|v| *v > 0);
        if goal_pending || !runnable.is_empty() || designated {
            Some(format!("all {} workers are parked, current goal {:?}, requested {:?}, runnable packets in open buckets {:?}, designated pending {}; last event seq {}", self.nworkers, self.current, self.requested, runnable, designated, self.last_seq))
        } else {
            None
        }
    }

    /// Final checks at a quiescent end of the run (all mutators finished).
    pub fn finish(&mut self, expect_idle: bool) {
        if expect_idle {
            if self.in_gc && !world().cfg.is_concurrent() {
                self.c14.violation("end:gc-never-finished", "the run ended while a GC was still in progress".to_string());
            }
            if self.requested[GOAL_GC as usize] {
                self.c14.violation("end:gc-request-never-served", "a GC request was never served".to_string());
            }
        }
        let states = self.states_seen.len() as u64;
        for r in [&mut self.c11, &mut self.c14, &mut self.c15, &mut self.c16] {
            r.count("events", self.events);
        }
        self.c14.count("distinct_scheduler_states", states);
        self.c14.count("last_parked_parkself", self.last_parked_decisions[0]);
        self.c14.count("last_parked_wakeself", self.last_parked_decisions[1]);
        self.c14.count("last_parked_wakeall", self.last_parked_decisions[2]);
        self.c14.count("gc_requests", self.gc_requests);
        self.c15.count("sequential_bucket_opens_checked", self.opens_checked);
        let sample = J::obj(vec![
            ("events", J::i(self.events)),
            ("gcs", J::i(self.gc_count)),
            ("workers", J::i(self.nworkers as u64)),
            ("distinct_scheduler_states", J::i(states)),
            ("packets_started", J::i(self.packets_started)),
        ]);
        self.c14.sample(sample.clone());
        self.c15.sample(sample.clone());
        self.c11.sample(sample.clone());
        self.c16.sample(sample);
        for h in self.states_seen.iter().take(20000) {
            self.c14.key(*h);
        }
    }
}
