//! gcsim: run ONE generated mutator program against a real MMTk instance in this process.
fn main() {
    let args = vcommon::Args::parse();
    let cfg = vmbind::cfg::Config::from_args(&args);
    vmbind::run(cfg);
}
