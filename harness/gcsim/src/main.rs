fn main(){}
