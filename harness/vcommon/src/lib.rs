//! Shared helpers of the verification harness: PRNG, a tiny JSON value + writer, the per-process
//! report that every monitor binary prints as its last stdout line (`VERIF-REPORT {json}`), and
//! argv parsing.  No external crates.

use std::collections::{BTreeMap, HashSet};
use std::fmt::Write as _;

// ------------------------------------------------------------------------------------------------
// PRNG
// ------------------------------------------------------------------------------------------------

/// splitmix64 — used to derive seeds.
pub fn splitmix(x: &mut u64) -> u64 {
    *x = x.wrapping_add(0x9E37_79B9_7F4A_7C15);
    let mut z = *x;
    z = (z ^ (z >> 30)).wrapping_mul(0xBF58_476D_1CE4_E5B9);
    z = (z ^ (z >> 27)).wrapping_mul(0x94D0_49BB_1331_11EB);
    z ^ (z >> 31)
}

/// 64-bit mix of two values (for hashing case classes).
pub fn mix(a: u64, b: u64) -> u64 {
    let mut x = a ^ b.wrapping_mul(0x9E37_79B9_7F4A_7C15).rotate_left(23);
    splitmix(&mut x)
}

/// xoshiro256** PRNG.
#[derive(Clone, Debug)]
pub struct Rng {
    s: [u64; 4],
}

impl Rng {
    pub fn new(seed: u64) -> Self {
        let mut x = seed;
        let s = [
            splitmix(&mut x),
            splitmix(&mut x),
            splitmix(&mut x),
            splitmix(&mut x),
        ];
        Rng { s }
    }
    pub fn next(&mut self) -> u64 {
        let r = self.s[1].wrapping_mul(5).rotate_left(7).wrapping_mul(9);
        let t = self.s[1] << 17;
        self.s[2] ^= self.s[0];
        self.s[3] ^= self.s[1];
        self.s[1] ^= self.s[2];
        self.s[0] ^= self.s[3];
        self.s[2] ^= t;
        self.s[3] = self.s[3].rotate_left(45);
        r
    }
    /// Uniform in `0..n` (n > 0).
    pub fn below(&mut self, n: u64) -> u64 {
        debug_assert!(n > 0);
        ((self.next() as u128 * n as u128) >> 64) as u64
    }
    pub fn usize_below(&mut self, n: usize) -> usize {
        self.below(n as u64) as usize
    }
    /// Uniform in `lo..=hi`.
    pub fn range(&mut self, lo: u64, hi: u64) -> u64 {
        lo + self.below(hi - lo + 1)
    }
    pub fn chance(&mut self, num: u64, den: u64) -> bool {
        self.below(den) < num
    }
    pub fn pick<'a, T>(&mut self, xs: &'a [T]) -> &'a T {
        &xs[self.usize_below(xs.len())]
    }
    pub fn fork(&mut self) -> Rng {
        Rng::new(self.next())
    }
    pub fn shuffle<T>(&mut self, xs: &mut [T]) {
        for i in (1..xs.len()).rev() {
            let j = self.usize_below(i + 1);
            xs.swap(i, j);
        }
    }
}

// ------------------------------------------------------------------------------------------------
// JSON
// ------------------------------------------------------------------------------------------------

#[derive(Clone, Debug)]
pub enum J {
    Null,
    Bool(bool),
    Int(i128),
    Float(f64),
    Str(String),
    Arr(Vec<J>),
    Obj(Vec<(String, J)>),
}

impl J {
    pub fn s(x: impl Into<String>) -> J {
        J::Str(x.into())
    }
    pub fn i(x: impl TryInto<i128>) -> J {
        J::Int(x.try_into().ok().unwrap_or(0))
    }
    pub fn obj(kv: Vec<(&str, J)>) -> J {
        J::Obj(kv.into_iter().map(|(k, v)| (k.to_string(), v)).collect())
    }
    pub fn write(&self, out: &mut String) {
        match self {
            J::Null => out.push_str("null"),
            J::Bool(b) => out.push_str(if *b { "true" } else { "false" }),
            J::Int(i) => {
                let _ = write!(out, "{}", i);
            }
            J::Float(f) => {
                if f.is_finite() {
                    let _ = write!(out, "{}", f);
                } else {
                    out.push_str("null");
                }
            }
            J::Str(s) => {
                out.push('"');
                for c in s.chars() {
                    match c {
                        '"' => out.push_str("\\\""),
                        '\\' => out.push_str("\\\\"),
                        '\n' => out.push_str("\\n"),
                        '\r' => out.push_str("\\r"),
                        '\t' => out.push_str("\\t"),
                        c if (c as u32) < 0x20 => {
                            let _ = write!(out, "\\u{:04x}", c as u32);
                        }
                        c => out.push(c),
                    }
                }
                out.push('"');
            }
            J::Arr(a) => {
                out.push('[');
                for (i, x) in a.iter().enumerate() {
                    if i > 0 {
                        out.push(',');
                    }
                    x.write(out);
                }
                out.push(']');
            }
            J::Obj(o) => {
                out.push('{');
                for (i, (k, v)) in o.iter().enumerate() {
                    if i > 0 {
                        out.push(',');
                    }
                    J::Str(k.clone()).write(out);
                    out.push(':');
                    v.write(out);
                }
                out.push('}');
            }
        }
    }
    pub fn to_string(&self) -> String {
        let mut s = String::new();
        self.write(&mut s);
        s
    }
}

// ------------------------------------------------------------------------------------------------
// Report
// ------------------------------------------------------------------------------------------------

pub const MAX_VIOLATIONS_KEPT: usize = 20;
pub const MAX_SAMPLES_KEPT: usize = 6;
pub const MAX_KEYS_KEPT: usize = 50_000;

/// One per (process, property).  Merged by the driver.
#[derive(Debug)]
pub struct Report {
    pub property: String,
    /// cases generated / operations checked
    pub evaluations: u64,
    /// hashed keys of the distinct non-trivial case classes seen (capped)
    pub keys: HashSet<u64>,
    pub keys_overflow: u64,
    pub counters: BTreeMap<String, u64>,
    pub violations: Vec<(String, String)>,
    pub violation_count: u64,
    pub samples: Vec<J>,
    pub inconclusive: Vec<String>,
    pub notes: Vec<String>,
}

impl Report {
    pub fn new(property: &str) -> Self {
        Report {
            property: property.to_string(),
            evaluations: 0,
            keys: HashSet::new(),
            keys_overflow: 0,
            counters: BTreeMap::new(),
            violations: vec![],
            violation_count: 0,
            samples: vec![],
            inconclusive: vec![],
            notes: vec![],
        }
    }
    /// Count one evaluation belonging to the (non-trivial) case class `key`.
    pub fn eval(&mut self, key: u64) {
        self.evaluations += 1;
        self.key(key);
    }
    pub fn key(&mut self, key: u64) {
        if self.keys.len() < MAX_KEYS_KEPT {
            self.keys.insert(key);
        } else if !self.keys.contains(&key) {
            self.keys_overflow += 1;
        }
    }
    pub fn count(&mut self, name: &str, n: u64) {
        *self.counters.entry(name.to_string()).or_insert(0) += n;
    }
    pub fn set_max(&mut self, name: &str, n: u64) {
        let e = self.counters.entry(name.to_string()).or_insert(0);
        if n > *e {
            *e = n;
        }
    }
    /// Record a violation.  `sig` is the stable signature used for known-finding matching; it
    /// must identify the failing input class / call site, not the random instance.
    pub fn violation(&mut self, sig: impl Into<String>, detail: impl Into<String>) {
        self.violation_count += 1;
        let sig = sig.into();
        if self.violations.len() < MAX_VIOLATIONS_KEPT
            || !self.violations.iter().any(|(s, _)| *s == sig)
        {
            if self.violations.len() < 4 * MAX_VIOLATIONS_KEPT {
                self.violations.push((sig, detail.into()));
            }
        }
    }
    pub fn sample(&mut self, j: J) {
        if self.samples.len() < MAX_SAMPLES_KEPT {
            self.samples.push(j);
        }
    }
    pub fn want_sample(&self) -> bool {
        self.samples.len() < MAX_SAMPLES_KEPT
    }
    pub fn inconclusive(&mut self, why: impl Into<String>) {
        self.inconclusive.push(why.into());
    }
    pub fn note(&mut self, s: impl Into<String>) {
        self.notes.push(s.into());
    }
    pub fn to_json(&self) -> J {
        J::obj(vec![
            ("property", J::s(self.property.clone())),
            ("evaluations", J::i(self.evaluations)),
            (
                "keys",
                J::Arr(self.keys.iter().map(|k| J::s(format!("{:x}", k))).collect()),
            ),
            ("keys_overflow", J::i(self.keys_overflow)),
            (
                "counters",
                J::Obj(
                    self.counters
                        .iter()
                        .map(|(k, v)| (k.clone(), J::i(*v)))
                        .collect(),
                ),
            ),
            ("violation_count", J::i(self.violation_count)),
            (
                "violations",
                J::Arr(
                    self.violations
                        .iter()
                        .map(|(s, d)| J::obj(vec![("sig", J::s(s.clone())), ("detail", J::s(d.clone()))]))
                        .collect(),
                ),
            ),
            ("samples", J::Arr(self.samples.clone())),
            (
                "inconclusive",
                J::Arr(self.inconclusive.iter().map(|s| J::s(s.clone())).collect()),
            ),
            (
                "notes",
                J::Arr(self.notes.iter().map(|s| J::s(s.clone())).collect()),
            ),
        ])
    }
    /// Print the report line.  Must be the last thing a process prints for this property.
    pub fn print(&self) {
        use std::io::Write;
        let s = format!("VERIF-REPORT {}\n", self.to_json().to_string());
        let out = std::io::stdout();
        let mut l = out.lock();
        let _ = l.write_all(s.as_bytes());
        let _ = l.flush();
    }
}

// ------------------------------------------------------------------------------------------------
// argv
// ------------------------------------------------------------------------------------------------

/// `--key value` / `--flag` argument bag.
#[derive(Debug, Clone, Default)]
pub struct Args {
    pub positional: Vec<String>,
    pub kv: BTreeMap<String, String>,
}

impl Args {
    pub fn parse() -> Self {
        Self::from_vec(std::env::args().skip(1).collect())
    }
    pub fn from_vec(v: Vec<String>) -> Self {
        let mut a = Args::default();
        let mut i = 0;
        while i < v.len() {
            if let Some(k) = v[i].strip_prefix("--") {
                if let Some((k, val)) = k.split_once('=') {
                    a.kv.insert(k.to_string(), val.to_string());
                } else if i + 1 < v.len() && !v[i + 1].starts_with("--") {
                    a.kv.insert(k.to_string(), v[i + 1].clone());
                    i += 1;
                } else {
                    a.kv.insert(k.to_string(), "1".to_string());
                }
            } else {
                a.positional.push(v[i].clone());
            }
            i += 1;
        }
        a
    }
    pub fn get(&self, k: &str) -> Option<&str> {
        self.kv.get(k).map(|s| s.as_str())
    }
    pub fn str_or(&self, k: &str, d: &str) -> String {
        self.get(k).unwrap_or(d).to_string()
    }
    pub fn u64_or(&self, k: &str, d: u64) -> u64 {
        self.get(k)
            .map(|s| parse_u64(s).unwrap_or_else(|| panic!("bad --{} {}", k, s)))
            .unwrap_or(d)
    }
    pub fn usize_or(&self, k: &str, d: usize) -> usize {
        self.u64_or(k, d as u64) as usize
    }
    pub fn flag(&self, k: &str) -> bool {
        self.get(k).map(|v| v != "0" && v != "false").unwrap_or(false)
    }
    pub fn seed(&self) -> u64 {
        self.u64_or("seed", 1)
    }
    pub fn thorough(&self) -> bool {
        self.get("tier") == Some("thorough")
    }
    /// `--tier miri`: the monitor runs under the Miri interpreter (about 10^4 times slower): same
    /// oracles, budgets of a few hundred operations.
    pub fn miri(&self) -> bool {
        self.get("tier") == Some("miri")
    }
}

pub fn parse_u64(s: &str) -> Option<u64> {
    if let Some(h) = s.strip_prefix("0x") {
        u64::from_str_radix(h, 16).ok()
    } else {
        s.parse().ok()
    }
}

/// Install a panic hook that prints the panic and aborts the process (a panicking GC worker
/// would otherwise leave everything else blocked forever).
thread_local! {
    /// While > 0 on this thread, a panic is recorded and unwinds (to a `catch_unwind`) instead of aborting.
    pub static PANIC_TRAP: std::cell::Cell<u32> = const { std::cell::Cell::new(0) };
    pub static TRAPPED_PANIC: std::cell::RefCell<Option<String>> = const { std::cell::RefCell::new(None) };
}

/// Run `f`; a panic inside it is caught and returned as Err(message) instead of aborting the process.
pub fn trap_panic<R>(f: impl FnOnce() -> R) -> Result<R, String> {
    PANIC_TRAP.with(|t| t.set(t.get() + 1));
    let r = std::panic::catch_unwind(std::panic::AssertUnwindSafe(f));
    PANIC_TRAP.with(|t| t.set(t.get() - 1));
    r.map_err(|_| TRAPPED_PANIC.with(|m| m.borrow_mut().take()).unwrap_or_else(|| "panic".to_string()))
}

pub fn abort_on_panic() {
    std::panic::set_hook(Box::new(|info| {
        if PANIC_TRAP.with(|t| t.get()) > 0 {
            TRAPPED_PANIC.with(|m| *m.borrow_mut() = Some(format!("{}", info)));
            return;
        }
        let bt = std::backtrace::Backtrace::force_capture();
        eprintln!(
            "VERIF-PANIC thread={:?} {}\n{}",
            std::thread::current().name(),
            info,
            bt
        );
        std::process::abort();
    }));
}
