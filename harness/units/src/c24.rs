//! C24: the side-metadata tables in use by one configuration never alias.
//!
//! Observation.  For every plan x compiled VM declaration a child process (`--case <vm>:<plan>`,
//! one MMTK instance per process) creates the real plan with `mmtk_init`, and exports through
//! `mmtk::verif::space_side_metadata` the `SideMetadataContext` (global + local spec lists) of every
//! space of the plan, through `mmtk::verif::side_metadata_reserved_range` the quarantined range, and
//! from the VM's `ObjectModel` constants the declared VM side specs.  Ranges are computed with the
//! public `SideMetadataSpec` methods: `[get_starting_address(), upper_bound_address_for_contiguous())`
//! in the children, `[offset, upper_bound_offset())` in the run-time enumeration.
//!
//! Oracle (`oracle`), the same function for the children, the enumeration and the self test:
//!   1. within one space's context (global ++ local list): any two different specs have disjoint
//!      ranges (the same spec value listed twice is one table, not an alias: counted as
//!      `duplicate_list_entries`, e.g. StickyImmix wraps `new_global_specs` twice);
//!   2. over the union of all contexts of the plan (specs compared as values): any two different
//!      specs have disjoint ranges -- global/global, global/local of any space, and local/local
//!      also across spaces (on 64-bit every local table covers the whole address space and
//!      mmtk-core's own `SideMetadataSanity::verify_local_specs` demands the same of all policies
//!      of a plan); one spec name denotes one layout;
//!   3. the side specs the VM declares (`side_first`/`side_after`) are pairwise disjoint;
//!   4. every spec in use and every declared VM spec lies inside the reserved range;
//!   5. (children only) `address_to_meta_address(spec, a)` for the first/last region of the address
//!      space and of the heap range lies inside the spec's own range (ties the range model to the
//!      accessors).
//! A declared-but-unused VM spec is not compared against core specs in use (the configuration
//! neither reads nor writes it); it only takes part in 3 and 4.
//!
//! A plan whose creation panics inside mmtk-core's own side-metadata sanity check (overlap, changed
//! global/local lists, wrong global/local flag) is reported as a violation too
//! (`c24:plan-creation-panics:*`); any other creation panic is inconclusive.
//!
//! Run-time enumeration (parent).  The `VM*Spec::{in_header, side_first, side_after}` constructors
//! are ordinary const fns, so all 2^6 in-header/side choices of the six VM specs and all declaration
//! orders of the local side ones (652 declarations) are built with the real constructors,
//! substituted for the VM specs in every plan's exported core spec sets (which VM spec kinds a
//! space uses is read off the all-side compiled VM; the other compiled VMs must agree), and checked
//! by the same oracle.  Declarations that mmtk-core's own size check rejects ("Local metadata is too
//! big": a side forwarding pointer, which object_model.rs documents as header-only) are counted,
//! not judged.  The reserved range of an enumerated declaration is modelled as
//! `[0, max(LOCAL_SIDE_METADATA_VM_BASE_OFFSET, max upper_bound_offset of the declaration))`
//! (`layout.rs::total_side_metadata_bytes` without the granularity round-up); the children observe
//! the real one.
use crate::define_unit_vm;
use mmtk::util::metadata::side_metadata::{SideMetadataSpec, LOCAL_SIDE_METADATA_VM_BASE_OFFSET};
use mmtk::util::metadata::MetadataSpec;
use mmtk::util::options::PlanSelector;
use mmtk::util::Address;
use mmtk::vm::{
    ObjectModel, VMBinding, VMGlobalLogBitSpec, VMLocalForwardingBitsSpec, VMLocalForwardingPointerSpec,
    VMLocalLOSMarkNurserySpec, VMLocalMarkBitSpec, VMLocalPinningBitSpec,
};
use std::panic::{catch_unwind, AssertUnwindSafe};
use std::sync::atomic::{AtomicUsize, Ordering};
use std::sync::Mutex;
use vcommon::{mix, Args, Report, J};

// ------------------------------------------------------------------------------------------------
// Compiled VM declarations
// ------------------------------------------------------------------------------------------------

// All per-object metadata in the header.
define_unit_vm!(
    VmHdr,
    log: mmtk::vm::VMGlobalLogBitSpec::in_header(8),
    fwd_ptr: mmtk::vm::VMLocalForwardingPointerSpec::in_header(64),
    fwd_bits: mmtk::vm::VMLocalForwardingBitsSpec::in_header(64),
    mark: mmtk::vm::VMLocalMarkBitSpec::in_header(9),
    pin: mmtk::vm::VMLocalPinningBitSpec::in_header(10),
    los: mmtk::vm::VMLocalLOSMarkNurserySpec::in_header(12),
    unified: true
);

// Everything but the forwarding pointer on the side; local order fwd_bits, mark, pin, los.
define_unit_vm!(
    VmSideA,
    log: mmtk::vm::VMGlobalLogBitSpec::side_first(),
    fwd_ptr: mmtk::vm::VMLocalForwardingPointerSpec::in_header(0),
    fwd_bits: mmtk::vm::VMLocalForwardingBitsSpec::side_first(),
    mark: mmtk::vm::VMLocalMarkBitSpec::side_after(
        <VmSideA as mmtk::vm::ObjectModel<VmSideA>>::LOCAL_FORWARDING_BITS_SPEC.as_spec()
    ),
    pin: mmtk::vm::VMLocalPinningBitSpec::side_after(
        <VmSideA as mmtk::vm::ObjectModel<VmSideA>>::LOCAL_MARK_BIT_SPEC.as_spec()
    ),
    los: mmtk::vm::VMLocalLOSMarkNurserySpec::side_after(
        <VmSideA as mmtk::vm::ObjectModel<VmSideA>>::LOCAL_PINNING_BIT_SPEC.as_spec()
    ),
    unified: true
);

// Everything but the forwarding pointer on the side; local order los, pin, mark, fwd_bits.
define_unit_vm!(
    VmSideB,
    log: mmtk::vm::VMGlobalLogBitSpec::side_first(),
    fwd_ptr: mmtk::vm::VMLocalForwardingPointerSpec::in_header(0),
    fwd_bits: mmtk::vm::VMLocalForwardingBitsSpec::side_after(
        <VmSideB as mmtk::vm::ObjectModel<VmSideB>>::LOCAL_MARK_BIT_SPEC.as_spec()
    ),
    mark: mmtk::vm::VMLocalMarkBitSpec::side_after(
        <VmSideB as mmtk::vm::ObjectModel<VmSideB>>::LOCAL_PINNING_BIT_SPEC.as_spec()
    ),
    pin: mmtk::vm::VMLocalPinningBitSpec::side_after(
        <VmSideB as mmtk::vm::ObjectModel<VmSideB>>::LOCAL_LOS_MARK_NURSERY_SPEC.as_spec()
    ),
    los: mmtk::vm::VMLocalLOSMarkNurserySpec::side_first(),
    unified: true
);

// Mixed: log bit, forwarding bits and pin bit in the header; local side order mark, los.
define_unit_vm!(
    VmMixC,
    log: mmtk::vm::VMGlobalLogBitSpec::in_header(8),
    fwd_ptr: mmtk::vm::VMLocalForwardingPointerSpec::in_header(64),
    fwd_bits: mmtk::vm::VMLocalForwardingBitsSpec::in_header(64),
    mark: mmtk::vm::VMLocalMarkBitSpec::side_first(),
    pin: mmtk::vm::VMLocalPinningBitSpec::in_header(10),
    los: mmtk::vm::VMLocalLOSMarkNurserySpec::side_after(
        <VmMixC as mmtk::vm::ObjectModel<VmMixC>>::LOCAL_MARK_BIT_SPEC.as_spec()
    ),
    unified: true
);

// Mixed (complement): log bit on the side; mark and LOS bits in the header; local side order
// pin, fwd_bits.
define_unit_vm!(
    VmMixD,
    log: mmtk::vm::VMGlobalLogBitSpec::side_first(),
    fwd_ptr: mmtk::vm::VMLocalForwardingPointerSpec::in_header(0),
    fwd_bits: mmtk::vm::VMLocalForwardingBitsSpec::side_after(
        <VmMixD as mmtk::vm::ObjectModel<VmMixD>>::LOCAL_PINNING_BIT_SPEC.as_spec()
    ),
    mark: mmtk::vm::VMLocalMarkBitSpec::in_header(9),
    pin: mmtk::vm::VMLocalPinningBitSpec::side_first(),
    los: mmtk::vm::VMLocalLOSMarkNurserySpec::in_header(12),
    unified: true
);

const VMS: [&str; 5] = ["hdr", "sideA", "sideB", "mixC", "mixD"];
/// The compiled VM whose exports give the per-space VM spec kinds for the enumeration.
const TEMPLATE_VM: &str = "sideA";

const PLANS: [(&str, PlanSelector); 11] = [
    ("NoGC", PlanSelector::NoGC),
    ("SemiSpace", PlanSelector::SemiSpace),
    ("GenCopy", PlanSelector::GenCopy),
    ("GenImmix", PlanSelector::GenImmix),
    ("Immix", PlanSelector::Immix),
    ("StickyImmix", PlanSelector::StickyImmix),
    ("MarkSweep", PlanSelector::MarkSweep),
    ("MarkCompact", PlanSelector::MarkCompact),
    ("Compressor", PlanSelector::Compressor),
    ("ConcurrentImmix", PlanSelector::ConcurrentImmix),
    ("PageProtect", PlanSelector::PageProtect),
];

// ------------------------------------------------------------------------------------------------
// The oracle
// ------------------------------------------------------------------------------------------------

/// A side spec with its metadata address range `[start, end)` (absolute addresses in the children,
/// offsets in the enumeration and the self test).
#[derive(Clone, Debug)]
struct Spec {
    name: String,
    is_global: bool,
    offset: usize,
    log_bits: usize,
    log_region: usize,
    start: usize,
    end: usize,
}

impl Spec {
    /// The spec as a value (what `SideMetadataSpec: Eq` compares).
    fn value(&self) -> (&str, bool, usize, usize, usize) {
        (&self.name, self.is_global, self.offset, self.log_bits, self.log_region)
    }
    fn same(&self, o: &Spec) -> bool {
        self.value() == o.value()
    }
    fn overlaps(&self, o: &Spec) -> bool {
        self.start < o.end && o.start < self.end
    }
    fn show(&self) -> String {
        format!(
            "{}{{{}, offset={:#x}, log_num_of_bits={}, log_bytes_in_region={}, range=[{:#x},{:#x})}}",
            self.name,
            if self.is_global { "global" } else { "local" },
            self.offset,
            self.log_bits,
            self.log_region,
            self.start,
            self.end
        )
    }
}

#[derive(Clone, Debug)]
struct SpaceCtx {
    name: String,
    global: Vec<Spec>,
    local: Vec<Spec>,
}

#[derive(Clone, Debug)]
struct Config {
    /// e.g. `plan=GenCopy vm=sideA`
    label: String,
    spaces: Vec<SpaceCtx>,
    /// the side specs the VM declares (used or not)
    declared_vm: Vec<Spec>,
    /// `[start, end)` of the reserved side metadata range
    reserved: (usize, usize),
}

#[derive(Default)]
struct OracleStats {
    /// `<name> twice in the <global|local> specs of space <space>`
    duplicates: Vec<String>,
    pairs: u64,
    specs_in_use: u64,
    range_checks: u64,
}

fn pair_names(a: &Spec, b: &Spec) -> String {
    if a.name <= b.name {
        format!("{}+{}", a.name, b.name)
    } else {
        format!("{}+{}", b.name, a.name)
    }
}

/// Returns `(sig, detail)` of everything that contradicts the property in `cfg`.
fn oracle(cfg: &Config, st: &mut OracleStats) -> Vec<(String, String)> {
    let mut out: Vec<(String, String)> = vec![];
    // 1. within each space's context
    for sp in &cfg.spaces {
        for (list_name, list) in [("global", &sp.global), ("local", &sp.local)] {
            for i in 0..list.len() {
                for j in i + 1..list.len() {
                    // The same spec (as a value) listed twice is one table, not two aliasing
                    // tables: observed and counted, not a verdict.
                    if list[i].same(&list[j]) {
                        st.duplicates.push(format!("{} twice in the {} specs of space {}", list[i].name, list_name, sp.name));
                    }
                }
            }
        }
        let all: Vec<&Spec> = sp.global.iter().chain(sp.local.iter()).collect();
        for i in 0..all.len() {
            for j in i + 1..all.len() {
                st.pairs += 1;
                if !all[i].same(all[j]) && all[i].overlaps(all[j]) {
                    out.push((
                        format!("c24:overlap:same-space:{}", pair_names(all[i], all[j])),
                        format!(
                            "{}: in the context of space {} the ranges of {} and {} overlap",
                            cfg.label,
                            sp.name,
                            all[i].show(),
                            all[j].show()
                        ),
                    ));
                }
            }
        }
    }
    // 2. union of all contexts, as values; remember one user per spec
    let mut union: Vec<(Spec, String)> = vec![];
    for sp in &cfg.spaces {
        for (is_global_list, list) in [(true, &sp.global), (false, &sp.local)] {
            for s in list.iter() {
                if !union.iter().any(|(u, _)| u.same(s)) {
                    union.push((
                        s.clone(),
                        format!("{}/{}", sp.name, if is_global_list { "global" } else { "local" }),
                    ));
                }
            }
        }
    }
    st.specs_in_use += union.len() as u64;
    for i in 0..union.len() {
        for j in i + 1..union.len() {
            let (a, ua) = &union[i];
            let (b, ub) = &union[j];
            st.pairs += 1;
            if a.name == b.name {
                out.push((
                    format!("c24:same-name-different-layout:{}", a.name),
                    format!(
                        "{}: {} (used by {}) and {} (used by {}) carry the same name",
                        cfg.label,
                        a.show(),
                        ua,
                        b.show(),
                        ub
                    ),
                ));
            }
            if a.overlaps(b) {
                let scope = match (a.is_global, b.is_global) {
                    (true, true) => "global-global",
                    (false, false) => "local-local",
                    _ => "global-local",
                };
                out.push((
                    format!("c24:overlap:{}:{}", scope, pair_names(a, b)),
                    format!(
                        "{}: the ranges of {} (used by {}) and {} (used by {}) overlap",
                        cfg.label,
                        a.show(),
                        ua,
                        b.show(),
                        ub
                    ),
                ));
            }
        }
    }
    // 3. the VM's declaration
    for i in 0..cfg.declared_vm.len() {
        for j in i + 1..cfg.declared_vm.len() {
            let (a, b) = (&cfg.declared_vm[i], &cfg.declared_vm[j]);
            st.pairs += 1;
            if a.overlaps(b) {
                out.push((
                    format!("c24:overlap:vm-declaration:{}", pair_names(a, b)),
                    format!(
                        "{}: the VM declares {} and {} with overlapping ranges",
                        cfg.label,
                        a.show(),
                        b.show()
                    ),
                ));
            }
        }
    }
    // 4. inside the reserved range
    let mut checked: Vec<&Spec> = vec![];
    for s in union.iter().map(|(s, _)| s).chain(cfg.declared_vm.iter()) {
        if checked.iter().any(|c| c.same(s)) {
            continue;
        }
        checked.push(s);
        st.range_checks += 1;
        if s.start < cfg.reserved.0 || s.end > cfg.reserved.1 || s.end < s.start {
            out.push((
                format!("c24:outside-reserved-range:{}", s.name),
                format!(
                    "{}: {} is not inside the reserved side metadata range [{:#x},{:#x})",
                    cfg.label,
                    s.show(),
                    cfg.reserved.0,
                    cfg.reserved.1
                ),
            ));
        }
    }
    out
}

// ------------------------------------------------------------------------------------------------
// Real specs -> oracle specs
// ------------------------------------------------------------------------------------------------

/// Absolute range, through the public accessors (needs an initialized side metadata base).
fn spec_abs(s: &SideMetadataSpec) -> Spec {
    Spec {
        name: s.name.to_string(),
        is_global: s.is_global,
        offset: s.offset,
        log_bits: s.log_num_of_bits,
        log_region: s.log_bytes_in_region,
        start: s.get_starting_address().as_usize(),
        end: s.upper_bound_address_for_contiguous().as_usize(),
    }
}

/// Range as offsets relative to the side metadata base.
fn spec_rel(s: &SideMetadataSpec) -> Spec {
    Spec {
        name: s.name.to_string(),
        is_global: s.is_global,
        offset: s.offset,
        log_bits: s.log_num_of_bits,
        log_region: s.log_bytes_in_region,
        start: s.offset,
        end: s.upper_bound_offset(),
    }
}

fn leak(s: &str) -> &'static str {
    Box::leak(s.to_string().into_boxed_str())
}

// ------------------------------------------------------------------------------------------------
// Child: one plan under one compiled VM
// ------------------------------------------------------------------------------------------------

static PANIC_MSG: Mutex<String> = Mutex::new(String::new());

fn esc(s: &str) -> String {
    s.replace('\\', "\\\\").replace('\n', "\\n").replace('\t', " ")
}
fn unesc(s: &str) -> String {
    let mut out = String::new();
    let mut it = s.chars();
    while let Some(c) = it.next() {
        if c == '\\' {
            match it.next() {
                Some('n') => out.push('\n'),
                Some('\\') => out.push('\\'),
                Some(o) => {
                    out.push('\\');
                    out.push(o)
                }
                None => out.push('\\'),
            }
        } else {
            out.push(c);
        }
    }
    out
}

fn declared_side_specs<VM: VMBinding>() -> Vec<SideMetadataSpec> {
    let all: [MetadataSpec; 6] = [
        *VM::VMObjectModel::GLOBAL_LOG_BIT_SPEC,
        *VM::VMObjectModel::LOCAL_FORWARDING_POINTER_SPEC,
        *VM::VMObjectModel::LOCAL_FORWARDING_BITS_SPEC,
        *VM::VMObjectModel::LOCAL_MARK_BIT_SPEC,
        *VM::VMObjectModel::LOCAL_PINNING_BIT_SPEC,
        *VM::VMObjectModel::LOCAL_LOS_MARK_NURSERY_SPEC,
    ];
    all.iter()
        .filter_map(|m| match m {
            MetadataSpec::OnSide(s) => Some(*s),
            MetadataSpec::InHeader(_) => None,
        })
        .collect()
}

/// What a child found; printed as `C24\t...` lines for the parent and merged into `rep`.
#[derive(Default)]
struct ChildResult {
    spaces: Vec<(String, Vec<SideMetadataSpec>, Vec<SideMetadataSpec>)>,
    declared: Vec<SideMetadataSpec>,
    reserved: Option<(usize, usize)>,
    violations: Vec<(String, String)>,
    inconclusive: Vec<String>,
    pairs: u64,
    specs_in_use: u64,
    range_checks: u64,
    meta_addr_checks: u64,
    duplicates: Vec<String>,
}

fn classify_creation_panic(msg: &str) -> Option<&'static str> {
    if msg.contains("Overlapping metadata specs detected") {
        Some("overlap")
    } else if msg.contains("Global metadata must not change between policies") {
        Some("global-specs-differ-between-spaces")
    } else if msg.contains("Policy-specific metadata for") {
        Some("local-specs-differ-within-policy")
    } else if msg.contains("detected in the global specs") || msg.contains("detected in the policy-specific specs") {
        Some("wrong-global-local-flag")
    } else if msg.contains("Local metadata is too big") || msg.contains("Not enough global metadata space") {
        Some("metadata-too-big")
    } else {
        None
    }
}

fn run_child<VM: VMBinding>(vm_name: &str, plan_name: &str, sel: PlanSelector) -> ChildResult {
    let mut res = ChildResult::default();
    let label = format!("plan={} vm={}", plan_name, vm_name);
    res.declared = declared_side_specs::<VM>();
    std::panic::set_hook(Box::new(|info| {
        let mut g = PANIC_MSG.lock().unwrap_or_else(|e| e.into_inner());
        if g.is_empty() {
            *g = format!("{}", info);
        }
    }));
    let built = catch_unwind(AssertUnwindSafe(|| {
        let mut builder = mmtk::MMTKBuilder::new_no_env_vars();
        builder.options.plan.set(sel);
        builder.options.threads.set(1);
        let m = mmtk::memory_manager::mmtk_init::<VM>(&builder);
        let m: &'static mmtk::MMTK<VM> = Box::leak(m);
        m
    }));
    let _ = std::panic::take_hook();
    let mmtk = match built {
        Ok(m) => m,
        Err(_) => {
            let msg = PANIC_MSG.lock().unwrap_or_else(|e| e.into_inner()).clone();
            let short: String = msg.chars().take(1500).collect();
            match classify_creation_panic(&msg) {
                Some(class) => res.violations.push((
                    format!("c24:plan-creation-panics:{}", class),
                    format!("{}: MMTK::new panicked in the side metadata sanity check: {}", label, short),
                )),
                None => res.inconclusive.push(format!("{}: plan creation panicked: {}", label, short)),
            }
            return res;
        }
    };
    let exported = mmtk::verif::space_side_metadata(mmtk);
    let (base, bytes) = mmtk::verif::side_metadata_reserved_range();
    res.reserved = Some((base.as_usize(), bytes));
    let mut cfg = Config {
        label: label.clone(),
        spaces: vec![],
        declared_vm: res.declared.iter().map(spec_abs).collect(),
        reserved: (base.as_usize(), base.as_usize() + bytes),
    };
    for sp in &exported {
        cfg.spaces.push(SpaceCtx {
            name: sp.name.clone(),
            global: sp.global.iter().map(spec_abs).collect(),
            local: sp.local.iter().map(spec_abs).collect(),
        });
        res.spaces.push((sp.name.clone(), sp.global.clone(), sp.local.clone()));
    }
    if exported.is_empty() {
        res.inconclusive.push(format!("{}: the plan reports no spaces", label));
    }
    let mut st = OracleStats::default();
    res.violations.extend(oracle(&cfg, &mut st));
    // 5. the accessors stay inside the spec's own range
    let layout = mmtk::util::heap::vm_layout::vm_layout();
    let mut seen: Vec<SideMetadataSpec> = vec![];
    for s in exported.iter().flat_map(|sp| sp.global.iter().chain(sp.local.iter())).chain(res.declared.iter()) {
        if seen.contains(s) {
            continue;
        }
        seen.push(*s);
        let (lo, hi) = (s.get_starting_address(), s.upper_bound_address_for_contiguous());
        let region = 1usize << s.log_bytes_in_region;
        let probes = [
            0usize,
            layout.heap_start.as_usize(),
            layout.heap_end.as_usize() - region.min(layout.heap_end.as_usize()),
            (1usize << layout.log_address_space) - region,
        ];
        for &p in &probes {
            let a = unsafe { Address::from_usize(p) };
            let m = mmtk::verif::address_to_meta_address(s, a);
            res.meta_addr_checks += 1;
            if m < lo || m >= hi {
                res.violations.push((
                    format!("c24:meta-address-outside-own-range:{}", s.name),
                    format!(
                        "{}: address_to_meta_address({:?}, {}) = {} is outside the spec's range [{}, {})",
                        label, s, a, m, lo, hi
                    ),
                ));
            }
        }
    }
    res.pairs = st.pairs;
    res.specs_in_use = st.specs_in_use;
    res.range_checks = st.range_checks;
    res.duplicates = st.duplicates;
    res
}

fn print_spec_line(kind: &str, space: usize, list: &str, s: &SideMetadataSpec) {
    println!(
        "C24\t{}\t{}\t{}\t{}\t{}\t{}\t{}\t{}",
        kind,
        space,
        list,
        esc(s.name),
        s.is_global as u8,
        s.offset,
        s.log_num_of_bits,
        s.log_bytes_in_region
    );
}

fn child(case: &str, rep: &mut Report) {
    let Some((vm_name, plan_name)) = case.split_once(':') else {
        rep.inconclusive(format!("bad --case {:?} (want <vm>:<plan>)", case));
        return;
    };
    let Some(&(_, sel)) = PLANS.iter().find(|p| p.0 == plan_name) else {
        rep.inconclusive(format!("unknown plan {:?}", plan_name));
        return;
    };
    let res = match vm_name {
        "hdr" => run_child::<VmHdr>(vm_name, plan_name, sel),
        "sideA" => run_child::<VmSideA>(vm_name, plan_name, sel),
        "sideB" => run_child::<VmSideB>(vm_name, plan_name, sel),
        "mixC" => run_child::<VmMixC>(vm_name, plan_name, sel),
        "mixD" => run_child::<VmMixD>(vm_name, plan_name, sel),
        _ => {
            rep.inconclusive(format!("unknown vm {:?}", vm_name));
            return;
        }
    };
    for (i, (name, g, l)) in res.spaces.iter().enumerate() {
        println!("C24\tSPACE\t{}\t{}", i, esc(name));
        for s in g {
            print_spec_line("SPEC", i, "G", s);
        }
        for s in l {
            print_spec_line("SPEC", i, "L", s);
        }
    }
    for s in &res.declared {
        print_spec_line("DECL", 0, "-", s);
    }
    if let Some((b, n)) = res.reserved {
        println!("C24\tRESERVED\t{}\t{}", b, n);
    }
    for (sig, d) in &res.violations {
        println!("C24\tVIOL\t{}\t{}", esc(sig), esc(d));
        rep.violation(sig.clone(), d.clone());
    }
    for w in &res.inconclusive {
        println!("C24\tINC\t{}", esc(w));
        rep.inconclusive(w.clone());
    }
    for d in &res.duplicates {
        println!("C24\tDUP\t{}", esc(d));
    }
    rep.count("duplicate_list_entries", res.duplicates.len() as u64);
    println!(
        "C24\tSTATS\t{}\t{}\t{}\t{}",
        res.pairs, res.specs_in_use, res.range_checks, res.meta_addr_checks
    );
    println!("C24\tDONE");
    rep.evaluations += 1;
    rep.count("pairs_checked", res.pairs);
    rep.count("specs_in_use", res.specs_in_use);
    rep.count("spaces_exported", res.spaces.len() as u64);
}

// ------------------------------------------------------------------------------------------------
// Parent
// ------------------------------------------------------------------------------------------------

#[derive(Default, Clone)]
struct ParsedChild {
    vm: String,
    plan: String,
    spaces: Vec<(String, Vec<SideMetadataSpec>, Vec<SideMetadataSpec>)>,
    declared: Vec<SideMetadataSpec>,
    reserved: Option<(usize, usize)>,
    violations: Vec<(String, String)>,
    inconclusive: Vec<String>,
    stats: [u64; 4],
    duplicates: Vec<String>,
    done: bool,
    exit: String,
}

fn parse_spec(f: &[&str]) -> Option<SideMetadataSpec> {
    // name, is_global, offset, log_bits, log_region
    if f.len() < 5 {
        return None;
    }
    Some(SideMetadataSpec {
        name: leak(&unesc(f[0])),
        is_global: f[1] == "1",
        offset: f[2].parse().ok()?,
        log_num_of_bits: f[3].parse().ok()?,
        log_bytes_in_region: f[4].parse().ok()?,
    })
}

fn run_one_child(vm: &str, plan: &str, seed: u64) -> ParsedChild {
    let mut pc = ParsedChild { vm: vm.to_string(), plan: plan.to_string(), ..Default::default() };
    let exe = match std::env::current_exe() {
        Ok(e) => e,
        Err(e) => {
            pc.inconclusive.push(format!("current_exe: {}", e));
            return pc;
        }
    };
    let out = std::process::Command::new(exe)
        .args(["C24", "--case", &format!("{}:{}", vm, plan), "--seed", &seed.to_string()])
        .env_remove("MMTK_PLAN")
        .stdin(std::process::Stdio::null())
        .stderr(std::process::Stdio::piped())
        .output();
    let out = match out {
        Ok(o) => o,
        Err(e) => {
            pc.inconclusive.push(format!("could not spawn the child for plan={} vm={}: {}", plan, vm, e));
            return pc;
        }
    };
    pc.exit = format!("{}", out.status);
    let text = String::from_utf8_lossy(&out.stdout).to_string();
    for line in text.lines() {
        let f: Vec<&str> = line.split('\t').collect();
        if f.first() != Some(&"C24") || f.len() < 2 {
            continue;
        }
        match f[1] {
            "SPACE" if f.len() >= 4 => pc.spaces.push((unesc(f[3]), vec![], vec![])),
            "SPEC" if f.len() >= 9 => {
                let idx: usize = f[2].parse().unwrap_or(usize::MAX);
                if let (Some(s), Some(sp)) = (parse_spec(&f[4..]), pc.spaces.get_mut(idx)) {
                    if f[3] == "G" {
                        sp.1.push(s)
                    } else {
                        sp.2.push(s)
                    }
                } else {
                    pc.inconclusive.push(format!("plan={} vm={}: unparsable child line {:?}", plan, vm, line));
                }
            }
            "DECL" if f.len() >= 9 => {
                if let Some(s) = parse_spec(&f[4..]) {
                    pc.declared.push(s)
                }
            }
            "RESERVED" if f.len() >= 4 => {
                if let (Ok(b), Ok(n)) = (f[2].parse(), f[3].parse()) {
                    pc.reserved = Some((b, n));
                }
            }
            "VIOL" if f.len() >= 4 => pc.violations.push((unesc(f[2]), unesc(f[3]))),
            "INC" if f.len() >= 3 => pc.inconclusive.push(unesc(f[2])),
            "DUP" if f.len() >= 3 => pc.duplicates.push(unesc(f[2])),
            "STATS" if f.len() >= 6 => {
                for k in 0..4 {
                    pc.stats[k] = f[2 + k].parse().unwrap_or(0);
                }
            }
            "DONE" => pc.done = true,
            _ => {}
        }
    }
    if !pc.done {
        let err = String::from_utf8_lossy(&out.stderr);
        let tail: String = err.chars().rev().take(600).collect::<String>().chars().rev().collect();
        pc.inconclusive.push(format!(
            "plan={} vm={}: the child did not finish ({}); stderr tail: {}",
            plan, vm, pc.exit, tail
        ));
    }
    pc
}

// ---- run-time enumeration of VM declarations -------------------------------------------------

const K_LOG: usize = 0;
const K_FWD_PTR: usize = 1;
const K_FWD_BITS: usize = 2;
const K_MARK: usize = 3;
const K_PIN: usize = 4;
const K_LOS: usize = 5;
const KIND_TAG: [&str; 6] = ["log", "fwd_ptr", "fwd_bits", "mark", "pin", "los"];

fn side_first(kind: usize) -> MetadataSpec {
    match kind {
        K_LOG => *VMGlobalLogBitSpec::side_first().as_spec(),
        K_FWD_PTR => *VMLocalForwardingPointerSpec::side_first().as_spec(),
        K_FWD_BITS => *VMLocalForwardingBitsSpec::side_first().as_spec(),
        K_MARK => *VMLocalMarkBitSpec::side_first().as_spec(),
        K_PIN => *VMLocalPinningBitSpec::side_first().as_spec(),
        _ => *VMLocalLOSMarkNurserySpec::side_first().as_spec(),
    }
}
fn side_after(kind: usize, prev: &MetadataSpec) -> MetadataSpec {
    match kind {
        K_LOG => *VMGlobalLogBitSpec::side_after(prev).as_spec(),
        K_FWD_PTR => *VMLocalForwardingPointerSpec::side_after(prev).as_spec(),
        K_FWD_BITS => *VMLocalForwardingBitsSpec::side_after(prev).as_spec(),
        K_MARK => *VMLocalMarkBitSpec::side_after(prev).as_spec(),
        K_PIN => *VMLocalPinningBitSpec::side_after(prev).as_spec(),
        _ => *VMLocalLOSMarkNurserySpec::side_after(prev).as_spec(),
    }
}
fn in_header(kind: usize) -> MetadataSpec {
    match kind {
        K_LOG => *VMGlobalLogBitSpec::in_header(8).as_spec(),
        K_FWD_PTR => *VMLocalForwardingPointerSpec::in_header(64).as_spec(),
        K_FWD_BITS => *VMLocalForwardingBitsSpec::in_header(64).as_spec(),
        K_MARK => *VMLocalMarkBitSpec::in_header(9).as_spec(),
        K_PIN => *VMLocalPinningBitSpec::in_header(10).as_spec(),
        _ => *VMLocalLOSMarkNurserySpec::in_header(12).as_spec(),
    }
}

/// A generated VM declaration: per kind the side spec, if on the side.
#[derive(Clone)]
struct Decl {
    side: [Option<SideMetadataSpec>; 6],
    /// e.g. `log=side; local side order: mark, fwd_bits; rest in header`
    text: String,
    mask: u64,
    order_hash: u64,
}

fn permutations(items: &[usize]) -> Vec<Vec<usize>> {
    if items.is_empty() {
        return vec![vec![]];
    }
    let mut out = vec![];
    for i in 0..items.len() {
        let mut rest = items.to_vec();
        let x = rest.remove(i);
        for mut p in permutations(&rest) {
            p.insert(0, x);
            out.push(p);
        }
    }
    out
}

fn all_declarations() -> Vec<Decl> {
    let mut out = vec![];
    let locals = [K_FWD_PTR, K_FWD_BITS, K_MARK, K_PIN, K_LOS];
    for log_side in [false, true] {
        for subset in 0u32..32 {
            let on_side: Vec<usize> = locals.iter().copied().filter(|k| subset & (1 << (k - 1)) != 0).collect();
            for order in permutations(&on_side) {
                let mut side: [Option<SideMetadataSpec>; 6] = [None; 6];
                let mut all = [in_header(0), in_header(1), in_header(2), in_header(3), in_header(4), in_header(5)];
                if log_side {
                    all[K_LOG] = side_first(K_LOG);
                }
                let mut prev: Option<MetadataSpec> = None;
                for &k in &order {
                    let m = match &prev {
                        None => side_first(k),
                        Some(p) => side_after(k, p),
                    };
                    all[k] = m;
                    prev = Some(m);
                }
                for k in 0..6 {
                    if let MetadataSpec::OnSide(s) = all[k] {
                        side[k] = Some(s);
                    }
                }
                let mut order_hash = 0u64;
                for &k in &order {
                    order_hash = mix(order_hash, k as u64 + 1);
                }
                out.push(Decl {
                    side,
                    text: format!(
                        "log={}; local side order: [{}]; the rest in the header",
                        if log_side { "side_first" } else { "in_header" },
                        order.iter().map(|&k| KIND_TAG[k]).collect::<Vec<_>>().join(", ")
                    ),
                    mask: (log_side as u64) | (subset as u64) << 1,
                    order_hash,
                });
            }
        }
    }
    out
}

/// Per plan: for every space the core specs and the VM spec kinds it uses.
#[derive(Clone)]
struct Template {
    plan: String,
    spaces: Vec<TemplateSpace>,
}
#[derive(Clone)]
struct TemplateSpace {
    name: String,
    core_global: Vec<SideMetadataSpec>,
    core_local: Vec<SideMetadataSpec>,
    vm_kinds: Vec<usize>,
}

fn kind_of_name(name: &str) -> Option<usize> {
    (0..6).find(|&k| match side_first(k) {
        MetadataSpec::OnSide(s) => s.name == name,
        _ => false,
    })
}

fn make_template(pc: &ParsedChild) -> Template {
    let mut spaces = vec![];
    for (name, g, l) in &pc.spaces {
        let mut ts = TemplateSpace { name: name.clone(), core_global: vec![], core_local: vec![], vm_kinds: vec![] };
        for s in g {
            match kind_of_name(s.name) {
                Some(k) => ts.vm_kinds.push(k),
                None => ts.core_global.push(*s),
            }
        }
        for s in l {
            match kind_of_name(s.name) {
                Some(k) => ts.vm_kinds.push(k),
                None => ts.core_local.push(*s),
            }
        }
        // The forwarding pointer cannot be on the side in a compiled VM on this host; the policies
        // that list the forwarding bits (CopySpace, ImmixSpace) list the forwarding pointer too.
        if ts.vm_kinds.contains(&K_FWD_BITS) && !ts.vm_kinds.contains(&K_FWD_PTR) {
            ts.vm_kinds.push(K_FWD_PTR);
        }
        ts.vm_kinds.sort();
        spaces.push(ts);
    }
    Template { plan: pc.plan.clone(), spaces }
}

fn config_of(t: &Template, d: &Decl) -> Config {
    let mut spaces = vec![];
    for ts in &t.spaces {
        let mut global: Vec<Spec> = ts.core_global.iter().map(spec_rel).collect();
        let mut local: Vec<Spec> = ts.core_local.iter().map(spec_rel).collect();
        for &k in &ts.vm_kinds {
            if let Some(s) = &d.side[k] {
                if k == K_LOG {
                    global.push(spec_rel(s));
                } else {
                    local.push(spec_rel(s));
                }
            }
        }
        spaces.push(SpaceCtx { name: ts.name.clone(), global, local });
    }
    let declared: Vec<Spec> = d.side.iter().flatten().map(spec_rel).collect();
    let vm_end = declared.iter().map(|s| s.end).max().unwrap_or(0);
    Config {
        label: format!("plan={} generated VM declaration {{{}}}", t.plan, d.text),
        spaces,
        declared_vm: declared,
        reserved: (0, LOCAL_SIDE_METADATA_VM_BASE_OFFSET.max(vm_end)),
    }
}

// ---- self test ---------------------------------------------------------------------------------

fn mk(name: &str, is_global: bool, offset: usize, log_bits: usize, log_region: usize) -> Spec {
    spec_rel(&SideMetadataSpec {
        name: leak(name),
        is_global,
        offset,
        log_num_of_bits: log_bits,
        log_bytes_in_region: log_region,
    })
}

fn selftest(rep: &mut Report) {
    // a clean two-space configuration in offset terms
    let g1 = mk("G1", true, 0, 0, 3); // 2^41 bytes
    let g2 = mk("G2", true, g1.end, 3, 22); // 2^25 bytes
    let l1 = mk("L1", false, g2.end, 3, 8); // 2^39
    let l2 = mk("L2", false, l1.end, 3, 15); // 2^32
    let l3 = mk("L3", false, l2.end, 0, 3); // 2^41
    let l4 = mk("L4", false, l3.end, 1, 3); // 2^42
    let clean = Config {
        label: "selftest".into(),
        spaces: vec![
            SpaceCtx { name: "a".into(), global: vec![g1.clone(), g2.clone()], local: vec![l1.clone(), l2.clone(), l3.clone()] },
            SpaceCtx { name: "b".into(), global: vec![g1.clone(), g2.clone()], local: vec![l3.clone(), l4.clone()] },
        ],
        declared_vm: vec![l3.clone(), l4.clone()],
        reserved: (0, l4.end),
    };
    let mut st = OracleStats::default();
    let base = oracle(&clean, &mut st);
    if !base.is_empty() {
        rep.inconclusive(format!("selftest: the oracle flags a clean configuration: {:?}", base));
        return;
    }
    let mut mutants: Vec<(&str, Config, &str)> = vec![];
    // two specs at the same offset in one context
    let mut m = clean.clone();
    m.spaces[0].local[1] = mk("L2", false, l1.offset, 3, 15);
    mutants.push(("same-offset", m, "c24:overlap:same-space:L1+L2"));
    // a spec placed past the reserved range
    let mut m = clean.clone();
    m.spaces[1].local[1] = mk("L4", false, l4.end, 1, 3);
    m.declared_vm[1] = m.spaces[1].local[1].clone();
    mutants.push(("past-reserved-range", m, "c24:outside-reserved-range:L4"));
    // a local chain that runs into the next spec (next one starts 8 bytes early)
    let mut m = clean.clone();
    let l3x = mk("L3", false, l2.end - 8, 0, 3);
    m.spaces[0].local[2] = l3x.clone();
    m.spaces[1].local[0] = l3x.clone();
    m.declared_vm[0] = l3x;
    mutants.push(("chain-runs-into-next", m, "c24:overlap:same-space:L2+L3"));
    // a chain whose second spec was laid out after the wrong predecessor (overlaps the third)
    let mut m = clean.clone();
    m.spaces[0].local.swap(0, 1);
    m.spaces[0].local[0] = mk("L2", false, g2.end, 3, 15);
    mutants.push(("swapped-without-rechaining", m, "c24:overlap:same-space:L1+L2"));
    // a global spec overlapping a local spec of another space only
    let mut m = clean.clone();
    let g2x = mk("G2", true, l4.offset, 3, 22);
    m.spaces[0].global[1] = g2x.clone();
    m.spaces[1].global[1] = g2x;
    mutants.push(("global-over-local", m, "c24:overlap:global-local:G2+L4"));
    // local specs of two different spaces overlapping
    let mut m = clean.clone();
    m.spaces[1].local[1] = mk("L4", false, l1.offset + 64, 1, 3);
    m.declared_vm[1] = m.spaces[1].local[1].clone();
    mutants.push(("local-local-cross-space", m, "c24:overlap:local-local:L1+L4"));
    // the same name with two layouts
    let mut m = clean.clone();
    m.spaces[1].global[1] = mk("G2", true, g2.offset, 3, 23);
    mutants.push(("same-name-two-layouts", m, "c24:same-name-different-layout:G2"));
    // VM declaration overlapping itself although unused
    let mut m = clean.clone();
    m.spaces[1].local.truncate(1);
    m.declared_vm[1] = mk("L4", false, l3.offset + 8, 1, 3);
    m.reserved = (0, l4.end.max(m.declared_vm[1].end));
    mutants.push(("vm-declaration-overlap", m, "c24:overlap:vm-declaration:L3+L4"));
    // reserved range too small for the VM specs
    let mut m = clean.clone();
    m.reserved = (0, l4.offset);
    mutants.push(("reservation-ignores-vm-specs", m, "c24:outside-reserved-range:L4"));
    // spec before the base
    let mut m = clean.clone();
    m.reserved = (4096, l4.end);
    mutants.push(("spec-below-base", m, "c24:outside-reserved-range:G1"));
    // a spec listed twice is observed (not a verdict)
    let mut m = clean.clone();
    m.spaces[0].local.push(l2.clone());
    let mut st2 = OracleStats::default();
    let got = oracle(&m, &mut st2);
    if !got.is_empty() || st2.duplicates.len() != 1 || !st.duplicates.is_empty() {
        rep.inconclusive(format!("selftest: duplicate-entry observation is off: {:?} {:?} {:?}", got, st2.duplicates, st.duplicates));
    }
    let mut caught = 0;
    for (name, cfg, want) in &mutants {
        let got = oracle(cfg, &mut st);
        if got.iter().any(|(sig, _)| sig == want) {
            caught += 1;
        } else {
            rep.inconclusive(format!(
                "selftest: mutant {:?} not caught (wanted {:?}, got {:?})",
                name,
                want,
                got.iter().map(|g| g.0.clone()).collect::<Vec<_>>()
            ));
        }
    }
    rep.count("selftest_mutants_total", mutants.len() as u64);
    rep.count("selftest_mutants_caught", caught);
}

// ---- driver --------------------------------------------------------------------------------------

fn spec_table(cfg_spaces: &[(String, Vec<SideMetadataSpec>, Vec<SideMetadataSpec>)]) -> J {
    let mut seen: Vec<SideMetadataSpec> = vec![];
    let mut rows = vec![];
    for (_, g, l) in cfg_spaces {
        for s in g.iter().chain(l.iter()) {
            if !seen.contains(s) {
                seen.push(*s);
                let users: Vec<String> = cfg_spaces
                    .iter()
                    .filter(|(_, g2, l2)| g2.contains(s) || l2.contains(s))
                    .map(|x| x.0.clone())
                    .collect();
                rows.push(J::s(format!(
                    "{} {} [{:#x},{:#x}) used by {}",
                    s.name,
                    if s.is_global { "G" } else { "L" },
                    s.offset,
                    s.upper_bound_offset(),
                    users.join(",")
                )));
            }
        }
    }
    J::Arr(rows)
}

pub fn run(args: &Args, rep: &mut Report) {
    if let Some(case) = args.get("case") {
        let case = case.to_string();
        child(&case, rep);
        return;
    }
    if cfg!(not(target_pointer_width = "64")) {
        rep.inconclusive("C24 monitor is written for 64-bit targets (contiguous local side metadata)");
        return;
    }
    selftest(rep);

    // ---- children: every plan under every compiled VM declaration ------------------------------
    let jobs: Vec<(&str, &str)> = VMS.iter().flat_map(|v| PLANS.iter().map(move |p| (*v, p.0))).collect();
    let results: Mutex<Vec<Option<ParsedChild>>> = Mutex::new(vec![None; jobs.len()]);
    let next = AtomicUsize::new(0);
    let seed = args.seed();
    let workers = args.usize_or("jobs", 8).clamp(1, 16);
    std::thread::scope(|s| {
        for _ in 0..workers {
            s.spawn(|| loop {
                let i = next.fetch_add(1, Ordering::SeqCst);
                if i >= jobs.len() {
                    break;
                }
                let pc = run_one_child(jobs[i].0, jobs[i].1, seed);
                results.lock().unwrap()[i] = Some(pc);
            });
        }
    });
    let results: Vec<ParsedChild> = results.into_inner().unwrap().into_iter().flatten().collect();
    let mut templates: Vec<Template> = vec![];
    let mut created = 0u64;
    let mut dup_notes: Vec<String> = vec![];
    for pc in &results {
        for (sig, d) in &pc.violations {
            rep.violation(sig.clone(), d.clone());
        }
        for w in &pc.inconclusive {
            rep.inconclusive(w.clone());
        }
        if !pc.done || pc.spaces.is_empty() {
            continue;
        }
        created += 1;
        let vm_idx = VMS.iter().position(|v| *v == pc.vm).unwrap_or(0) as u64;
        let plan_idx = PLANS.iter().position(|p| p.0 == pc.plan).unwrap_or(0) as u64;
        rep.eval(mix(0xC24, mix(vm_idx, plan_idx)));
        rep.count("spaces_exported", pc.spaces.len() as u64);
        rep.count("pairs_checked", pc.stats[0]);
        rep.count("specs_in_use", pc.stats[1]);
        rep.count("reserved_range_checks", pc.stats[2]);
        rep.count("meta_address_probes", pc.stats[3]);
        rep.count("duplicate_list_entries", pc.duplicates.len() as u64);
        for d in &pc.duplicates {
            let line = format!("plan={}: {}", pc.plan, d);
            if !dup_notes.contains(&line) {
                dup_notes.push(line);
            }
        }
        rep.count(&format!("plans_created_vm_{}", pc.vm), 1);
        if pc.vm == TEMPLATE_VM {
            templates.push(make_template(pc));
        }
        if rep.want_sample() && (pc.vm == "sideB" || pc.vm == "mixD") && (pc.plan == "GenImmix" || pc.plan == "MarkSweep" || pc.plan == "Compressor") {
            rep.sample(J::obj(vec![
                ("plan", J::s(pc.plan.clone())),
                ("vm", J::s(pc.vm.clone())),
                ("spaces", J::Arr(pc.spaces.iter().map(|s| J::s(s.0.clone())).collect())),
                ("reserved_bytes", J::i(pc.reserved.map(|r| r.1).unwrap_or(0) as u64)),
                ("tables_offset_ranges", spec_table(&pc.spaces)),
            ]));
        }
    }
    rep.count("plans_created", created);
    if !dup_notes.is_empty() {
        rep.note(format!(
            "observed, not a verdict (one table listed twice is not two aliasing tables; it is mapped twice and counted twice by calculate_reserved_pages): {}",
            dup_notes.join("; ")
        ));
    }
    rep.count("plan_vm_configurations", jobs.len() as u64);

    // The other compiled VMs must agree with the template about core specs and VM kinds per space.
    for p in PLANS.iter().filter(|p| !templates.iter().any(|t| t.plan == p.0)) {
        rep.inconclusive(format!(
            "run-time enumeration skips plan={}: it could not be exported under vm={}",
            p.0, TEMPLATE_VM
        ));
    }
    let mut bad_plans: Vec<String> = vec![];
    for pc in results.iter().filter(|pc| pc.done && !pc.spaces.is_empty() && pc.vm != TEMPLATE_VM) {
        let Some(t) = templates.iter().find(|t| t.plan == pc.plan) else { continue };
        let side_kinds: Vec<usize> = pc.declared.iter().filter_map(|s| kind_of_name(s.name)).collect();
        let other = make_template(pc);
        let mut same = other.spaces.len() == t.spaces.len();
        if same {
            for (a, b) in t.spaces.iter().zip(other.spaces.iter()) {
                let expect: Vec<usize> = a
                    .vm_kinds
                    .iter()
                    .copied()
                    .filter(|k| side_kinds.contains(k))
                    .collect();
                let got: Vec<usize> = b.vm_kinds.iter().copied().filter(|k| side_kinds.contains(k)).collect();
                if a.name != b.name || a.core_global != b.core_global || a.core_local != b.core_local || expect != got {
                    same = false;
                }
            }
        }
        rep.evaluations += 1;
        if !same {
            bad_plans.push(pc.plan.clone());
            rep.inconclusive(format!(
                "run-time enumeration skips plan={}: it exports different core specs / VM spec kinds under vm={} than under vm={}",
                pc.plan, pc.vm, TEMPLATE_VM
            ));
        }
    }
    templates.retain(|t| !bad_plans.contains(&t.plan));

    // ---- run-time enumeration ------------------------------------------------------------------
    rep.count("enum_plans", templates.len() as u64);
    if !templates.is_empty() {
        // mmtk-core's own size check decides which generated declarations are legal at all; it
        // needs the side metadata base (no MMTK instance in the parent).
        let prev = std::panic::take_hook();
        std::panic::set_hook(Box::new(|_| {}));
        let init = catch_unwind(|| mmtk::verif::initialize_side_metadata::<VmHdr>()).is_ok();
        std::panic::set_hook(prev);
        if !init {
            rep.inconclusive("run-time enumeration skipped: could not initialize the side metadata base in the parent");
        } else {
            let decls = all_declarations();
            rep.count("enum_declarations", decls.len() as u64);
            let mut st = OracleStats::default();
            for d in &decls {
                let g: Vec<SideMetadataSpec> = d.side[K_LOG].iter().copied().collect();
                let l: Vec<SideMetadataSpec> = d.side[1..].iter().flatten().copied().collect();
                match mmtk::verif::sanity_check_specs(&g, &l) {
                    Err(e) if e.contains("too big") || e.contains("Not enough global metadata space") => {
                        rep.count("enum_declarations_rejected_by_mmtk_size_check", 1);
                        if d.side[K_FWD_PTR].is_none() {
                            // not the documented header-only forwarding pointer: tell
                            rep.note(format!("mmtk-core's size check rejects the generated declaration {{{}}}: {}", d.text, e.lines().next().unwrap_or("")));
                        }
                        continue;
                    }
                    Err(_) => rep.count("enum_declarations_rejected_by_mmtk_overlap_check", 1),
                    Ok(()) => rep.count("enum_declarations_legal", 1),
                }
                for (pi, t) in templates.iter().enumerate() {
                    let cfg = config_of(t, d);
                    let found = oracle(&cfg, &mut st);
                    rep.eval(mix(0xE24, mix(pi as u64, mix(d.mask, d.order_hash))));
                    rep.count("enum_configurations", 1);
                    for (sig, detail) in found {
                        rep.violation(sig, detail);
                    }
                }
            }
            rep.count("enum_pairs_checked", st.pairs);
            rep.count("enum_reserved_range_checks", st.range_checks);
        }
    }

    rep.note("checked per plan x VM declaration: (1) within each space's SideMetadataContext no entry twice and different specs disjoint; (2) over the union of all contexts of the plan different specs (as values) disjoint, including global vs local and local vs local of different spaces, one name = one layout; (3) the VM's declared side specs pairwise disjoint; (4) all of them inside the reserved range [base, base+side_metadata_reserved_bytes()); (5) address_to_meta_address of the first/last region of the address space and of the heap range stays inside the spec's own range");
    rep.note("ranges are [get_starting_address(), upper_bound_address_for_contiguous()) in the children and [offset, upper_bound_offset()) in the enumeration; 64-bit only (all side metadata contiguous); a declared but unused VM spec is not compared with core specs in use");
    rep.note("compiled VM declarations: hdr (all in header), sideA (log side; local order fwd_bits, mark, pin, los), sideB (log side; los, pin, mark, fwd_bits), mixC (mark, los on side), mixD (log side; pin, fwd_bits on side); the forwarding pointer is in the header in all of them (a side forwarding pointer is 2^47 bytes: rejected by mmtk-core's 'Local metadata is too big' check and documented header-only)");
    rep.note("feature groups: only the features the units crate is built with (vo_bit, object_pinning); malloc_mark_sweep / marksweep_as_nonmoving / nogc_lock_free / immix_smaller_block etc. are not covered");
    rep.note("enumeration: reserved range of a generated declaration is modelled as [0, max(LOCAL_SIDE_METADATA_VM_BASE_OFFSET, max upper_bound_offset)) as in layout.rs::total_side_metadata_bytes; which VM spec kinds a space lists is taken from the sideA exports (forwarding pointer: assumed wherever the forwarding bits are listed)");
}
