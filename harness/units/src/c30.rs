//! C30: mmap chunk states only move Unmapped -> Quarantined -> Mapped.
//!
//! A private `ChunkStateMmapper` is driven with histories of legal `quarantine_address_range`,
//! `ensure_mapped` and `mark_as_mapped` calls over chunk-aligned and unaligned ranges inside an
//! arena that the harness reserved (PROT_NONE, MAP_NORESERVE) and that contains two 32 GiB slab
//! boundaries of the two-level state storage, so ranges may lie in one slab, span one boundary or
//! cover a whole slab plus parts of its two neighbours.  The model is the per-chunk state.
//!
//! After every operation:
//!  * every chunk of the (chunk-rounded) requested range is in the requested state
//!    (quarantine: Unmapped -> Quarantined, an already Mapped chunk stays Mapped),
//!  * no chunk outside the range changed, no state went backwards,
//!  * `is_mapped_address(a)` <=> model == Mapped (all chunks of the arena + just outside),
//!  * chunks Mapped through `ensure_mapped` are readable and writable (probed with pipe
//!    read/write so that a failure is EFAULT, not SIGSEGV).
use crate::wdog::{run_with_watchdog, Heartbeat};
use mmtk::util::os::{HugePageSupport, MmapAnnotation, MmapProtection};
use mmtk::util::Address;
use mmtk::verif::{ChunkStateMmapper, Mmapper};
use std::panic::{catch_unwind, AssertUnwindSafe};
use vcommon::{mix, Args, Report, Rng, J};

const LOG_CHUNK: usize = 22;
const CHUNK: usize = 1 << LOG_CHUNK;
const PAGE: usize = 4096;
const PAGES_IN_CHUNK: usize = CHUNK / PAGE;
const GIB: usize = 1 << 30;
const SLAB: usize = 32 * GIB; // LOG_MMAP_SLAB_BYTES = 22 + (48 - 22) / 2 = 35
const CHUNKS_PER_SLAB: usize = SLAB / CHUNK;
/// Chunks of margin modelled below the first and above the second slab boundary.
const MARGIN_CHUNKS: usize = GIB / CHUNK; // 256
const N_CHUNKS: usize = CHUNKS_PER_SLAB + 2 * MARGIN_CHUNKS;
/// Upper bound on bytes one `ensure_mapped` may newly commit-map (keeps overcommit accounting sane).
const MAX_NEW_MAPPED_CHUNKS: usize = 128;

const U: u8 = 0;
const Q: u8 = 1;
const M: u8 = 2;

struct Arena {
    /// address of modelled chunk 0 (== first boundary - 1 GiB)
    lo: usize,
    reserve_start: usize,
    reserve_len: usize,
    pipe: [i32; 2],
}

impl Arena {
    fn new() -> Option<Arena> {
        let len = 98 * GIB;
        let p = unsafe {
            libc::mmap(
                std::ptr::null_mut(),
                len,
                libc::PROT_NONE,
                libc::MAP_PRIVATE | libc::MAP_ANONYMOUS | libc::MAP_NORESERVE,
                -1,
                0,
            )
        };
        if p == libc::MAP_FAILED {
            return None;
        }
        let start = p as usize;
        let b1 = (start + GIB + SLAB - 1) / SLAB * SLAB;
        let lo = b1 - GIB;
        assert!(lo >= start && lo + N_CHUNKS * CHUNK + 2 * CHUNK <= start + len && lo >= start + 2 * CHUNK);
        let mut pipe = [0i32; 2];
        if unsafe { libc::pipe(pipe.as_mut_ptr()) } != 0 {
            return None;
        }
        Some(Arena {
            lo,
            reserve_start: start,
            reserve_len: len,
            pipe,
        })
    }
    fn addr(&self, chunk: usize) -> usize {
        self.lo + chunk * CHUNK
    }
    /// Put the whole reservation back to PROT_NONE/NORESERVE (drops everything mapped inside).
    fn reset(&self) -> bool {
        let p = unsafe {
            libc::mmap(
                self.reserve_start as *mut _,
                self.reserve_len,
                libc::PROT_NONE,
                libc::MAP_PRIVATE | libc::MAP_ANONYMOUS | libc::MAP_NORESERVE | libc::MAP_FIXED,
                -1,
                0,
            )
        };
        p != libc::MAP_FAILED
    }
    /// Unmap `[c0, c1)` chunks from the harness reservation so that the mmapper can map there
    /// with MAP_FIXED_NOREPLACE.
    fn punch(&self, c0: usize, c1: usize) -> bool {
        unsafe { libc::munmap(self.addr(c0) as *mut _, (c1 - c0) * CHUNK) == 0 }
    }
    /// Map `[c0, c1)` read-write by the harness itself (for `mark_as_mapped`).
    fn map_rw(&self, c0: usize, c1: usize) -> bool {
        let p = unsafe {
            libc::mmap(
                self.addr(c0) as *mut _,
                (c1 - c0) * CHUNK,
                libc::PROT_READ | libc::PROT_WRITE,
                libc::MAP_PRIVATE | libc::MAP_ANONYMOUS | libc::MAP_NORESERVE | libc::MAP_FIXED,
                -1,
                0,
            )
        };
        p != libc::MAP_FAILED
    }
    /// Can the hole `[c0,c1)` be mapped with MAP_FIXED_NOREPLACE right now?
    fn hole_is_free(&self, c0: usize, c1: usize) -> bool {
        let p = unsafe {
            libc::mmap(
                self.addr(c0) as *mut _,
                (c1 - c0) * CHUNK,
                libc::PROT_NONE,
                libc::MAP_PRIVATE | libc::MAP_ANONYMOUS | libc::MAP_NORESERVE | libc::MAP_FIXED_NOREPLACE,
                -1,
                0,
            )
        };
        p != libc::MAP_FAILED && p as usize == self.addr(c0)
    }
    /// (readable, writable) of the byte at `a`, without risking a SIGSEGV.
    fn probe_rw(&self, a: usize) -> (bool, bool) {
        unsafe {
            let w = libc::write(self.pipe[1], a as *const _, 1);
            if w != 1 {
                return (false, false);
            }
            let r = libc::read(self.pipe[0], a as *mut _, 1);
            if r != 1 {
                // drain the byte
                let mut b = 0u8;
                libc::read(self.pipe[0], &mut b as *mut u8 as *mut _, 1);
                return (true, false);
            }
            (true, true)
        }
    }
}

#[derive(Clone, Copy, Debug, PartialEq)]
enum Op {
    Quarantine,
    Ensure,
    Mark,
}

impl Op {
    fn name(self) -> &'static str {
        match self {
            Op::Quarantine => "quarantine_address_range",
            Op::Ensure => "ensure_mapped",
            Op::Mark => "mark_as_mapped",
        }
    }
}

struct LogEntry {
    op: Op,
    start_off: usize, // byte offset from arena.lo
    bytes: usize,
}

fn fmt_log(arena: &Arena, log: &[LogEntry]) -> String {
    let b1 = MARGIN_CHUNKS * CHUNK;
    let mut s = format!(
        "arena_lo={:#x} (slab boundaries at lo+{:#x} and lo+{:#x}); history: ",
        arena.lo,
        b1,
        b1 + SLAB
    );
    let skip = log.len().saturating_sub(12);
    if skip > 0 {
        s.push_str(&format!("[{} earlier ops omitted] ", skip));
    }
    for e in &log[skip..] {
        s.push_str(&format!(
            "{}(lo+{:#x}, {} bytes = chunks {}..{}); ",
            e.op.name(),
            e.start_off,
            e.bytes,
            e.start_off / CHUNK,
            (e.start_off + e.bytes + CHUNK - 1) / CHUNK
        ));
    }
    s
}

fn runs(model: &[u8], c0: usize, c1: usize, state: u8) -> Vec<(usize, usize)> {
    let mut out = vec![];
    let mut i = c0;
    while i < c1 {
        if model[i] == state {
            let s = i;
            while i < c1 && model[i] == state {
                i += 1;
            }
            out.push((s, i));
        } else {
            i += 1;
        }
    }
    out
}

fn slab_class(c0: usize, c1: usize) -> usize {
    // number of slab boundaries strictly inside (c0, c1)
    let b1 = MARGIN_CHUNKS;
    let b2 = MARGIN_CHUNKS + CHUNKS_PER_SLAB;
    (c0 < b1 && c1 > b1) as usize + (c0 < b2 && c1 > b2) as usize
}

fn pick_range(rng: &mut Rng) -> (usize, usize) {
    let b1 = MARGIN_CHUNKS;
    let b2 = MARGIN_CHUNKS + CHUNKS_PER_SLAB;
    let (c0, c1) = match rng.below(20) {
        0..=6 => {
            let s = b1 - 12 + rng.usize_below(17);
            (s, s + 1 + rng.usize_below(24))
        }
        7..=10 => {
            let s = b2 - 12 + rng.usize_below(17);
            (s, s + 1 + rng.usize_below(24))
        }
        11..=15 => {
            let s = rng.usize_below(N_CHUNKS - 16);
            (s, s + 1 + rng.usize_below(16))
        }
        16 => {
            let s = rng.usize_below(N_CHUNKS - 700);
            (s, s + 1 + rng.usize_below(600))
        }
        17 => {
            // ends exactly at / starts exactly at a boundary
            if rng.chance(1, 2) {
                let b = if rng.chance(1, 2) { b1 } else { b2 };
                (b - 1 - rng.usize_below(10), b)
            } else {
                let b = if rng.chance(1, 2) { b1 } else { b2 };
                (b, b + 1 + rng.usize_below(10))
            }
        }
        _ => {
            // a whole slab plus parts of both neighbours (or exactly the slab)
            let s = b1 - rng.usize_below(9);
            let e = b2 + rng.usize_below(9);
            (s, e)
        }
    };
    (c0, c1.min(N_CHUNKS))
}

fn one_history(arena: &Arena, rng: &mut Rng, rep: &mut Report, hb: &Heartbeat, n_ops: usize) -> bool {
    let mm = ChunkStateMmapper::new();
    let anno = MmapAnnotation::Misc { name: "verif-c30" };
    let mut model = vec![U; N_CHUNKS];
    let mut prev_actual = vec![U; N_CHUNKS];
    let mut ensure_mapped_chunks = vec![false; N_CHUNKS];
    let mut log: Vec<LogEntry> = vec![];
    let addr = |x: usize| unsafe { Address::from_usize(x) };
    rep.count("histories", 1);

    for _ in 0..n_ops {
        let (c0, c1) = pick_range(rng);
        // byte range whose chunk-rounding is exactly [c0, c1)
        let aligned_start = rng.chance(1, 2);
        let aligned_end = rng.chance(1, 2);
        let start_off = c0 * CHUNK + if aligned_start { 0 } else { PAGE * (1 + rng.usize_below(PAGES_IN_CHUNK - 1)) };
        let mut end_off = c1 * CHUNK - if aligned_end { 0 } else { PAGE * (1 + rng.usize_below(PAGES_IN_CHUNK - 1)) };
        if end_off <= start_off {
            // single chunk with both ends inside: make it at least one page
            end_off = (start_off + PAGE).min(c1 * CHUNK);
        }
        let bytes = end_off - start_off;
        debug_assert!(bytes > 0 && start_off / CHUNK == c0 && (end_off + CHUNK - 1) / CHUNK == c1);

        let has = |s: u8| model[c0..c1].iter().any(|&x| x == s);
        let (has_u, has_q, has_m) = (has(U), has(Q), has(M));
        let new_map_chunks = model[c0..c1].iter().filter(|&&x| x != M).count();
        // legal operations on this range
        let mut legal = vec![];
        if new_map_chunks <= MAX_NEW_MAPPED_CHUNKS {
            legal.push(Op::Ensure);
            legal.push(Op::Ensure);
        }
        if !has_q {
            // Never quarantine an already quarantined chunk (panics by design).  Mapped chunks in
            // the range are tolerated by the implementation ("Already mapped") and must stay Mapped.
            if !has_m || rng.chance(1, 3) {
                legal.push(Op::Quarantine);
                legal.push(Op::Quarantine);
            }
            // mark_as_mapped only on memory the harness mapped itself (Unmapped chunks are mapped
            // by the harness right before the call) or that is already Mapped.
            legal.push(Op::Mark);
        }
        if legal.is_empty() {
            continue;
        }
        let op = *rng.pick(&legal);
        let start = arena.lo + start_off;

        // prepare the OS side
        let mut prep_ok = true;
        match op {
            Op::Quarantine | Op::Ensure => {
                for (s, e) in runs(&model, c0, c1, U) {
                    prep_ok &= arena.punch(s, e);
                }
            }
            Op::Mark => {
                for (s, e) in runs(&model, c0, c1, U) {
                    prep_ok &= arena.map_rw(s, e);
                }
            }
        }
        if !prep_ok {
            rep.inconclusive("harness could not prepare the arena (munmap/mmap failed)");
            return false;
        }
        log.push(LogEntry { op, start_off, bytes });
        let violations_before = rep.violation_count;
        let pages = bytes / PAGE;
        let sc = slab_class(c0, c1);
        hb.enter(&format!("mmapper:{}", op.name()), || fmt_log(arena, &log));
        let result = catch_unwind(AssertUnwindSafe(|| match op {
            Op::Quarantine => mm
                .quarantine_address_range(addr(start), pages, HugePageSupport::No, &anno)
                .map_err(|e| (e.error.raw_os_error(), e.to_string())),
            Op::Ensure => mm
                .ensure_mapped(addr(start), pages, HugePageSupport::No, MmapProtection::ReadWrite, &anno)
                .map_err(|e| (e.error.raw_os_error(), e.to_string())),
            Op::Mark => {
                mm.mark_as_mapped(addr(start), bytes);
                Ok(())
            }
        }));
        hb.leave();
        rep.count(
            match op {
                Op::Quarantine => "op_quarantine",
                Op::Ensure => "op_ensure_mapped",
                Op::Mark => "op_mark_as_mapped",
            },
            1,
        );
        rep.count(["range_in_one_slab", "range_spans_one_boundary", "range_spans_two_boundaries"][sc], 1);
        if !aligned_start || !aligned_end {
            rep.count("range_unaligned", 1);
        }
        if op == Op::Quarantine && has_m {
            rep.count("op_quarantine_over_mapped", 1);
        }
        match result {
            Err(_) => {
                rep.violation(
                    format!("mmapper:{}:panic:boundaries={}", op.name(), sc),
                    format!("pre-states U={} Q={} M={}; {}", has_u, has_q, has_m, fmt_log(arena, &log)),
                );
                return true; // the transition lock is poisoned now; start a new history
            }
            Ok(Err((errno, msg))) => {
                if errno == Some(libc::EEXIST) {
                    // The model agreed with the recorded states before this call, so the mmapper
                    // must have issued NOREPLACE mmaps exactly on the holes the harness punched.
                    // Find the first model-Unmapped run that is still recorded Unmapped and test
                    // whether that hole is really free.
                    let mut verdict_free = None;
                    for (s, e) in runs(&model, c0, c1, U) {
                        if mm.verif_get_state(addr(arena.addr(s))) == U {
                            verdict_free = Some((s, e, arena.hole_is_free(s, e)));
                            break;
                        }
                    }
                    match verdict_free {
                        Some((s, e, true)) => rep.violation(
                            format!("mmapper:{}:EEXIST-on-free-hole:boundaries={}", op.name(), sc),
                            format!("chunks {}..{} were free but the call failed: {}; {}", s, e, msg, fmt_log(arena, &log)),
                        ),
                        _ => rep.inconclusive(format!("mmap EEXIST (foreign mapping in the arena?): {}", msg)),
                    }
                } else {
                    rep.inconclusive(format!("{} failed in the OS: {}", op.name(), msg));
                }
                return false;
            }
            Ok(Ok(())) => {}
        }

        // update the model
        let before = model.clone();
        for c in c0..c1 {
            model[c] = match op {
                Op::Quarantine => {
                    if model[c] == U {
                        Q
                    } else {
                        model[c]
                    }
                }
                Op::Ensure | Op::Mark => M,
            };
            if op == Op::Ensure && before[c] != M {
                ensure_mapped_chunks[c] = true;
            }
        }
        let changed = (c0..c1).any(|c| before[c] != model[c]);
        let len_bucket = match c1 - c0 {
            1 => 0u64,
            2..=8 => 1,
            9..=64 => 2,
            65..=1000 => 3,
            _ => 4,
        };
        if changed {
            rep.eval(mix(
                mix(mix(op as u64, sc as u64), mix(aligned_start as u64, aligned_end as u64)),
                mix((has_u as u64) | (has_q as u64) << 1 | (has_m as u64) << 2, len_bucket),
            ));
        } else {
            rep.evaluations += 1;
        }

        // ---- checks ------------------------------------------------------------------------
        let ctx = |c: usize| {
            format!(
                "chunk {} (lo+{:#x}) op range chunks {}..{} pre-state {} ; {}",
                c,
                c * CHUNK,
                c0,
                c1,
                before.get(c).copied().unwrap_or(9),
                fmt_log(arena, &log)
            )
        };
        let mut flagged = [false; 4];
        for c in 0..N_CHUNKS {
            let a = arena.addr(c);
            let actual = mm.verif_get_state(addr(a));
            let inside = c >= c0 && c < c1;
            if actual != model[c] {
                let k = if inside { 0 } else { 1 };
                if !flagged[k] {
                    flagged[k] = true;
                    rep.violation(
                        format!(
                            "mmapper:{}:{}:boundaries={}",
                            op.name(),
                            if inside { "in-range-chunk-not-in-requested-state" } else { "chunk-outside-range-changed" },
                            sc
                        ),
                        format!("recorded state {} expected {}; {}", actual, model[c], ctx(c)),
                    );
                }
            }
            if actual < prev_actual[c] && !flagged[2] {
                flagged[2] = true;
                rep.violation(
                    format!("mmapper:{}:state-went-backwards:boundaries={}", op.name(), sc),
                    format!("recorded state {} -> {}; {}", prev_actual[c], actual, ctx(c)),
                );
            }
            prev_actual[c] = actual;
            // is_mapped_address at the chunk start for all chunks, and at a random interior
            // address for chunks in and around the range
            let near = c + 3 >= c0 && c < c1 + 3;
            let probe = if near { a + rng.usize_below(CHUNK) } else { a };
            let ima = mm.is_mapped_address(addr(probe));
            if ima != (model[c] == M) && !flagged[3] {
                flagged[3] = true;
                rep.violation(
                    format!(
                        "mmapper:is_mapped_address:{}:after-{}:boundaries={}",
                        if ima { "true-for-unmapped" } else { "false-for-mapped" },
                        op.name(),
                        sc
                    ),
                    format!("is_mapped_address(lo+{:#x}) = {} but model state {}; {}", probe - arena.lo, ima, model[c], ctx(c)),
                );
            }
        }
        rep.evaluations += 1;
        // just outside the modelled arena (never touched): must be Unmapped / not mapped
        for a in [arena.lo - CHUNK, arena.lo - 1, arena.lo + N_CHUNKS * CHUNK, arena.lo + N_CHUNKS * CHUNK + CHUNK] {
            if mm.verif_get_state(addr(a / CHUNK * CHUNK)) != U || mm.is_mapped_address(addr(a)) {
                rep.violation(
                    format!("mmapper:{}:chunk-outside-arena-changed", op.name()),
                    format!("address {:#x}; {}", a, fmt_log(arena, &log)),
                );
            }
        }
        // readable + writable for chunks Mapped through ensure_mapped
        if op == Op::Ensure {
            let mut bad = None;
            for c in c0..c1 {
                if !ensure_mapped_chunks[c] {
                    continue; // mapped by the harness (mark_as_mapped): not the mmapper's business
                }
                // First touch of a page is expensive (and commits it): probe every chunk that this
                // call newly mapped at one address (first byte / last byte / random), and chunks
                // that were Mapped before only now and then.
                if before[c] == M && !rng.chance(1, 8) {
                    continue;
                }
                let o = match rng.below(4) {
                    0 => 0usize,
                    1 => CHUNK - 1,
                    _ => PAGE * rng.usize_below(PAGES_IN_CHUNK) + rng.usize_below(PAGE),
                };
                let (r, w) = arena.probe_rw(arena.addr(c) + o);
                if !(r && w) && bad.is_none() {
                    bad = Some((c, o, r, w));
                }
                rep.count("rw_probed_chunks", 1);
            }
            if let Some((c, o, r, w)) = bad {
                rep.violation(
                    format!("mmapper:ensure_mapped:mapped-chunk-not-read-write:boundaries={}", sc),
                    format!("offset {:#x} readable={} writable={}; {}", o, r, w, ctx(c)),
                );
            }
        }
        if rep.violation_count > violations_before {
            // model and mmapper have diverged: later mismatches would only be echoes
            return true;
        }
        if rep.want_sample() && changed && sc > 0 {
            rep.sample(J::obj(vec![
                ("op", J::s(op.name())),
                ("chunks", J::Arr(vec![J::i(c0 as u64), J::i(c1 as u64)])),
                ("start_off", J::i(start_off as u64)),
                ("bytes", J::i(bytes as u64)),
                ("slab_boundaries_crossed", J::i(sc as u64)),
            ]));
        }
    }
    true
}


// ------------------------------------------------------------------------------------------
// Concurrent histories: several threads call ensure_mapped over overlapping ranges
// ------------------------------------------------------------------------------------------

/// Write `token` to `a` / read a u64 from `a` through a private pipe (EFAULT instead of SIGSEGV).
fn pipe_store(pipe: &[i32; 2], a: usize, token: u64) -> bool {
    unsafe {
        if libc::write(pipe[1], &token as *const u64 as *const _, 8) != 8 {
            return false;
        }
        if libc::read(pipe[0], a as *mut _, 8) != 8 {
            let mut b = 0u64;
            libc::read(pipe[0], &mut b as *mut u64 as *mut _, 8);
            return false;
        }
        true
    }
}
fn pipe_load(pipe: &[i32; 2], a: usize) -> Option<u64> {
    unsafe {
        if libc::write(pipe[1], a as *const _, 8) != 8 {
            return None;
        }
        let mut b = 0u64;
        if libc::read(pipe[0], &mut b as *mut u64 as *mut _, 8) != 8 {
            return None;
        }
        Some(b)
    }
}

struct ConcThreadOut {
    calls: u64,
    chunks_checked: u64,
    tokens_rechecked: u64,
    viol: Vec<(String, String)>,
    /// (first chunk, end chunk, errno, message) of failed calls
    failed: Vec<(usize, usize, Option<i32>, String)>,
    /// chunks covered by a successful call of this thread
    mapped_ok: Vec<usize>,
}

/// A region of `REG` chunks around a slab boundary starts as a mix of Unmapped (holes punched in
/// the reservation) and Quarantined chunks on a fresh mmapper (so the slab tables of both slabs
/// are allocated by racing calls).  Threads then call `ensure_mapped` on random overlapping
/// sub-ranges.  Chunk states only move forward, so whatever the other threads do, when a call
/// returns Ok every chunk of its range must be recorded Mapped, `is_mapped_address` must hold and
/// the memory must be writable; each thread leaves a token in every chunk it covered (at an
/// offset of its own) and the token must still be there later: a chunk that is mapped twice
/// (two threads both acting on the same pre-state) loses its contents or fails with EEXIST.
fn concurrent_history(arena: &Arena, rng: &mut Rng, rep: &mut Report, hb: &Heartbeat) -> bool {
    const REG: usize = 40;
    const THREADS: usize = 4;
    let b = if rng.chance(1, 2) { MARGIN_CHUNKS } else { MARGIN_CHUNKS + CHUNKS_PER_SLAB };
    let base = b - REG / 2 + rng.usize_below(9) - 4;
    let mm = ChunkStateMmapper::new();
    let anno = MmapAnnotation::Misc { name: "verif-c30c" };
    let addr = |x: usize| unsafe { Address::from_usize(x) };
    // pre-state: runs of U and Q
    let mut pre = vec![U; REG];
    let mut i = 0;
    while i < REG {
        let len = 1 + rng.usize_below(6);
        let st = if rng.chance(1, 2) { Q } else { U };
        for k in i..(i + len).min(REG) {
            pre[k] = st;
        }
        i += len;
    }
    let iters = 10 + rng.usize_below(8);
    let seed = rng.next();
    let start_gate = std::sync::Barrier::new(THREADS + 1);
    let ready_gate = std::sync::Barrier::new(THREADS + 1);
    let (mm_r, pre_r, start_r, ready_r) = (&mm, &pre, &start_gate, &ready_gate);
    let lo = arena.lo;
    let mut prep_failed = false;
    let outs: Vec<ConcThreadOut> = std::thread::scope(|s| {
        let hs: Vec<_> = (0..THREADS)
            .map(|t| {
                s.spawn(move || {
                    // everything this thread allocates is allocated before the holes exist, so
                    // that neither its stack nor its malloc arena can land in one of them
                    let mut out = ConcThreadOut { calls: 0, chunks_checked: 0, tokens_rechecked: 0, viol: Vec::with_capacity(8), failed: Vec::with_capacity(32), mapped_ok: Vec::with_capacity(REG * 32) };
                    let mut tokens: Vec<(usize, u64)> = Vec::with_capacity(REG * 32);
                    let mut pipe = [0i32; 2];
                    let pipe_ok = unsafe { libc::pipe(pipe.as_mut_ptr()) } == 0;
                    let mut rng = Rng::new(mix(seed, t as u64 + 1));
                    let anno = MmapAnnotation::Misc { name: "verif-c30c" };
                    ready_r.wait();
                    start_r.wait();
                    if !pipe_ok {
                        return out;
                    }
                    for it in 0..iters {
                        let c0 = rng.usize_below(REG);
                        let c1 = (c0 + 1 + rng.usize_below(10)).min(REG);
                        let start_off = (base + c0) * CHUNK + if rng.chance(1, 2) { 0 } else { PAGE * (1 + rng.usize_below(PAGES_IN_CHUNK - 1)) };
                        let mut end_off = (base + c1) * CHUNK - if rng.chance(1, 2) { 0 } else { PAGE * (1 + rng.usize_below(PAGES_IN_CHUNK - 1)) };
                        if end_off <= start_off {
                            end_off = (start_off + PAGE).min((base + c1) * CHUNK);
                        }
                        let pages = (end_off - start_off) / PAGE;
                        let r = catch_unwind(AssertUnwindSafe(|| {
                            mm_r.ensure_mapped(unsafe { Address::from_usize(lo + start_off) }, pages, HugePageSupport::No, MmapProtection::ReadWrite, &anno)
                                .map_err(|e| (e.error.raw_os_error(), e.to_string()))
                        }));
                        out.calls += 1;
                        match r {
                            Err(_) => {
                                if out.viol.len() < 4 {
                                    out.viol.push(("mmapper:concurrent:ensure_mapped:panic".to_string(), format!("thread {} iteration {} range chunks {}..{} of the region (region base chunk {})", t, it, c0, c1, base)));
                                }
                                return out;
                            }
                            Ok(Err((errno, msg))) => out.failed.push((c0, c1, errno, msg)),
                            Ok(Ok(())) => {
                                for c in c0..c1 {
                                    let a = lo + (base + c) * CHUNK;
                                    out.chunks_checked += 1;
                                    out.mapped_ok.push(c);
                                    let st = mm_r.verif_get_state(unsafe { Address::from_usize(a) });
                                    let ima = mm_r.is_mapped_address(unsafe { Address::from_usize(a + 8 * t) });
                                    let token = ((t as u64 + 1) << 48) | ((it as u64) << 32) | (c as u64 + 1);
                                    let slot = a + 64 * (c % 7) + 8 * t;
                                    let stored = pipe_store(&pipe, slot, token);
                                    let mut bad = None;
                                    if st != M {
                                        bad = Some(("in-range-chunk-not-mapped-when-the-call-returned", format!("recorded state {}", st)));
                                    } else if !ima {
                                        bad = Some(("is_mapped_address-false-for-mapped", String::new()));
                                    } else if !stored {
                                        bad = Some(("mapped-chunk-not-writable", "EFAULT".to_string()));
                                    }
                                    if stored {
                                        tokens.push((slot, token));
                                    }
                                    if let Some((k, d)) = bad {
                                        if out.viol.len() < 4 {
                                            out.viol.push((format!("mmapper:concurrent:ensure_mapped:{}", k), format!("thread {} iteration {} call range chunks {}..{}, chunk {} of the region (region base chunk {}, pre-state {}) {}", t, it, c0, c1, c, base, pre_r[c], d)));
                                        }
                                    }
                                }
                            }
                        }
                        // tokens written earlier must still be there (overwritten only by myself)
                        let mut seen = std::collections::HashSet::new();
                        for &(slot, token) in tokens.iter().rev() {
                            if !seen.insert(slot) {
                                continue;
                            }
                            out.tokens_rechecked += 1;
                            let got = pipe_load(&pipe, slot);
                            if got != Some(token) && out.viol.len() < 4 {
                                out.viol.push(("mmapper:concurrent:mapped-chunk-lost-its-contents".to_string(), format!("thread {}: token {:#x} written to lo+{:#x} after ensure_mapped returned reads back as {:x?} at iteration {} (the chunk was mapped again or unmapped); region base chunk {}", t, token, slot - lo, got, it, base)));
                            }
                        }
                    }
                    unsafe {
                        libc::close(pipe[0]);
                        libc::close(pipe[1]);
                    }
                    out
                })
            })
            .collect();
        // all threads exist and have allocated: now create the pre-state
        ready_gate.wait();
        let mut ok = arena.punch(base, base + REG);
        if ok {
            for (s0, e0) in runs(&pre, 0, REG, Q) {
                hb.enter("mmapper:concurrent:quarantine_address_range", || format!("pre-state chunks {}..{}", base + s0, base + e0));
                let r = catch_unwind(AssertUnwindSafe(|| mm.quarantine_address_range(addr(arena.addr(base + s0)), (e0 - s0) * PAGES_IN_CHUNK, HugePageSupport::No, &anno)));
                hb.leave();
                ok &= matches!(r, Ok(Ok(())));
            }
        }
        prep_failed = !ok;
        hb.enter("mmapper:concurrent:ensure_mapped", || format!("{} threads over {} chunks at region base chunk {}", THREADS, REG, base));
        start_gate.wait();
        let outs = hs.into_iter().map(|h| h.join().expect("C30 concurrent thread died")).collect();
        hb.leave();
        outs
    });
    if prep_failed {
        rep.inconclusive("concurrent history: the pre-state could not be set up (munmap / quarantine failed)");
        return false;
    }
    rep.count("concurrent_histories", 1);
    let mut covered = vec![false; REG];
    for o in &outs {
        for &c in &o.mapped_ok {
            covered[c] = true;
        }
    }
    let mut cont = true;
    for (t, o) in outs.iter().enumerate() {
        rep.count("concurrent_ensure_mapped_calls", o.calls);
        rep.count("concurrent_chunks_checked", o.chunks_checked);
        rep.count("concurrent_tokens_rechecked", o.tokens_rechecked);
        rep.evaluations += o.calls;
        for (sg, d) in &o.viol {
            rep.violation(sg.clone(), d.clone());
        }
        for (c0, c1, errno, msg) in &o.failed {
            // A failure is the mmapper's only if one of the chunks was (also) mapped by another
            // call of this history: the two calls were not serialised.
            let raced = (*c0..*c1).any(|c| covered[c]);
            if *errno == Some(libc::EEXIST) && raced {
                rep.violation(
                    "mmapper:concurrent:ensure_mapped:EEXIST-on-a-chunk-another-call-mapped",
                    format!("thread {} range chunks {}..{} of the region at base chunk {}: {} (another ensure_mapped call of this history mapped a chunk of the range: the calls acted on the same pre-state)", t, c0, c1, base, msg),
                );
            } else {
                rep.inconclusive(format!("concurrent history: ensure_mapped failed in the OS: {}", msg));
                cont = false;
            }
        }
    }
    if !cont {
        // a call failed in the OS half-way: the states of its range are not determined
        return false;
    }
    // quiescent: covered chunks Mapped, uncovered ones still in their pre-state, neighbours untouched
    for c in 0..REG {
        let st = mm.verif_get_state(addr(arena.addr(base + c)));
        let want = if covered[c] { M } else { pre[c] };
        if st != want {
            rep.violation(
                "mmapper:concurrent:final-state-differs",
                format!("chunk {} of the region at base chunk {}: recorded state {} expected {} (pre-state {}, covered by a successful call: {})", c, base, st, want, pre[c], covered[c]),
            );
            break;
        }
    }
    for a in [arena.addr(base) - CHUNK, arena.addr(base + REG)] {
        if mm.verif_get_state(addr(a)) != U {
            rep.violation("mmapper:concurrent:chunk-outside-range-changed", format!("address lo+{:#x}, region base chunk {}", a - arena.lo, base));
        }
    }
    rep.key(mix(0xC30C, mix(b as u64, pre.iter().filter(|&&x| x == Q).count() as u64)));
    cont
}

pub fn run(args: &Args, rep: &mut Report) {
    let mut rng = Rng::new(args.seed() ^ 0xC30);
    let arena = match Arena::new() {
        Some(a) => a,
        None => {
            rep.inconclusive("could not reserve a 98 GiB PROT_NONE/NORESERVE arena");
            return;
        }
    };
    let prev = std::panic::take_hook();
    std::panic::set_hook(Box::new(|_| {}));
    let (histories, ops) = if args.thorough() { (2500, 60) } else { (150, 50) };
    run_with_watchdog(rep, |rep, hb| {
        for _ in 0..histories {
            let n = 10 + rng.usize_below(ops);
            let cont = one_history(&arena, &mut rng, rep, hb, n);
            hb.tick();
            if !arena.reset() {
                rep.inconclusive("could not reset the arena");
                break;
            }
            if !cont && rep.inconclusive.len() > 5 {
                break;
            }
        }
        let conc = if args.thorough() { 1500 } else { 120 };
        for _ in 0..conc {
            let cont = concurrent_history(&arena, &mut rng, rep, hb);
            hb.tick();
            if !arena.reset() {
                rep.inconclusive("could not reset the arena");
                break;
            }
            if !cont && rep.inconclusive.len() > 5 {
                break;
            }
        }
    });
    std::panic::set_hook(prev);
    unsafe {
        libc::munmap(arena.reserve_start as *mut _, arena.reserve_len);
        libc::close(arena.pipe[0]);
        libc::close(arena.pipe[1]);
    }
    rep.note(format!(
        "slab = 32 GiB ({} chunks); modelled arena = 1 GiB + one whole slab + 1 GiB around two slab boundaries; zero-length requests are left out (legality unclear)",
        CHUNKS_PER_SLAB
    ));
    rep.note("quarantine is never issued over a Quarantined chunk (panics by design); over Mapped chunks it is issued occasionally (the implementation tolerates it) and the chunk must stay Mapped");
    rep.note(format!("ensure_mapped is limited to ranges that newly map at most {} chunks; whole-slab ranges are exercised by quarantine and mark_as_mapped, and by ensure_mapped once most of the range is Mapped", MAX_NEW_MAPPED_CHUNKS));
}
