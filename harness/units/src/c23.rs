//! C23: in-header metadata fields are isolated and report their own previous value.
//!
//! Model: the header is a bit vector (little-endian bit numbering: bit `b` relative to the header
//! address lives in byte `b >> 3`, position `b & 7`).  A 64-byte, 16-aligned Rust buffer holds the
//! header; the "header address" is byte 16, so bit offsets `-64..=191` touch bytes `8..40` and the
//! remaining bytes are guard bytes.  Before each operation the buffer is filled (randomly /
//! adversarially), the real `HeaderMetadataSpec` accessor is run on it, and
//!   (a) the returned value is compared with the model's previous value of the *field*
//!       (for masked accesses: of the masked bits of the field), and
//!   (b) the whole buffer is compared with the model's buffer in which only the field's
//!       (masked) bits were updated.
//!
//! Legal specs (what `assert_spec` admits): 1..=7-bit fields that stay inside one byte, accessed
//! through any `MetadataValue` type; 8/16/32/64-bit fields whose bit offset is aligned to the
//! field width, accessed through the integer type of exactly that width (u64 and usize for 64).
//! Masks only for >= 8-bit fields and only for load/store/compare_exchange (the only accessors
//! that take one).  Values passed for sub-byte fields are always `< 2^bits` (precondition of
//! `set_bits_to_u8`), compare_exchange old/new values of masked fields lie inside the mask.
use mmtk::util::metadata::header_metadata::HeaderMetadataSpec;
use mmtk::util::metadata::MetadataValue;
use mmtk::util::Address;
use std::cell::Cell;
use std::panic::{catch_unwind, AssertUnwindSafe};
use std::sync::atomic::Ordering;
use vcommon::{mix, Args, Report, Rng, J};

const BUF: usize = 64;
/// Byte index of the header address inside the buffer.
const HDR: usize = 16;
const MIN_BIT: isize = -64;
const MAX_BIT: isize = 191;

#[repr(C, align(16))]
struct Buf([u8; BUF]);

/// Integer types usable as `MetadataValue`, with lossless conversions from/to the model's u64.
trait W: MetadataValue {
    const ID: u64;
    const NAME: &'static str;
    fn from64(x: u64) -> Self;
    fn to64(self) -> u64;
}
macro_rules! impl_w {
    ($t:ty, $id:expr) => {
        impl W for $t {
            const ID: u64 = $id;
            const NAME: &'static str = stringify!($t);
            fn from64(x: u64) -> Self {
                x as $t
            }
            fn to64(self) -> u64 {
                self as u64
            }
        }
    };
}
impl_w!(u8, 0);
impl_w!(u16, 1);
impl_w!(u32, 2);
impl_w!(u64, 3);
impl_w!(usize, 4);

fn ones(n: usize) -> u64 {
    if n >= 64 {
        !0
    } else {
        (1u64 << n) - 1
    }
}

fn bit_pos(bit_offset: isize, i: usize) -> (usize, u32) {
    let bit = (HDR as isize) * 8 + bit_offset + i as isize;
    ((bit >> 3) as usize, (bit & 7) as u32)
}

/// The model's view of a field: bit `i` of the value is header bit `bit_offset + i`.
fn get_field(b: &[u8; BUF], bit_offset: isize, n: usize) -> u64 {
    let mut v = 0u64;
    for i in 0..n {
        let (byte, pos) = bit_pos(bit_offset, i);
        if (b[byte] >> pos) & 1 == 1 {
            v |= 1u64 << i;
        }
    }
    v
}

fn set_field(b: &mut [u8; BUF], bit_offset: isize, n: usize, v: u64) {
    for i in 0..n {
        let (byte, pos) = bit_pos(bit_offset, i);
        if (v >> i) & 1 == 1 {
            b[byte] |= 1 << pos;
        } else {
            b[byte] &= !(1 << pos);
        }
    }
}

fn hex(b: &[u8; BUF]) -> String {
    let mut s = String::new();
    for (i, x) in b.iter().enumerate() {
        if i == HDR {
            s.push('|');
        }
        s.push_str(&format!("{:02x}", x));
    }
    s
}

#[derive(Clone, Copy, PartialEq, Eq, Debug)]
enum Op {
    Load,
    LoadAtomic,
    Store,
    StoreAtomic,
    CasHit,
    CasAny,
    FetchAdd,
    FetchSub,
    FetchAnd,
    FetchOr,
    UpdSome,
    UpdWrap,
    UpdNone,
}

const ALL_OPS: [Op; 13] = [
    Op::Load,
    Op::LoadAtomic,
    Op::Store,
    Op::StoreAtomic,
    Op::CasHit,
    Op::CasAny,
    Op::FetchAdd,
    Op::FetchSub,
    Op::FetchAnd,
    Op::FetchOr,
    Op::UpdSome,
    Op::UpdWrap,
    Op::UpdNone,
];
/// The accessors that take an optional mask.
const MASK_OPS: [Op; 6] = [
    Op::Load,
    Op::LoadAtomic,
    Op::Store,
    Op::StoreAtomic,
    Op::CasHit,
    Op::CasAny,
];

impl Op {
    fn name(self) -> &'static str {
        match self {
            Op::Load => "load",
            Op::LoadAtomic => "load_atomic",
            Op::Store => "store",
            Op::StoreAtomic => "store_atomic",
            Op::CasHit | Op::CasAny => "compare_exchange",
            Op::FetchAdd => "fetch_add",
            Op::FetchSub => "fetch_sub",
            Op::FetchAnd => "fetch_and",
            Op::FetchOr => "fetch_or",
            Op::UpdSome | Op::UpdWrap | Op::UpdNone => "fetch_update",
        }
    }
}

#[derive(Clone, PartialEq, Eq, Debug)]
enum Ret {
    Unit,
    Val(u64),
    Ok(u64),
    Err(u64),
}

impl Ret {
    fn kind(&self) -> &'static str {
        match self {
            Ret::Unit => "unit",
            Ret::Val(_) => "value",
            Ret::Ok(_) => "ok",
            Ret::Err(_) => "err",
        }
    }
}

struct Cx<'a> {
    rep: &'a mut Report,
    rng: Rng,
    p: *mut u8,
    /// per-`Op` operation counters and the other coverage counters (flushed at the end)
    op_counts: [u64; 13],
    c: [u64; 9],
    /// signatures already reported (only the first failing input per signature is kept)
    reported: std::collections::HashSet<String>,
}

const C_SUBBYTE: usize = 0;
const C_WIDE_MASKED: usize = 1;
const C_WIDE_UNMASKED: usize = 2;
const C_NEGATIVE: usize = 3;
const C_NEIGHBOURS: usize = 4;
const C_CAS_OK: usize = 5;
const C_CAS_ERR: usize = 6;
const C_WRAP: usize = 7;
const C_SEQ_OPS: usize = 8;
const C_NAMES: [&str; 9] = [
    "ops_subbyte_field",
    "ops_wide_field_masked",
    "ops_wide_field_unmasked",
    "ops_negative_bit_offset",
    "ops_with_nonzero_neighbour_bits",
    "cas_expected_ok",
    "cas_expected_err",
    "arith_wraparound",
    "ops_in_sequences",
];

impl Cx<'_> {
    fn violation(&mut self, sig: String, detail: impl FnOnce() -> String) {
        if self.reported.insert(sig.clone()) {
            self.rep.violation(sig, detail());
        } else {
            self.rep.violation_count += 1;
        }
    }
    fn read(&self) -> [u8; BUF] {
        let mut out = [0u8; BUF];
        unsafe { std::ptr::copy_nonoverlapping(self.p as *const u8, out.as_mut_ptr(), BUF) };
        out
    }
    fn write(&self, b: &[u8; BUF]) {
        unsafe { std::ptr::copy_nonoverlapping(b.as_ptr(), self.p, BUF) };
    }
    fn header(&self) -> Address {
        Address::from_mut_ptr(unsafe { self.p.add(HDR) })
    }
}

fn load_order(r: &mut Rng) -> Ordering {
    *r.pick(&[Ordering::SeqCst, Ordering::Relaxed, Ordering::Acquire])
}
// Orderings: only those that are valid for every atomic primitive the implementation may use
// internally for the accessor (sub-byte and masked stores / fetch_* are implemented as a
// fetch_update loop whose *load* uses the given ordering, so Release/AcqRel are left out; see
// `--case release-orders`).
fn store_order(r: &mut Rng) -> Ordering {
    *r.pick(&[Ordering::SeqCst, Ordering::Relaxed])
}
fn rmw_order(r: &mut Rng) -> Ordering {
    *r.pick(&[Ordering::SeqCst, Ordering::Relaxed, Ordering::Acquire])
}
/// (success, failure) pairs that are valid for a Rust compare_exchange AND whose success ordering
/// is also a valid load ordering (the implementation pre-loads with the success ordering).
fn cas_orders(r: &mut Rng) -> (Ordering, Ordering) {
    *r.pick(&[
        (Ordering::SeqCst, Ordering::SeqCst),
        (Ordering::SeqCst, Ordering::Relaxed),
        (Ordering::Acquire, Ordering::Acquire),
        (Ordering::Relaxed, Ordering::Relaxed),
    ])
}

/// Run one accessor of the real implementation against the model and compare.
/// `refill`: contents to put into the buffer first (None: keep what the previous operation left,
/// i.e. operation-sequence mode).
fn check<T: W>(
    cx: &mut Cx,
    spec: HeaderMetadataSpec,
    op: Op,
    mask: Option<u64>,
    mask_kind: u64,
    refill: Option<&[u8; BUF]>,
) {
    let n = spec.num_of_bits;
    let full = ones(n);
    if let Some(f) = refill {
        cx.write(f);
    }
    let before = cx.read();
    let prev = get_field(&before, spec.bit_offset, n);
    // the bits of the field this access is about
    let m = mask.map(|m| m & full).unwrap_or(full);
    let tmask: Option<T> = mask.map(T::from64);
    let hdr = cx.header();
    let a = cx.rng.next() & full;
    let b = cx.rng.next() & full;

    // ---- model -------------------------------------------------------------------------------
    let mut args = String::new();
    let (exp_ret, exp_field, exp_closure_arg): (Ret, u64, Option<u64>) = match op {
        Op::Load | Op::LoadAtomic => (Ret::Val(prev & m), prev, None),
        Op::Store | Op::StoreAtomic => {
            args = format!("val=0x{:x}", a);
            (Ret::Unit, (prev & !m) | (a & m), None)
        }
        Op::CasHit | Op::CasAny => {
            let old = if op == Op::CasHit { prev & m } else { a & m };
            let new = b & m;
            args = format!("old=0x{:x} new=0x{:x}", old, new);
            if old == prev & m {
                (Ret::Ok(prev & m), (prev & !m) | new, None)
            } else {
                (Ret::Err(prev & m), prev, None)
            }
        }
        Op::FetchAdd => {
            args = format!("val=0x{:x}", a);
            (Ret::Val(prev), prev.wrapping_add(a) & full, None)
        }
        Op::FetchSub => {
            args = format!("val=0x{:x}", a);
            (Ret::Val(prev), prev.wrapping_sub(a) & full, None)
        }
        Op::FetchAnd => {
            args = format!("val=0x{:x}", a);
            (Ret::Val(prev), prev & a, None)
        }
        Op::FetchOr => {
            args = format!("val=0x{:x}", a);
            (Ret::Val(prev), prev | a, None)
        }
        Op::UpdSome => {
            args = format!("f=|_| Some(0x{:x})", b);
            (Ret::Ok(prev), b, Some(prev))
        }
        Op::UpdWrap => {
            // the closure returns old + a computed in T; for sub-byte fields the implementation
            // explicitly truncates the new value to the field width
            args = format!("f=|old| Some(old + 0x{:x})", a);
            (Ret::Ok(prev), prev.wrapping_add(a) & full, Some(prev))
        }
        Op::UpdNone => {
            args = "f=|_| None".to_string();
            (Ret::Err(prev), prev, Some(prev))
        }
    };

    // ---- real implementation -----------------------------------------------------------------
    let seen: Cell<Option<u64>> = Cell::new(None);
    let calls: Cell<u32> = Cell::new(0);
    let lo = load_order(&mut cx.rng);
    let so = store_order(&mut cx.rng);
    let ro = rmw_order(&mut cx.rng);
    let (cs, cf) = cas_orders(&mut cx.rng);
    let got = catch_unwind(AssertUnwindSafe(|| -> Ret {
        match op {
            Op::Load => Ret::Val(unsafe { spec.load::<T>(hdr, tmask) }.to64()),
            Op::LoadAtomic => Ret::Val(spec.load_atomic::<T>(hdr, tmask, lo).to64()),
            Op::Store => {
                unsafe { spec.store::<T>(hdr, T::from64(a), tmask) };
                Ret::Unit
            }
            Op::StoreAtomic => {
                spec.store_atomic::<T>(hdr, T::from64(a), tmask, so);
                Ret::Unit
            }
            Op::CasHit | Op::CasAny => {
                let old = if op == Op::CasHit { prev & m } else { a & m };
                let new = b & m;
                match spec.compare_exchange::<T>(hdr, T::from64(old), T::from64(new), tmask, cs, cf)
                {
                    Ok(v) => Ret::Ok(v.to64()),
                    Err(v) => Ret::Err(v.to64()),
                }
            }
            Op::FetchAdd => Ret::Val(spec.fetch_add::<T>(hdr, T::from64(a), ro).to64()),
            Op::FetchSub => Ret::Val(spec.fetch_sub::<T>(hdr, T::from64(a), ro).to64()),
            Op::FetchAnd => Ret::Val(spec.fetch_and::<T>(hdr, T::from64(a), ro).to64()),
            Op::FetchOr => Ret::Val(spec.fetch_or::<T>(hdr, T::from64(a), ro).to64()),
            Op::UpdSome | Op::UpdWrap | Op::UpdNone => {
                let seen = &seen;
                let calls = &calls;
                let r = spec.fetch_update::<T, _>(hdr, cs, cf, move |old: T| {
                    seen.set(Some(old.to64()));
                    calls.set(calls.get() + 1);
                    match op {
                        Op::UpdSome => Some(T::from64(b)),
                        Op::UpdWrap => Some(T::from64(old.to64().wrapping_add(a))),
                        _ => None,
                    }
                });
                match r {
                    Ok(v) => Ret::Ok(v.to64()),
                    Err(v) => Ret::Err(v.to64()),
                }
            }
        }
    }));
    let after = cx.read();

    // ---- classification ----------------------------------------------------------------------
    let masked = mask.is_some() as u64;
    let (fb, _) = bit_pos(spec.bit_offset, 0);
    // "neighbour" bits: for sub-byte fields the rest of the byte, for wider fields the bits
    // excluded by the mask plus the adjacent bytes.
    let neighbours_nonzero = if n < 8 {
        let shift = spec.bit_offset & 7;
        let fm = ((ones(n) as u8) << shift) as u8;
        before[fb] & !fm != 0
    } else {
        (prev & !m) != 0 || before[fb - 1] != 0 || before[fb + n / 8] != 0
    };
    let region = if spec.bit_offset < 0 {
        0u64
    } else if spec.bit_offset < 64 {
        1
    } else {
        2
    };
    let outcome = match (&exp_ret, op) {
        (Ret::Ok(_), _) => 1u64,
        (Ret::Err(_), _) => 2,
        (_, Op::FetchAdd) if prev as u128 + a as u128 > full as u128 => 3,
        (_, Op::FetchSub) if a > prev => 3,
        _ => 0,
    };
    let key = mix(
        mix(op as u64, T::ID),
        mix(
            mix(n as u64, (spec.bit_offset & 7) as u64 + 8 * region),
            mix(mask_kind, outcome),
        ),
    );
    if neighbours_nonzero {
        cx.rep.eval(key);
    } else {
        cx.rep.evaluations += 1;
    }
    cx.op_counts[op as usize] += 1;
    if n < 8 {
        cx.c[C_SUBBYTE] += 1;
    } else if mask.is_some() {
        cx.c[C_WIDE_MASKED] += 1;
    } else {
        cx.c[C_WIDE_UNMASKED] += 1;
    }
    if spec.bit_offset < 0 {
        cx.c[C_NEGATIVE] += 1;
    }
    if neighbours_nonzero {
        cx.c[C_NEIGHBOURS] += 1;
    }
    if refill.is_none() {
        cx.c[C_SEQ_OPS] += 1;
    }
    match &exp_ret {
        Ret::Ok(_) if matches!(op, Op::CasHit | Op::CasAny) => cx.c[C_CAS_OK] += 1,
        Ret::Err(_) if matches!(op, Op::CasHit | Op::CasAny) => cx.c[C_CAS_ERR] += 1,
        _ => {}
    }
    if outcome == 3 {
        cx.c[C_WRAP] += 1;
    }
    if cx.rep.want_sample() && neighbours_nonzero && (n < 8 || mask.is_some()) && cx.rng.chance(1, 5000) {
        cx.rep.sample(J::obj(vec![
            ("op", J::s(op.name())),
            ("type", J::s(T::NAME)),
            ("bit_offset", J::i(spec.bit_offset as i64)),
            ("num_of_bits", J::i(n)),
            ("mask", mask.map(|m| J::s(format!("0x{:x}", m))).unwrap_or(J::Null)),
            ("header_before", J::s(hex(&before))),
            ("args", J::s(args.clone())),
            ("returned", J::s(format!("{:?}", got.as_ref().ok()))),
        ]));
    }

    // ---- verdicts ----------------------------------------------------------------------------
    let describe = |what: &str| -> String {
        format!(
            "{}: spec{{bit_offset:{}, num_of_bits:{}}} T={} mask={} op={}({}) orders={} header_before={} header_after={} (64-byte buffer, header address is at '|'; previous field value=0x{:x}, masked field bits=0x{:x})",
            what,
            spec.bit_offset,
            n,
            T::NAME,
            mask.map(|m| format!("Some(0x{:x})", m)).unwrap_or_else(|| "None".to_string()),
            op.name(),
            args,
            match op {
                Op::Load => "non-atomic".to_string(),
                Op::Store => "non-atomic".to_string(),
                Op::LoadAtomic => format!("{:?}", lo),
                Op::StoreAtomic => format!("{:?}", so),
                Op::CasHit | Op::CasAny | Op::UpdSome | Op::UpdWrap | Op::UpdNone => format!("{:?},{:?}", cs, cf),
                _ => format!("{:?}", ro),
            },
            hex(&before),
            hex(&after),
            prev,
            m
        )
    };
    let sigbase = |what: &str| -> String {
        format!("header:{}:{}:bits={}:masked={}", op.name(), what, n, masked)
    };
    match got {
        Err(e) => {
            let msg = e
                .downcast_ref::<String>()
                .cloned()
                .or_else(|| e.downcast_ref::<&str>().map(|s| s.to_string()))
                .unwrap_or_default();
            cx.violation(sigbase("panic"), || describe(&format!("accessor panicked: {}", msg)));
            // the buffer may be half-updated; nothing else to compare
            return;
        }
        Ok(ret) => {
            if ret != exp_ret {
                let what = if ret.kind() != exp_ret.kind() {
                    format!("{}-instead-of-{}", ret.kind(), exp_ret.kind())
                } else {
                    format!("{}-value", ret.kind())
                };
                cx.violation(sigbase(&format!("return-{}", what)), || {
                    describe(&format!(
                        "returned {:x?}, expected {:x?} (the previous value of the field only)",
                        ret, exp_ret
                    ))
                });
            }
        }
    }
    if let Some(want) = exp_closure_arg {
        // (the closure may run more than once: fetch_update loops on a weak compare-exchange, which
        // is allowed to fail spuriously -- Miri makes it do so -- but every call sees the field's value)
        if calls.get() < 1 || seen.get() != Some(want) {
            cx.violation(sigbase("closure-arg"), || {
                describe(&format!(
                    "fetch_update closure called {} times, last argument {:x?}, expected at least one call, each with 0x{:x}",
                    calls.get(),
                    seen.get(),
                    want
                ))
            });
        }
    }
    let mut model = before;
    set_field(&mut model, spec.bit_offset, n, exp_field);
    if after != model {
        // which bits differ: inside the (masked) field or outside
        let mut outside = false;
        let mut inside = false;
        let mut field_bits = [0u8; BUF];
        set_field(&mut field_bits, spec.bit_offset, n, m);
        for i in 0..BUF {
            let d = after[i] ^ model[i];
            if d & !field_bits[i] != 0 {
                outside = true;
            }
            if d & field_bits[i] != 0 {
                inside = true;
            }
        }
        if outside {
            cx.violation(sigbase("memory-outside-field"), || {
                describe(&format!("bits outside the (masked) field changed; expected header {}", hex(&model)))
            });
        }
        if inside {
            cx.violation(sigbase("memory-field"), || {
                describe(&format!(
                    "field has 0x{:x} afterwards, expected 0x{:x}; expected header {}",
                    get_field(&after, spec.bit_offset, n),
                    exp_field,
                    hex(&model)
                ))
            });
        }
    }
}

fn dispatch(
    cx: &mut Cx,
    tid: u64,
    spec: HeaderMetadataSpec,
    op: Op,
    mask: Option<u64>,
    mask_kind: u64,
    refill: Option<&[u8; BUF]>,
) {
    match tid {
        0 => check::<u8>(cx, spec, op, mask, mask_kind, refill),
        1 => check::<u16>(cx, spec, op, mask, mask_kind, refill),
        2 => check::<u32>(cx, spec, op, mask, mask_kind, refill),
        3 => check::<u64>(cx, spec, op, mask, mask_kind, refill),
        _ => check::<usize>(cx, spec, op, mask, mask_kind, refill),
    }
}

/// The value types a field of `n` bits may legally be accessed through.
fn types_for(n: usize) -> &'static [u64] {
    match n {
        1..=7 => &[0, 1, 2, 3, 4],
        8 => &[0],
        16 => &[1],
        32 => &[2],
        64 => &[3, 4],
        _ => &[],
    }
}

/// Every spec `assert_spec` admits with `bit_offset` in `MIN_BIT..=MAX_BIT`.
fn legal_specs() -> Vec<HeaderMetadataSpec> {
    let mut v = vec![];
    for bit_offset in MIN_BIT..=MAX_BIT {
        for n in 1..8usize {
            if (bit_offset >> 3) == ((bit_offset + n as isize - 1) >> 3) {
                v.push(HeaderMetadataSpec { bit_offset, num_of_bits: n });
            }
        }
        for n in [8usize, 16, 32, 64] {
            // `bit_offset.trailing_zeros() >= T::LOG2` and the field must end inside the range
            if bit_offset.rem_euclid(n as isize) == 0 && bit_offset + n as isize - 1 <= MAX_BIT {
                v.push(HeaderMetadataSpec { bit_offset, num_of_bits: n });
            }
        }
    }
    v
}

/// (kind id, mask) candidates for a field of `n >= 8` bits; kind 0 is "no mask".
fn masks_for(n: usize, rng: &mut Rng) -> Vec<(u64, Option<u64>)> {
    let full = ones(n);
    let mut v = vec![
        (0, None),
        (1, Some(full)),
        (2, Some(full & !0b111)),
        // forwarding-pointer style: address bits without the two low (forwarding) bits and
        // without the top quarter (e.g. 0x0000_ffff_ffff_fffc for a word)
        (3, Some((full >> (n / 4)) & !0b11)),
        (4, Some(full & !0b11)),
        // the complementary "forwarding bits inside the pointer word" mask
        (5, Some(0b11)),
    ];
    for k in 0..n / 8 {
        v.push((6, Some(0xffu64 << (8 * k))));
    }
    v.push((7, Some(rng.next() & full)));
    v
}

fn fills(spec: &HeaderMetadataSpec, rng: &mut Rng, random_fills: usize) -> Vec<[u8; BUF]> {
    let n = spec.num_of_bits;
    let mut v = vec![];
    for _ in 0..random_fills {
        let mut b = [0u8; BUF];
        for x in b.iter_mut() {
            *x = rng.next() as u8;
        }
        v.push(b);
    }
    // everything set
    v.push([0xff; BUF]);
    // everything set except the field
    let mut b = [0xff; BUF];
    set_field(&mut b, spec.bit_offset, n, 0);
    v.push(b);
    // only the field set (neighbours zero: the case the existing tests cover)
    let mut b = [0u8; BUF];
    set_field(&mut b, spec.bit_offset, n, ones(n));
    v.push(b);
    // random field value in an all-zero header
    let mut b = [0u8; BUF];
    set_field(&mut b, spec.bit_offset, n, rng.next() & ones(n));
    v.push(b);
    v
}

fn rand_fill(rng: &mut Rng) -> [u8; BUF] {
    let mut b = [0u8; BUF];
    for x in b.iter_mut() {
        *x = rng.next() as u8;
    }
    b
}

/// Demonstration sub-case (not part of the default run, outside the statement of C23): orderings
/// that are legal for the Rust atomic operation the accessor is named after, but not for the
/// load that the implementation performs internally with the same ordering.
fn case_release_orders(cx: &mut Cx) {
    let sub = HeaderMetadataSpec { bit_offset: 2, num_of_bits: 2 };
    let word = HeaderMetadataSpec { bit_offset: 0, num_of_bits: 64 };
    let mask = Some(!0b11u64);
    let hdr = cx.header();
    type Case<'a> = (&'a str, Box<dyn Fn() + 'a>);
    let cases: Vec<Case> = vec![
        ("store_atomic:order=Release:bits=2:masked=0", Box::new(move || sub.store_atomic::<u8>(hdr, 1, None, Ordering::Release))),
        ("store_atomic:order=Release:bits=64:masked=1", Box::new(move || word.store_atomic::<u64>(hdr, 8, mask, Ordering::Release))),
        ("store_atomic:order=Release:bits=64:masked=0", Box::new(move || word.store_atomic::<u64>(hdr, 8, None, Ordering::Release))),
        ("fetch_add:order=Release:bits=2:masked=0", Box::new(move || { sub.fetch_add::<u8>(hdr, 1, Ordering::Release); })),
        ("fetch_add:order=AcqRel:bits=2:masked=0", Box::new(move || { sub.fetch_add::<u8>(hdr, 1, Ordering::AcqRel); })),
        ("fetch_and:order=Release:bits=2:masked=0", Box::new(move || { sub.fetch_and::<u8>(hdr, 1, Ordering::Release); })),
        ("fetch_add:order=AcqRel:bits=64:masked=0", Box::new(move || { word.fetch_add::<u64>(hdr, 1, Ordering::AcqRel); })),
        ("compare_exchange:order=Release,Relaxed:bits=2:masked=0", Box::new(move || { let _ = sub.compare_exchange::<u8>(hdr, 0, 1, None, Ordering::Release, Ordering::Relaxed); })),
        ("compare_exchange:order=AcqRel,Acquire:bits=2:masked=0", Box::new(move || { let _ = sub.compare_exchange::<u8>(hdr, 0, 1, None, Ordering::AcqRel, Ordering::Acquire); })),
        ("compare_exchange:order=AcqRel,Acquire:bits=64:masked=1", Box::new(move || { let _ = word.compare_exchange::<u64>(hdr, 0, 4, mask, Ordering::AcqRel, Ordering::Acquire); })),
        ("compare_exchange:order=AcqRel,Acquire:bits=64:masked=0", Box::new(move || { let _ = word.compare_exchange::<u64>(hdr, 0, 4, None, Ordering::AcqRel, Ordering::Acquire); })),
    ];
    for (name, f) in cases {
        cx.write(&[0u8; BUF]);
        cx.rep.evaluations += 1;
        if let Err(e) = catch_unwind(AssertUnwindSafe(|| f())) {
            let msg = e
                .downcast_ref::<String>()
                .cloned()
                .or_else(|| e.downcast_ref::<&str>().map(|s| s.to_string()))
                .unwrap_or_default();
            cx.rep.violation(
                format!("header-orderings:panic:{}", name),
                format!("{} on an all-zero header panicked: {}", name, msg),
            );
        }
    }
    cx.rep.note("case release-orders: accessors called with Release/AcqRel orderings (legal for the corresponding Rust atomic operation); outside the statement of C23, run only on request");
}


// ------------------------------------------------------------------------------------------
// Concurrent phase: fields of one header owned by different threads
// ------------------------------------------------------------------------------------------

#[derive(Clone, Copy)]
struct CField {
    spec: HeaderMetadataSpec,
    mask: Option<u64>,
    tid: u64,
}

struct COut {
    newv: u64,
    bad: Option<(&'static str, String)>,
    container_cas_failure: bool,
    retries: u32,
}

/// One atomic operation of the owner of `f`; `cur` is the owner's model value (restricted to the
/// masked bits).  Only the owner ever writes these bits, so every returned value is determined.
fn conc_op<T: W>(f: &CField, hdr: Address, op: usize, cur: u64, a: u64, b: u64) -> COut {
    let n = f.spec.num_of_bits;
    let full = ones(n);
    let m = f.mask.map(|m| m & full).unwrap_or(full);
    let tmask: Option<T> = f.mask.map(T::from64);
    let spec = f.spec;
    let mut out = COut { newv: cur, bad: None, container_cas_failure: false, retries: 0 };
    let o = Ordering::SeqCst;
    match op {
        0 => {
            let r = spec.load_atomic::<T>(hdr, tmask, o).to64();
            if r != cur {
                out.bad = Some(("load_atomic:return", format!("returned {:#x}", r)));
            }
        }
        1 => {
            spec.store_atomic::<T>(hdr, T::from64(a & m), tmask, o);
            out.newv = a & m;
        }
        2 => match spec.compare_exchange::<T>(hdr, T::from64(cur), T::from64(b & m), tmask, o, o) {
            Ok(v) => {
                if v.to64() != cur {
                    out.bad = Some(("compare_exchange:return-ok", format!("Ok({:#x})", v.to64())));
                }
                out.newv = b & m;
            }
            Err(v) => {
                // legal only where the access goes through a container shared with other fields
                // (the byte of a sub-byte field, the whole value of a masked field)
                if n >= 8 && f.mask.is_none() {
                    out.bad = Some(("compare_exchange:failed-on-own-value", format!("Err({:#x})", v.to64())));
                } else if v.to64() != cur {
                    out.bad = Some(("compare_exchange:return-err", format!("Err({:#x})", v.to64())));
                }
                out.container_cas_failure = true;
            }
        },
        3 => {
            let mut old = a & m;
            if old == cur {
                old = (cur ^ (m & m.wrapping_neg())) & m; // flip the lowest masked bit
            }
            match spec.compare_exchange::<T>(hdr, T::from64(old), T::from64(b & m), tmask, o, o) {
                Ok(v) => out.bad = Some(("compare_exchange:succeeded-with-wrong-old", format!("Ok({:#x}) old={:#x}", v.to64(), old))),
                Err(v) => {
                    if v.to64() != cur {
                        out.bad = Some(("compare_exchange:return-err", format!("Err({:#x}) old={:#x}", v.to64(), old)));
                    }
                }
            }
        }
        4 => {
            let r = spec.fetch_add::<T>(hdr, T::from64(a & full), o).to64();
            if r != cur {
                out.bad = Some(("fetch_add:return", format!("returned {:#x}", r)));
            }
            out.newv = cur.wrapping_add(a & full) & full;
        }
        5 => {
            let r = spec.fetch_sub::<T>(hdr, T::from64(a & full), o).to64();
            if r != cur {
                out.bad = Some(("fetch_sub:return", format!("returned {:#x}", r)));
            }
            out.newv = cur.wrapping_sub(a & full) & full;
        }
        6 => {
            let r = spec.fetch_and::<T>(hdr, T::from64(a & full), o).to64();
            if r != cur {
                out.bad = Some(("fetch_and:return", format!("returned {:#x}", r)));
            }
            out.newv = cur & a & full;
        }
        7 => {
            let r = spec.fetch_or::<T>(hdr, T::from64(a & full), o).to64();
            if r != cur {
                out.bad = Some(("fetch_or:return", format!("returned {:#x}", r)));
            }
            out.newv = cur | (a & full);
        }
        _ => {
            let calls = Cell::new(0u32);
            let wrong: Cell<Option<u64>> = Cell::new(None);
            let (calls_r, wrong_r) = (&calls, &wrong);
            let r = spec.fetch_update::<T, _>(hdr, o, o, move |old: T| {
                calls_r.set(calls_r.get() + 1);
                if old.to64() != cur {
                    wrong_r.set(Some(old.to64()));
                }
                Some(T::from64(b & full))
            });
            out.retries = calls.get().saturating_sub(1);
            if let Some(w) = wrong.get() {
                out.bad = Some(("fetch_update:closure-arg", format!("closure saw {:#x}", w)));
            }
            match r {
                Ok(v) => {
                    if v.to64() != cur && out.bad.is_none() {
                        out.bad = Some(("fetch_update:return", format!("Ok({:#x})", v.to64())));
                    }
                }
                Err(v) => out.bad = Some(("fetch_update:rejected", format!("Err({:#x}) although the closure accepted", v.to64()))),
            }
            out.newv = b & full;
        }
    }
    out
}

fn conc_layout(rng: &mut Rng) -> (Vec<CField>, &'static str) {
    let mut v = vec![];
    if rng.chance(1, 2) {
        // one header byte split into 2..8 sub-byte fields
        let base = (rng.below(32) as isize - 8) * 8;
        let mut at = 0usize;
        while at < 8 {
            let max = std::cmp::min(7, 8 - at);
            let n = 1 + rng.usize_below(std::cmp::min(max, 3));
            v.push(CField { spec: HeaderMetadataSpec { bit_offset: base + at as isize, num_of_bits: n }, mask: None, tid: *rng.pick(&[0u64, 0, 1, 2, 3, 4]) });
            at += n;
        }
        (v, "split-byte")
    } else {
        // a 64-bit field whose mask leaves out its low k bits (and sometimes its top byte), with
        // sub-byte fields in the low bits and a byte field on top: forwarding-word style
        let base = (rng.below(4) as isize - 1) * 64;
        let k = 1 + rng.usize_below(7);
        let top = rng.chance(1, 2);
        let mut mask = !ones(k);
        if top {
            mask &= !(0xffu64 << 56);
            v.push(CField { spec: HeaderMetadataSpec { bit_offset: base + 56, num_of_bits: 8 }, mask: None, tid: 0 });
        }
        v.push(CField { spec: HeaderMetadataSpec { bit_offset: base, num_of_bits: 64 }, mask: Some(mask), tid: *rng.pick(&[3u64, 4]) });
        let mut at = 0usize;
        while at < k {
            let n = 1 + rng.usize_below(std::cmp::min(k - at, 3));
            v.push(CField { spec: HeaderMetadataSpec { bit_offset: base + at as isize, num_of_bits: n }, mask: None, tid: *rng.pick(&[0u64, 0, 3]) });
            at += n;
        }
        (v, "masked-word")
    }
}

fn concurrent_phase(args: &Args, rep: &mut Report, rng: &mut Rng) {
    let rounds = if args.thorough() { 4000 } else { 300 };
    let nops = if args.thorough() { 20_000 } else { 8_000 };
    let mut buf = Box::new(Buf([0u8; BUF]));
    let p = buf.0.as_mut_ptr() as usize;
    let hdr = unsafe { Address::from_usize(p + HDR) };
    for round in 0..rounds {
        let (fields, kind) = conc_layout(rng);
        let threads = std::cmp::min(fields.len(), 2 + rng.usize_below(3));
        let fill = rand_fill(rng);
        unsafe { std::ptr::copy_nonoverlapping(fill.as_ptr(), p as *mut u8, BUF) };
        let seed = rng.next();
        let fields_r = &fields;
        let fill_r = &fill;
        type TOut = (u64, u64, u64, Vec<(String, String)>, Vec<(usize, u64)>, Vec<u64>);
        let outs: Vec<TOut> = std::thread::scope(|s| {
            let hs: Vec<_> = (0..threads)
                .map(|t| {
                    s.spawn(move || {
                        let mut rng = Rng::new(mix(seed, t as u64 + 1));
                        let mine: Vec<usize> = (0..fields_r.len()).filter(|i| i % threads == t).collect();
                        let mut model: Vec<u64> = mine
                            .iter()
                            .map(|&i| {
                                let f = &fields_r[i];
                                let full = ones(f.spec.num_of_bits);
                                get_field(fill_r, f.spec.bit_offset, f.spec.num_of_bits) & f.mask.map(|m| m & full).unwrap_or(full)
                            })
                            .collect();
                        let (mut ops, mut cfail, mut retries) = (0u64, 0u64, 0u64);
                        let mut viol = vec![];
                        let mut keys = vec![];
                        for _ in 0..nops {
                            let k = rng.usize_below(mine.len());
                            let f = &fields_r[mine[k]];
                            let op = if f.mask.is_some() { rng.usize_below(4) } else { rng.usize_below(9) };
                            let (a, b) = (rng.next(), rng.next());
                            let cur = model[k];
                            let o = match f.tid {
                                0 => conc_op::<u8>(f, hdr, op, cur, a, b),
                                1 => conc_op::<u16>(f, hdr, op, cur, a, b),
                                2 => conc_op::<u32>(f, hdr, op, cur, a, b),
                                3 => conc_op::<u64>(f, hdr, op, cur, a, b),
                                _ => conc_op::<usize>(f, hdr, op, cur, a, b),
                            };
                            ops += 1;
                            cfail += o.container_cas_failure as u64;
                            retries += o.retries as u64;
                            if let Some((name, what)) = o.bad {
                                if viol.len() < 4 {
                                    viol.push((
                                        format!("concurrent:{}:{}:bits={}:masked={}", kind, name, f.spec.num_of_bits, f.mask.is_some() as u8),
                                        format!("thread {} of {}: field bit_offset={} num_of_bits={} mask={:x?} T-id={} owner's value before={:#x}: {}; all fields of this header: {:?}",
                                            t, threads, f.spec.bit_offset, f.spec.num_of_bits, f.mask, f.tid, cur, what,
                                            fields_r.iter().map(|f| (f.spec.bit_offset, f.spec.num_of_bits, f.mask)).collect::<Vec<_>>()),
                                    ));
                                }
                            }
                            model[k] = o.newv;
                            if keys.len() < 256 {
                                keys.push(mix(mix(0xC23C, f.spec.num_of_bits as u64 * 8 + (f.spec.bit_offset & 7) as u64), mix(op as u64, f.mask.is_some() as u64 | (threads as u64) << 1)));
                            }
                        }
                        (ops, cfail, retries, viol, mine.iter().cloned().zip(model.iter().cloned()).collect(), keys)
                    })
                })
                .collect();
            hs.into_iter().map(|h| h.join().expect("C23 concurrent thread panicked")).collect()
        });
        // merged model: the fill with every field's (masked) bits replaced by its owner's value
        let mut want = fill;
        for (ops, cfail, retries, viol, finals, keys) in outs {
            rep.evaluations += ops;
            rep.count("concurrent_ops", ops);
            rep.count("concurrent_container_level_cas_failures", cfail);
            rep.count("concurrent_fetch_update_closure_retries", retries);
            for k in keys {
                rep.key(k);
            }
            for (s, d) in viol {
                rep.violation(s, d);
            }
            for (i, v) in finals {
                let f = &fields[i];
                let full = ones(f.spec.num_of_bits);
                let m = f.mask.map(|m| m & full).unwrap_or(full);
                let prev = get_field(&want, f.spec.bit_offset, f.spec.num_of_bits);
                set_field(&mut want, f.spec.bit_offset, f.spec.num_of_bits, (prev & !m) | (v & m));
            }
        }
        let got: [u8; BUF] = unsafe { *(p as *const [u8; BUF]) };
        if got != want {
            rep.violation(
                format!("concurrent:{}:final-header-differs-from-owners-models", kind),
                format!("round {} ({} threads x {} atomic ops on disjoint fields {:?}): header {} expected {} (initial {})",
                    round, threads, nops, fields.iter().map(|f| (f.spec.bit_offset, f.spec.num_of_bits, f.mask)).collect::<Vec<_>>(), hex(&got), hex(&want), hex(&fill)),
            );
        }
        rep.count(if kind == "split-byte" { "concurrent_rounds_split_byte" } else { "concurrent_rounds_masked_word" }, 1);
    }
    drop(buf);
}

pub fn run(args: &Args, rep: &mut Report) {
    if !cfg!(target_endian = "little") {
        rep.inconclusive("the bit-vector model assumes a little-endian target");
        return;
    }
    let mut buf = Box::new(Buf([0u8; BUF]));
    let p = buf.0.as_mut_ptr();
    let prev_hook = std::panic::take_hook();
    std::panic::set_hook(Box::new(|_| {}));
    let mut cx = Cx {
        rep,
        rng: Rng::new(args.seed() ^ 0xC23),
        p,
        op_counts: [0; 13],
        c: [0; 9],
        reported: Default::default(),
    };

    if args.get("case") == Some("release-orders") {
        case_release_orders(&mut cx);
        std::panic::set_hook(prev_hook);
        drop(buf);
        return;
    }

    let thorough = args.thorough();
    let random_fills = if args.miri() { 1 } else if thorough { 1500 } else { 100 };
    // under Miri: every 37th legal spec (still all widths and both masked/unmasked shapes)
    let specs: Vec<_> = legal_specs().into_iter().step_by(if args.miri() { 211 } else { 1 }).collect();
    cx.rep.count("legal_specs", specs.len() as u64);
    cx.rep.count(
        "legal_specs_subbyte",
        specs.iter().filter(|s| s.num_of_bits < 8).count() as u64,
    );

    // ---- 1. every legal spec x type x accessor x mask, on freshly filled headers --------------
    for spec in &specs {
        let n = spec.num_of_bits;
        let mut frng = cx.rng.fork();
        let masks = if n >= 8 { masks_for(n, &mut frng) } else { vec![(0, None)] };
        for &tid in types_for(n) {
            for (mask_kind, mask) in &masks {
                let ops: &[Op] = if mask.is_some() { &MASK_OPS } else { &ALL_OPS };
                for &op in ops {
                    for f in fills(spec, &mut frng, random_fills) {
                        dispatch(&mut cx, tid, *spec, op, *mask, *mask_kind, Some(&f));
                    }
                }
            }
        }
    }

    // ---- 2. operation sequences on a persistent header ---------------------------------------
    let nseq = if args.miri() { 20 } else if thorough { 1_000_000 } else { 30_000 };
    let seqlen = 64;
    for _ in 0..nseq {
        let f = rand_fill(&mut cx.rng);
        cx.write(&f);
        for _ in 0..seqlen {
            let spec = *cx.rng.pick(&specs);
            let n = spec.num_of_bits;
            let tid = *cx.rng.pick(types_for(n));
            let (mask_kind, mask) = if n >= 8 && cx.rng.chance(1, 2) {
                let mut r = cx.rng.fork();
                let ms = masks_for(n, &mut r);
                *cx.rng.pick(&ms)
            } else {
                (0, None)
            };
            let op = if mask.is_some() {
                *cx.rng.pick(&MASK_OPS)
            } else {
                *cx.rng.pick(&ALL_OPS)
            };
            dispatch(&mut cx, tid, spec, op, mask, mask_kind, None);
        }
    }
    cx.rep.count("sequences", nseq);
    std::panic::set_hook(prev_hook);
    // ---- 3. real threads, each owning some fields of one header --------------------------------
    if !args.miri() {
        let mut crng = cx.rng.fork();
        concurrent_phase(args, cx.rep, &mut crng);
    }
    for (i, op) in ALL_OPS.iter().enumerate() {
        let name = match op {
            Op::CasHit => "op_compare_exchange_old_is_current".to_string(),
            Op::CasAny => "op_compare_exchange_old_random".to_string(),
            Op::UpdSome => "op_fetch_update_some".to_string(),
            Op::UpdWrap => "op_fetch_update_some_overflowing".to_string(),
            Op::UpdNone => "op_fetch_update_none".to_string(),
            o => format!("op_{}", o.name()),
        };
        cx.rep.count(&name, cx.op_counts[i]);
    }
    for (i, name) in C_NAMES.iter().enumerate() {
        cx.rep.count(name, cx.c[i]);
    }

    cx.rep.note(format!(
        "every legal spec with bit_offset in {}..={}: 1..=7-bit fields inside one byte (all 5 value types), aligned 8/16/32/64-bit fields (value type of exactly the field width; u64 and usize for 64)",
        MIN_BIT, MAX_BIT
    ));
    cx.rep.note("masks (only for >=8-bit fields, only load/load_atomic/store/store_atomic/compare_exchange): none, all-ones, low-3-clear, forwarding-pointer style, low-2-clear, low-2-only, every single-byte mask, one random mask per spec");
    cx.rep.note("left out as not clearly legal: >=8-bit fields accessed through a wider/narrower type than the field, values >= 2^bits for sub-byte store/compare_exchange/fetch_*, compare_exchange old/new values with bits outside the mask, Release/AcqRel orderings for store_atomic/compare_exchange/fetch_* (sub-byte and masked paths load with the given ordering internally; see --case release-orders)");
    drop(buf);
}
