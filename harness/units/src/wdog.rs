//! A liveness watchdog for monitors whose component under test contains loops over linked
//! structures (a corrupted link makes the real code spin forever, and then no report would ever be
//! printed).
//!
//! The monitor body runs on a worker thread and bumps a heartbeat before every call into
//! mmtk-core, leaving a description of the call (with the history that led to it).  The calling
//! thread watches the heartbeat.  The verdict does not depend on wall-clock time: a call is
//! declared non-terminating only when the *process CPU time* consumed since the last heartbeat
//! exceeds `CPU_LIMIT_SECS` (every call under test takes micro- to milliseconds), i.e. the
//! worker demonstrably burnt that much CPU inside one call.  A worker that is merely blocked
//! (no CPU consumed) for `WALL_LIMIT_SECS` is reported as inconclusive.
use std::sync::atomic::{AtomicBool, AtomicU64, Ordering};
use std::sync::Mutex;
use vcommon::Report;

pub const CPU_LIMIT_SECS: f64 = 60.0;
pub const WALL_LIMIT_SECS: u64 = 1800;

pub struct Heartbeat {
    beat: AtomicU64,
    in_call: AtomicBool,
    /// (stable signature stem, detail) of the call in flight
    ctx: Mutex<(String, String)>,
}

impl Heartbeat {
    /// Announce a call into the component under test.
    pub fn enter(&self, sig_stem: &str, detail: impl FnOnce() -> String) {
        {
            let mut g = self.ctx.lock().unwrap();
            g.0.clear();
            g.0.push_str(sig_stem);
            g.1 = detail();
        }
        self.beat.fetch_add(1, Ordering::SeqCst);
        self.in_call.store(true, Ordering::SeqCst);
    }
    /// The call returned.
    pub fn leave(&self) {
        self.in_call.store(false, Ordering::SeqCst);
        self.beat.fetch_add(1, Ordering::SeqCst);
    }
    /// Progress outside calls (long harness-side work).
    pub fn tick(&self) {
        self.beat.fetch_add(1, Ordering::Relaxed);
    }
}

fn process_cpu_secs() -> f64 {
    let mut ts = libc::timespec { tv_sec: 0, tv_nsec: 0 };
    unsafe { libc::clock_gettime(libc::CLOCK_PROCESS_CPUTIME_ID, &mut ts) };
    ts.tv_sec as f64 + ts.tv_nsec as f64 * 1e-9
}

/// Run `body` on a worker thread under the watchdog.  If a call never returns, a report holding
/// the violation is printed and the process exits (the worker cannot be stopped).
/// Same interface, no watcher thread (for runs under Miri, which has no process CPU clock).
pub fn run_without_watchdog<F>(rep: &mut Report, body: F)
where
    F: FnOnce(&mut Report, &Heartbeat),
{
    let hb = Heartbeat {
        beat: AtomicU64::new(0),
        in_call: AtomicBool::new(false),
        ctx: Mutex::new((String::new(), String::new())),
    };
    body(rep, &hb)
}

pub fn run_with_watchdog<F>(rep: &mut Report, body: F)
where
    F: FnOnce(&mut Report, &Heartbeat) + Send,
{
    let hb = Heartbeat {
        beat: AtomicU64::new(0),
        in_call: AtomicBool::new(false),
        ctx: Mutex::new((String::new(), String::new())),
    };
    let property = rep.property.clone();
    std::thread::scope(|s| {
        let hbr = &hb;
        let h = s.spawn(move || body(rep, hbr));
        let mut last_beat = hb.beat.load(Ordering::SeqCst);
        let mut cpu_at_beat = process_cpu_secs();
        let mut polls_at_beat = 0u64;
        loop {
            if h.is_finished() {
                if let Err(p) = h.join() {
                    std::panic::resume_unwind(p);
                }
                return;
            }
            std::thread::sleep(std::time::Duration::from_millis(200));
            let b = hb.beat.load(Ordering::SeqCst);
            if b != last_beat {
                last_beat = b;
                cpu_at_beat = process_cpu_secs();
                polls_at_beat = 0;
                continue;
            }
            polls_at_beat += 1;
            let burnt = process_cpu_secs() - cpu_at_beat;
            let spinning = hb.in_call.load(Ordering::SeqCst) && burnt > CPU_LIMIT_SECS;
            let blocked = polls_at_beat > WALL_LIMIT_SECS * 5;
            if spinning || blocked {
                // the worker is stuck inside the call and does not touch `ctx`
                let g = hb.ctx.lock().unwrap();
                // leave the scope without joining: print and exit right here
                let mut r = Report::new(&property);
                if spinning {
                    r.violation(
                        format!("{}:does-not-return", g.0),
                        format!("the call consumed more than {} s of CPU without returning (operations take microseconds); {}", CPU_LIMIT_SECS, g.1),
                    );
                } else {
                    r.inconclusive(format!("no progress for {} s without consuming CPU in {}: {}", WALL_LIMIT_SECS, g.0, g.1));
                }
                r.note("the worker thread is stuck inside mmtk-core; counters and evaluations of this run are lost");
                r.print();
                std::process::exit(0);
            }
        }
    });
}
