//! A minimal `VMBinding` for monitors that need a `VM` type parameter but no running GC.
