//! Minimal `VMBinding`s for monitors that need a `VM` type parameter but no running GC.
//!
//! `define_unit_vm!` generates a binding type whose ObjectModel metadata placement is given by
//! the macro arguments; every VM callback that a GC would need is `unimplemented!()`.
//! Object sizes are looked up in a harness-side table (`set_size`), so objects can be as small
//! as two words and object memory is never read by `get_current_size`.
#![allow(dead_code)]

use mmtk::util::{Address, ObjectReference};
use std::collections::HashMap;
use std::sync::RwLock;

static SIZES: RwLock<Option<HashMap<usize, usize>>> = RwLock::new(None);

/// Declare the size of the object whose reference is `obj`.
pub fn set_size(obj: Address, size: usize) {
    let mut g = SIZES.write().unwrap();
    g.get_or_insert_with(HashMap::new).insert(obj.as_usize(), size);
}

pub fn clear_sizes() {
    *SIZES.write().unwrap() = None;
}

pub fn size_of(obj: ObjectReference) -> usize {
    let g = SIZES.read().unwrap();
    *g.as_ref()
        .and_then(|m| m.get(&obj.to_raw_address().as_usize()))
        .unwrap_or_else(|| panic!("unitvm: size of {} not declared", obj))
}

pub fn objref(a: Address) -> ObjectReference {
    ObjectReference::from_raw_address(a).unwrap()
}

#[macro_export]
macro_rules! define_unit_vm {
    ($name:ident, log: $log:expr, fwd_ptr: $fp:expr, fwd_bits: $fb:expr, mark: $mark:expr,
     pin: $pin:expr, los: $los:expr) => {
        $crate::define_unit_vm!($name, log: $log, fwd_ptr: $fp, fwd_bits: $fb, mark: $mark,
            pin: $pin, los: $los, unified: false);
    };
    // `unified: true` declares `UNIFIED_OBJECT_REFERENCE_ADDRESS` (true for this object model:
    // the object reference is the object start); the Compressor plan refuses to be created
    // without it, native mark-sweep sweeps differently with it.
    ($name:ident, log: $log:expr, fwd_ptr: $fp:expr, fwd_bits: $fb:expr, mark: $mark:expr,
     pin: $pin:expr, los: $los:expr, unified: $unified:expr) => {
        #[derive(Default)]
        pub struct $name;

        impl mmtk::vm::VMBinding for $name {
            type VMObjectModel = $name;
            type VMScanning = $name;
            type VMCollection = $name;
            type VMActivePlan = $name;
            type VMReferenceGlue = $name;
            type VMSlot = mmtk::vm::slot::SimpleSlot;
            type VMMemorySlice = mmtk::vm::slot::UnimplementedMemorySlice;
            const MAX_ALIGNMENT: usize = 1 << 6;
        }

        impl mmtk::vm::ObjectModel<$name> for $name {
            const GLOBAL_LOG_BIT_SPEC: mmtk::vm::VMGlobalLogBitSpec = $log;
            const LOCAL_FORWARDING_POINTER_SPEC: mmtk::vm::VMLocalForwardingPointerSpec = $fp;
            const LOCAL_FORWARDING_BITS_SPEC: mmtk::vm::VMLocalForwardingBitsSpec = $fb;
            const LOCAL_MARK_BIT_SPEC: mmtk::vm::VMLocalMarkBitSpec = $mark;
            const LOCAL_PINNING_BIT_SPEC: mmtk::vm::VMLocalPinningBitSpec = $pin;
            const LOCAL_LOS_MARK_NURSERY_SPEC: mmtk::vm::VMLocalLOSMarkNurserySpec = $los;
            const OBJECT_REF_OFFSET_LOWER_BOUND: isize = 0;
            const UNIFIED_OBJECT_REFERENCE_ADDRESS: bool = $unified;

            fn copy(
                _from: mmtk::util::ObjectReference,
                _semantics: mmtk::util::copy::CopySemantics,
                _copy_context: &mut mmtk::util::copy::GCWorkerCopyContext<$name>,
            ) -> mmtk::util::ObjectReference {
                unimplemented!()
            }
            fn copy_to(
                _from: mmtk::util::ObjectReference,
                _to: mmtk::util::ObjectReference,
                _region: mmtk::util::Address,
            ) -> mmtk::util::Address {
                unimplemented!()
            }
            fn get_current_size(object: mmtk::util::ObjectReference) -> usize {
                $crate::unitvm::size_of(object)
            }
            fn get_size_when_copied(object: mmtk::util::ObjectReference) -> usize {
                $crate::unitvm::size_of(object)
            }
            fn get_align_when_copied(_object: mmtk::util::ObjectReference) -> usize {
                8
            }
            fn get_align_offset_when_copied(_object: mmtk::util::ObjectReference) -> usize {
                0
            }
            fn get_reference_when_copied_to(
                _from: mmtk::util::ObjectReference,
                to: mmtk::util::Address,
            ) -> mmtk::util::ObjectReference {
                mmtk::util::ObjectReference::from_raw_address(to).unwrap()
            }
            fn get_type_descriptor(_reference: mmtk::util::ObjectReference) -> &'static [i8] {
                unimplemented!()
            }
            fn ref_to_object_start(object: mmtk::util::ObjectReference) -> mmtk::util::Address {
                object.to_raw_address()
            }
            fn ref_to_header(object: mmtk::util::ObjectReference) -> mmtk::util::Address {
                object.to_raw_address()
            }
            fn dump_object(_object: mmtk::util::ObjectReference) {}
        }

        impl mmtk::vm::Scanning<$name> for $name {
            fn scan_object<SV: mmtk::vm::SlotVisitor<mmtk::vm::slot::SimpleSlot>>(
                _tls: mmtk::util::VMWorkerThread,
                _object: mmtk::util::ObjectReference,
                _slot_visitor: &mut SV,
            ) {
                unimplemented!()
            }
            fn notify_initial_thread_scan_complete(_partial_scan: bool, _tls: mmtk::util::VMWorkerThread) {
                unimplemented!()
            }
            fn scan_roots_in_mutator_thread(
                _tls: mmtk::util::VMWorkerThread,
                _mutator: &'static mut mmtk::Mutator<$name>,
                _factory: impl mmtk::vm::RootsWorkFactory<mmtk::vm::slot::SimpleSlot>,
            ) {
                unimplemented!()
            }
            fn scan_vm_specific_roots(
                _tls: mmtk::util::VMWorkerThread,
                _factory: impl mmtk::vm::RootsWorkFactory<mmtk::vm::slot::SimpleSlot>,
            ) {
                unimplemented!()
            }
            fn supports_return_barrier() -> bool {
                false
            }
            fn prepare_for_roots_re_scanning() {
                unimplemented!()
            }
        }

        impl mmtk::vm::Collection<$name> for $name {
            fn stop_all_mutators<F>(_tls: mmtk::util::VMWorkerThread, _mutator_visitor: F)
            where
                F: FnMut(&'static mut mmtk::Mutator<$name>),
            {
                unimplemented!()
            }
            fn resume_mutators(_tls: mmtk::util::VMWorkerThread) {
                unimplemented!()
            }
            fn block_for_gc(_tls: mmtk::util::VMMutatorThread) {
                unimplemented!()
            }
            fn spawn_gc_thread(_tls: mmtk::util::VMThread, _ctx: mmtk::vm::GCThreadContext<$name>) {
                unimplemented!()
            }
        }

        impl mmtk::vm::ActivePlan<$name> for $name {
            fn number_of_mutators() -> usize {
                0
            }
            fn is_mutator(_tls: mmtk::util::VMThread) -> bool {
                false
            }
            fn mutator(_tls: mmtk::util::VMMutatorThread) -> &'static mut mmtk::Mutator<$name> {
                unimplemented!()
            }
            fn mutators<'a>() -> Box<dyn Iterator<Item = &'a mut mmtk::Mutator<$name>> + 'a> {
                Box::new(std::iter::empty())
            }
        }

        impl mmtk::vm::ReferenceGlue<$name> for $name {
            type FinalizableType = mmtk::util::ObjectReference;
            fn clear_referent(_new_reference: mmtk::util::ObjectReference) {
                unimplemented!()
            }
            fn get_referent(_object: mmtk::util::ObjectReference) -> Option<mmtk::util::ObjectReference> {
                unimplemented!()
            }
            fn set_referent(_reff: mmtk::util::ObjectReference, _referent: mmtk::util::ObjectReference) {
                unimplemented!()
            }
            fn enqueue_references(_references: &[mmtk::util::ObjectReference], _tls: mmtk::util::VMWorkerThread) {
                unimplemented!()
            }
        }
    };
}

// The default unit VM: per-object metadata bits on the side.  (The forwarding *pointer* stays in
// the header: a side forwarding pointer makes the side-metadata reservation ~144 TiB, which this
// host refuses with ENOMEM.)
define_unit_vm!(
    SideVM,
    log: mmtk::vm::VMGlobalLogBitSpec::side_first(),
    fwd_ptr: mmtk::vm::VMLocalForwardingPointerSpec::in_header(0),
    fwd_bits: mmtk::vm::VMLocalForwardingBitsSpec::side_first(),
    mark: mmtk::vm::VMLocalMarkBitSpec::side_after(
        <SideVM as mmtk::vm::ObjectModel<SideVM>>::LOCAL_FORWARDING_BITS_SPEC.as_spec()
    ),
    pin: mmtk::vm::VMLocalPinningBitSpec::side_after(
        <SideVM as mmtk::vm::ObjectModel<SideVM>>::LOCAL_MARK_BIT_SPEC.as_spec()
    ),
    los: mmtk::vm::VMLocalLOSMarkNurserySpec::side_after(
        <SideVM as mmtk::vm::ObjectModel<SideVM>>::LOCAL_PINNING_BIT_SPEC.as_spec()
    )
);

// A header-metadata unit VM: forwarding bits inside the forwarding pointer word, mark/pin/log/LOS
// bits share the second header byte.
define_unit_vm!(
    HeaderVM,
    log: mmtk::vm::VMGlobalLogBitSpec::in_header(8),
    fwd_ptr: mmtk::vm::VMLocalForwardingPointerSpec::in_header(64),
    fwd_bits: mmtk::vm::VMLocalForwardingBitsSpec::in_header(64),
    mark: mmtk::vm::VMLocalMarkBitSpec::in_header(9),
    pin: mmtk::vm::VMLocalPinningBitSpec::in_header(10),
    los: mmtk::vm::VMLocalLOSMarkNurserySpec::in_header(12)
);
