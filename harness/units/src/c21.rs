//! C21: bulk side-metadata zero/set/copy touch exactly the covered regions.
//!
//! For every (log_num_of_bits 0..=6) x (log_bytes_in_region in {3,4,8,12,15,22}) two custom specs
//! of equal shape (destination and copy source) get their own metadata windows, centred on a
//! metadata chunk (4 MiB) boundary where the data address space allows it, otherwise on a metadata
//! page boundary.  Before every call both windows (fields + raw margins) are re-filled with a
//! random pattern; `bzero_metadata` / `bset_metadata` / `bcopy_metadata_contiguous` is called for
//! a region-aligned `[start, start+size)`; the expected image is computed by a per-field loop with
//! this file's own packing code and the whole destination window (and the source window, which
//! must stay unchanged) is compared byte-by-byte.
//!
//! Ranges: all (start,end) pairs within +-E fields of the centre (exhaustive), random pairs over
//! the small window, and long ranges over a 4-page window whose ends lie near byte/word/page
//! boundaries.  Only region-aligned start/size are used (see the note in the report).
//!
//! A self-test runs the checker against private buggy bulk implementations (one extra end bit,
//! one bit short, whole-bytes part one byte short, start partial byte zeroed from bit 0, ...).
use mmtk::util::metadata::side_metadata::SideMetadataSpec;
use mmtk::util::Address;
use std::panic::{catch_unwind, AssertUnwindSafe};
use vcommon::{mix, Args, Report, Rng, J};

const REGIONS: [usize; 6] = [3, 4, 8, 12, 15, 22];
const MARGIN: usize = 32;
const SLOT_BYTES: usize = 4 << 30;

fn addr(x: usize) -> Address {
    unsafe { Address::from_usize(x) }
}

fn init(rep: &mut Report) -> bool {
    // SideVM cannot be used: its side forwarding-pointer spec needs 2^47 bytes of address space.
    let r = catch_unwind(|| {
        mmtk::verif::initialize_side_metadata::<crate::unitvm::HeaderVM>();
    });
    if r.is_err() {
        rep.inconclusive("initialize_side_metadata panicked (could not reserve the side metadata range)");
        return false;
    }
    true
}

/// A raw metadata window of one spec with its model image.
struct Half {
    spec: SideMetadataSpec,
    raw: *mut u8,
    img: Vec<u8>,
}

struct Win {
    bits: usize,
    region: usize,
    width: usize,
    /// number of fields in the window (excluding margins)
    n: usize,
    /// data address of field 0
    f0: usize,
    len: usize,
    /// field index of the window centre (metadata chunk/page boundary)
    centre: usize,
    centre_kind: &'static str,
    dst: Half,
    src: Half,
}

fn mask_of(width: usize) -> u64 {
    if width == 64 {
        u64::MAX
    } else {
        (1u64 << width) - 1
    }
}

fn img_get(img: &[u8], width: usize, i: usize) -> u64 {
    let bit = i * width;
    let p = MARGIN + bit / 8;
    if width >= 8 {
        let mut v = 0u64;
        for k in 0..width / 8 {
            v |= (img[p + k] as u64) << (8 * k);
        }
        v
    } else {
        ((img[p] >> (bit % 8)) as u64) & mask_of(width)
    }
}

fn img_put(img: &mut [u8], width: usize, i: usize, v: u64) {
    let bit = i * width;
    let p = MARGIN + bit / 8;
    if width >= 8 {
        for k in 0..width / 8 {
            img[p + k] = (v >> (8 * k)) as u8;
        }
    } else {
        let m = (mask_of(width) as u8) << (bit % 8);
        img[p] = (img[p] & !m) | (((v as u8) << (bit % 8)) & m);
    }
}

impl Win {
    /// `half_bytes`: metadata bytes on each side of the centre.
    fn new(
        bits: usize,
        region: usize,
        slot: usize,
        half_bytes: usize,
        rng: &mut Rng,
        rep: &mut Report,
    ) -> Option<Win> {
        let width = 1usize << bits;
        let ratio = 3 + region - bits;
        // centre (metadata offset relative to the spec start): chunk-aligned if the data address
        // stays below 2^46, else page-aligned
        let (mrc, centre_kind) = if ratio <= 22 {
            let max_m = std::cmp::min(15, (1usize << (24 - ratio)) - 1);
            ((4usize << 20) * (1 + rng.usize_below(max_m)), "chunk")
        } else {
            let max_m = (1usize << (34 - ratio)) - 1;
            (4096 * (4 + rng.usize_below(max_m - 4)), "page")
        };
        let meta_rel0 = mrc - half_bytes;
        let n = 2 * half_bytes * 8 / width;
        let f0 = (meta_rel0 * 8 / width) << region;
        let lo_field = (meta_rel0 - MARGIN) * 8 / width;
        let hi_field = (mrc + half_bytes + MARGIN) * 8 / width;
        let dlo = (lo_field << region) & !4095;
        let dhi = ((hi_field << region) + 4095) & !4095;
        let len = 2 * half_bytes + 2 * MARGIN;
        let base = mmtk::util::metadata::side_metadata::global_side_metadata_base_address();
        let mut mk = |name: &'static str, slot: usize| -> Option<Half> {
            let spec = SideMetadataSpec {
                name,
                is_global: false,
                offset: slot * SLOT_BYTES,
                log_num_of_bits: bits,
                log_bytes_in_region: region,
            };
            if !mmtk::verif::map_side_metadata(&[spec], addr(dlo), dhi - dlo) {
                rep.inconclusive(format!("could not map metadata for bits={} region={}", bits, region));
                return None;
            }
            let meta0 = base.as_usize() + spec.offset + meta_rel0;
            let got = mmtk::verif::address_to_meta_address(&spec, addr(f0));
            let sh = mmtk::verif::meta_byte_lshift(&spec, addr(f0));
            if got.as_usize() != meta0 || sh != 0 {
                rep.violation(
                    format!("addr-translation:bits={}:region={}", bits, region),
                    format!(
                        "spec offset={:#x} data={:#x}: expected meta {:#x} shift 0, got {} shift {}",
                        spec.offset, f0, meta0, got, sh
                    ),
                );
                return None;
            }
            let raw = (meta0 - MARGIN) as *mut u8;
            if !addr(raw as usize).is_mapped() || !addr(raw as usize + len - 1).is_mapped() {
                rep.inconclusive(format!("window not mapped for bits={} region={}", bits, region));
                return None;
            }
            Some(Half {
                spec,
                raw,
                img: vec![0; len],
            })
        };
        let dst = mk("c21dst", slot)?;
        let src = mk("c21src", slot + 1)?;
        Some(Win {
            bits,
            region,
            width,
            n,
            f0,
            len,
            centre: n / 2,
            centre_kind,
            dst,
            src,
        })
    }

    fn refill(&mut self, rng: &mut Rng) {
        for h in [&mut self.dst, &mut self.src] {
            let mut k = 0;
            while k + 8 <= h.img.len() {
                h.img[k..k + 8].copy_from_slice(&rng.next().to_le_bytes());
                k += 8;
            }
            while k < h.img.len() {
                h.img[k] = rng.next() as u8;
                k += 1;
            }
            unsafe { std::ptr::copy_nonoverlapping(h.img.as_ptr(), h.raw, h.img.len()) };
        }
    }

    fn data_addr(&self, k: usize) -> Address {
        addr(self.f0 + (k << self.region))
    }
}

fn mem<'a>(h: &'a Half, len: usize) -> &'a [u8] {
    unsafe { std::slice::from_raw_parts(h.raw, len) }
}

#[derive(Clone, Copy, PartialEq, Debug)]
enum Sut {
    Real,
    /// last partial byte: one extra bit
    MutEndBitPlus1,
    /// last partial byte: one bit short
    MutEndBitMinus1,
    /// whole-bytes part one byte short
    MutMiddleShort,
    /// first partial byte handled from bit 0
    MutStartFromZero,
    /// range one whole field too long
    MutOneFieldLong,
}

const OPS: [&str; 3] = ["bzero_metadata", "bset_metadata", "bcopy_metadata_contiguous"];

/// Private bulk implementation over window-relative bit offsets with optional bugs (self-test).
unsafe fn my_bulk(dst: *mut u8, src: *const u8, sbit: usize, ebit: usize, op: usize, bug: Sut, width: usize) {
    let ebit = if bug == Sut::MutOneFieldLong { ebit + width } else { ebit };
    if sbit >= ebit {
        return;
    }
    let apply = |p: usize, m: u8| {
        let d = dst.add(p);
        match op {
            0 => *d &= !m,
            1 => *d |= m,
            _ => *d = (*d & !m) | (*src.add(p) & m),
        }
    };
    let (sb, sbb) = (sbit / 8, (sbit % 8) as u32);
    let (eb, mut ebb) = (ebit / 8, (ebit % 8) as u32);
    if ebb != 0 && bug == Sut::MutEndBitPlus1 {
        ebb += 1;
    }
    if ebb > 1 && bug == Sut::MutEndBitMinus1 {
        ebb -= 1;
    }
    let lowmask = |b: u32| -> u8 {
        if b >= 8 {
            0xff
        } else {
            ((1u16 << b) - 1) as u8
        }
    };
    if sb == eb {
        apply(sb, lowmask(ebb) & !lowmask(sbb));
        return;
    }
    let mut first_whole = sb;
    if sbb != 0 {
        let m = if bug == Sut::MutStartFromZero { 0xff } else { !lowmask(sbb) };
        apply(sb, m);
        first_whole = sb + 1;
    }
    let last_whole = if bug == Sut::MutMiddleShort && eb > first_whole { eb - 1 } else { eb };
    for p in first_whole..last_whole {
        apply(p, 0xff);
    }
    if ebb != 0 {
        apply(eb, lowmask(ebb));
    }
}

struct Stats {
    per_op: [u64; 3],
    partial_start: u64,
    partial_end: u64,
    same_byte: u64,
    cross_word: u64,
    cross_centre: u64,
    empty: u64,
    long: u64,
}

/// One case: fields [k0, k1) of the window.
fn check_case(win: &mut Win, op: usize, k0: usize, k1: usize, sut: Sut, rng: &mut Rng, rep: &mut Report, st: &mut Stats) {
    win.refill(rng);
    let width = win.width;
    let start = win.data_addr(k0);
    let size = (k1 - k0) << win.region;
    let (dspec, sspec) = (win.dst.spec, win.src.spec);
    let r = catch_unwind(AssertUnwindSafe(|| {
        if sut == Sut::Real {
            match op {
                0 => dspec.bzero_metadata(start, size),
                1 => dspec.bset_metadata(start, size),
                _ => dspec.bcopy_metadata_contiguous(start, size, &sspec),
            }
        } else {
            unsafe {
                my_bulk(
                    win.dst.raw,
                    win.src.raw,
                    MARGIN * 8 + k0 * width,
                    MARGIN * 8 + k1 * width,
                    op,
                    sut,
                    width,
                )
            }
        }
    }));
    // expected: per-field loop
    let m = mask_of(width);
    for k in k0..k1 {
        let v = match op {
            0 => 0,
            1 => m,
            _ => img_get(&win.src.img, width, k),
        };
        img_put(&mut win.dst.img, width, k, v);
    }
    // classification
    let sbit = k0 * width;
    let ebit = k1 * width;
    let (sb, eb) = if width >= 8 {
        ((sbit / 8) % 8, (ebit / 8) % 8)
    } else {
        (sbit % 8, ebit % 8)
    };
    let nbytes = (ebit + 7) / 8 - sbit / 8;
    let span = if k0 == k1 {
        0
    } else if sbit / 8 == (ebit - 1) / 8 {
        1
    } else if nbytes <= 8 {
        2
    } else if nbytes <= 64 {
        3
    } else {
        4
    };
    let cross_word = k1 > k0 && sbit / 64 != (ebit - 1) / 64;
    let cross_centre = k0 < win.centre && k1 > win.centre;
    st.per_op[op] += 1;
    if k0 == k1 {
        st.empty += 1;
        rep.evaluations += 1;
    } else {
        if sbit % 8 != 0 {
            st.partial_start += 1;
        }
        if ebit % 8 != 0 {
            st.partial_end += 1;
        }
        if span == 1 {
            st.same_byte += 1;
        }
        if cross_word {
            st.cross_word += 1;
        }
        if cross_centre {
            st.cross_centre += 1;
        }
        if span == 4 {
            st.long += 1;
        }
        rep.eval(mix(
            mix(win.bits as u64, op as u64),
            mix((sb * 8 + eb) as u64, span as u64 * 4 + cross_word as u64 * 2 + cross_centre as u64),
        ));
        rep.key(mix(mix(0x21, win.bits as u64 * 64 + win.region as u64), mix(op as u64, span as u64)));
    }
    let describe = |win: &Win| {
        format!(
            "spec{{bits=2^{},region=2^{},dst offset={:#x},src offset={:#x}}} {}(start={:#x}, size={:#x}) = fields [{}..{}) of a {}-field window centred on a metadata {} boundary at field {}; first bit-in-byte {}, end bit-in-byte {}",
            win.bits,
            win.region,
            dspec.offset,
            sspec.offset,
            OPS[op],
            start.as_usize(),
            size,
            k0,
            k1,
            win.n,
            win.centre_kind,
            win.centre,
            sbit % 8,
            ebit % 8
        )
    };
    if let Err(e) = r {
        let msg = e
            .downcast_ref::<String>()
            .cloned()
            .or_else(|| e.downcast_ref::<&str>().map(|s| s.to_string()))
            .unwrap_or_default();
        rep.violation(
            format!("{}:panic:bits={}", OPS[op], win.bits),
            format!("{} panicked: {:?}", describe(win), msg),
        );
        return;
    }
    let len = win.len;
    let dmem = mem(&win.dst, len);
    if dmem != &win.dst.img[..] {
        // classify the differing bits
        let mut inside_wrong = false;
        let mut before = false;
        let mut after = false;
        let mut first = None;
        for (b, (x, y)) in dmem.iter().zip(win.dst.img.iter()).enumerate() {
            let d = x ^ y;
            if d == 0 {
                continue;
            }
            first.get_or_insert(b);
            for k in 0..8 {
                if d & (1 << k) != 0 {
                    let bit = (b * 8 + k) as isize - (MARGIN * 8) as isize;
                    if bit < sbit as isize {
                        before = true;
                    } else if bit >= ebit as isize {
                        after = true;
                    } else {
                        inside_wrong = true;
                    }
                }
            }
        }
        let kind = if before && after {
            "outside-changed-both-sides"
        } else if before {
            "outside-changed-before-start"
        } else if after {
            "outside-changed-after-end"
        } else {
            "covered-field-wrong"
        };
        let _ = inside_wrong;
        let b = first.unwrap();
        let lo = b.saturating_sub(4);
        let hi = std::cmp::min(len, b + 12);
        rep.violation(
            format!(
                "{}:{}:bits={}:startbit={}:endbit={}",
                OPS[op],
                kind,
                win.bits,
                sbit % 8,
                ebit % 8
            ),
            format!(
                "{}; first differing window byte {} (= metadata byte {} relative to field 0): memory[{}..{}]={:02x?} expected={:02x?}",
                describe(win),
                b,
                b as isize - MARGIN as isize,
                lo,
                hi,
                &dmem[lo..hi],
                &win.dst.img[lo..hi]
            ),
        );
    }
    if mem(&win.src, len) != &win.src.img[..] {
        rep.violation(
            format!("{}:source-or-other-spec-changed:bits={}", OPS[op], win.bits),
            format!("{}; the other spec's window changed", describe(win)),
        );
    }
    if rep.want_sample() && span >= 2 && sbit % 8 != 0 && ebit % 8 != 0 {
        rep.sample(J::obj(vec![
            ("bits", J::i(win.bits as u64)),
            ("region", J::i(win.region as u64)),
            ("op", J::s(OPS[op])),
            ("k0", J::i(k0 as u64)),
            ("k1", J::i(k1 as u64)),
            ("centre", J::i(win.centre as u64)),
            ("start", J::s(format!("{:#x}", start.as_usize()))),
            ("size", J::i(size as u64)),
        ]));
    }
}

fn new_stats() -> Stats {
    Stats {
        per_op: [0; 3],
        partial_start: 0,
        partial_end: 0,
        same_byte: 0,
        cross_word: 0,
        cross_centre: 0,
        empty: 0,
        long: 0,
    }
}

fn selftest(rng: &mut Rng, rep: &mut Report, slot: &mut usize) {
    let muts = [
        Sut::MutEndBitPlus1,
        Sut::MutEndBitMinus1,
        Sut::MutMiddleShort,
        Sut::MutStartFromZero,
        Sut::MutOneFieldLong,
    ];
    let mut caught = 0;
    let mut total = 0;
    for &bits in &[0usize, 1, 2, 3] {
        let mut scratch0 = Report::new("selftest");
        let Some(mut win) = Win::new(bits, 3, *slot, 64, rng, &mut scratch0) else {
            rep.inconclusive("self-test window could not be mapped");
            return;
        };
        *slot += 2;
        for &m in &muts {
            if bits == 3 && matches!(m, Sut::MutEndBitPlus1 | Sut::MutEndBitMinus1 | Sut::MutStartFromZero) {
                continue; // byte-wide fields have no partial bytes
            }
            total += 1;
            let mut scratch = Report::new("selftest");
            let mut st = new_stats();
            let c = win.centre;
            for k0 in c - 20..=c + 20 {
                for k1 in k0..=c + 20 {
                    for op in 0..3 {
                        check_case(&mut win, op, k0, k1, m, rng, &mut scratch, &mut st);
                    }
                }
            }
            // every op must have been flagged
            let all = (0..3).all(|op| scratch.violations.iter().any(|(s, _)| s.starts_with(OPS[op])));
            if all {
                caught += 1;
            } else {
                rep.inconclusive(format!("oracle self-test: mutant {:?} (bits=2^{}) was NOT flagged for every op", m, bits));
            }
        }
    }
    rep.count("selftest_mutants_total", total);
    rep.count("selftest_mutants_caught", caught);
}

pub fn run(args: &Args, rep: &mut Report) {
    let mut rng = Rng::new(args.seed() ^ 0xC21);
    if !init(rep) {
        return;
    }
    let thorough = args.thorough();
    let mut slot = 1usize;
    selftest(&mut rng, rep, &mut slot);
    let mut st = new_stats();
    let e_max = if thorough { 400 } else { 140 };
    let n_random = if thorough { 100_000 } else { 10_000 };
    let n_long = if thorough { 20_000 } else { 1_500 };
    let only_bits = args.get("bits").map(|s| s.parse::<usize>().unwrap());
    let mut configs = 0;
    let mut chunk_centred = 0;
    for bits in 0..=6usize {
        if only_bits.is_some() && only_bits != Some(bits) {
            continue;
        }
        for &region in REGIONS.iter() {
            let width = 1usize << bits;
            // small window: at least 64 metadata bytes and at least 32 fields on each side
            let half = std::cmp::max(64, 32 * width / 8);
            let half = if thorough { half * 4 } else { half };
            let Some(mut win) = Win::new(bits, region, slot, half, &mut rng, rep) else {
                slot += 2;
                continue;
            };
            slot += 2;
            configs += 1;
            if win.centre_kind == "chunk" {
                chunk_centred += 1;
            }
            let c = win.centre;
            let e = std::cmp::min(e_max, win.n / 2);
            // exhaustive pairs around the centre
            for k0 in c - e..=c + e {
                for k1 in k0..=c + e {
                    for op in 0..3 {
                        check_case(&mut win, op, k0, k1, Sut::Real, &mut rng, rep, &mut st);
                    }
                }
            }
            // random pairs over the whole small window
            for _ in 0..n_random {
                let a = rng.usize_below(win.n + 1);
                let b = rng.usize_below(win.n + 1);
                let (k0, k1) = if a <= b { (a, b) } else { (b, a) };
                let op = rng.usize_below(3);
                check_case(&mut win, op, k0, k1, Sut::Real, &mut rng, rep, &mut st);
            }
            // long ranges: window of 2 pages + 64 bytes on each side of the centre; both ends near
            // a page boundary (centre - page, centre, centre + page) +- a few bytes worth of fields
            let Some(mut big) = Win::new(bits, region, slot, 2 * 4096 + 64, &mut rng, rep) else {
                slot += 2;
                continue;
            };
            slot += 2;
            let fields_per_page = 4096 * 8 / width;
            let near = std::cmp::max(4, 24 * 8 / width); // within 24 bytes
            for _ in 0..n_long {
                let pick = |rng: &mut Rng| -> usize {
                    let anchor = match rng.below(6) {
                        0 => big.centre - 2 * fields_per_page,
                        1 => big.centre - fields_per_page,
                        2 => big.centre,
                        3 => big.centre + fields_per_page,
                        4 => big.centre + 2 * fields_per_page,
                        _ => rng.usize_below(big.n),
                    };
                    let d = rng.usize_below(2 * near + 1);
                    (anchor + d).saturating_sub(near).min(big.n)
                };
                let a = pick(&mut rng);
                let b = pick(&mut rng);
                let (k0, k1) = if a <= b { (a, b) } else { (b, a) };
                let op = rng.usize_below(3);
                check_case(&mut big, op, k0, k1, Sut::Real, &mut rng, rep, &mut st);
            }
        }
    }
    for op in 0..3 {
        rep.count(&format!("op_{}", OPS[op]), st.per_op[op]);
    }
    rep.count("configs", configs);
    rep.count("configs_centred_on_metadata_chunk_boundary", chunk_centred);
    rep.count("partial_start_byte", st.partial_start);
    rep.count("partial_end_byte", st.partial_end);
    rep.count("within_one_byte", st.same_byte);
    rep.count("crosses_word", st.cross_word);
    rep.count("crosses_page_or_chunk_centre", st.cross_centre);
    rep.count("longer_than_64_bytes", st.long);
    rep.count("empty_ranges", st.empty);
    rep.note("only region-aligned start and size are used: for unaligned data addresses the code includes the region containing `start` and excludes the region containing `start+size`, which the statement ('regions that lie in the range') does not pin down");
    rep.note("initialize_side_metadata::<SideVM>() cannot reserve its range (side forwarding pointer spec needs 2^47 bytes); HeaderVM is used");
}
