//! C32: space descriptors encode and decode their heap range.
//!
//! For every chunk-aligned contiguous range within the limits of the 32-bit-layout encoding
//! (14-bit odd mantissa, 5-bit exponent, 10-bit chunk count) the descriptor made by
//! `SpaceDescriptor::create_descriptor_from_heap_range` must report the same start, the same
//! extent, `is_contiguous()`, and `is_contiguous_hi()` exactly when the range ends at the top of
//! the heap.  Descriptors from `create_descriptor()` are pairwise distinct and non-contiguous.
//!
//! The mantissa/exponent encoding is only used when the process-wide `VMLayout` has
//! `force_use_contiguous_spaces == false`, so the monitor installs such layouts (the stock 32-bit
//! one first, before anything reads the layout).
use mmtk::util::heap::vm_layout::{VMLayout, LOG_BYTES_IN_CHUNK};
use mmtk::util::Address;
use mmtk::verif::SpaceDescriptor;
use std::collections::HashSet;
use std::panic::{catch_unwind, AssertUnwindSafe};
use vcommon::{mix, Args, Report, Rng, J};

// Limits of the encoding (the domain the property quantifies over).
const MANTISSA_BITS: u32 = 14;
const EXPONENT_BITS: u32 = 5;
const SIZE_BITS: u32 = 10;
/// The encoding represents `start` as `mantissa << (BASE + exponent)`.
const BASE: u32 = 32 - MANTISSA_BITS;
const MAX_CHUNKS: usize = (1 << SIZE_BITS) - 1;
/// Smallest exponent for which `odd << (BASE + e)` is chunk aligned.
const MIN_EXP: u32 = LOG_BYTES_IN_CHUNK as u32 - BASE;
const MAX_EXP: u32 = (1 << EXPONENT_BITS) - 1;

fn raw(d: SpaceDescriptor) -> usize {
    // SpaceDescriptor is #[repr(transparent)] over usize.
    unsafe { std::mem::transmute::<SpaceDescriptor, usize>(d) }
}

struct Layout {
    id: u64,
    name: &'static str,
    layout: VMLayout,
}

fn addr(x: u128) -> Address {
    debug_assert!(x <= usize::MAX as u128);
    unsafe { Address::from_usize(x as usize) }
}

fn layouts() -> Vec<Layout> {
    let a = |x: usize| unsafe { Address::from_usize(x) };
    vec![
        Layout {
            id: 0,
            name: "stock-32bit",
            layout: VMLayout::new_32bit(),
        },
        Layout {
            // heap_end has a wide odd mantissa (0x2f35 << 22, below 2^36): every range ending there is encodable
            id: 1,
            name: "custom-odd-end",
            layout: VMLayout {
                log_address_space: 40,
                heap_start: a(0x4000_0000),
                heap_end: a(0x2f35usize << 22),
                log_space_extent: 31,
                force_use_contiguous_spaces: false,
            },
        },
        Layout {
            // the 64-bit address range used non-contiguously (e.g. compressed-pointer style setups)
            id: 2,
            name: "64bit-range-discontiguous",
            layout: VMLayout {
                log_address_space: 47,
                heap_start: a(0x0000_0200_0000_0000),
                heap_end: a(0x0000_2200_0000_0000),
                log_space_extent: 41,
                force_use_contiguous_spaces: false,
            },
        },
    ]
}

struct Ctx<'a> {
    rep: &'a mut Report,
    layout_id: u64,
    heap_end: u128,
    tops_seen: u64,
    checked: u64,
}

fn chunk_class(c: usize) -> u64 {
    match c {
        1 => 0,
        2 => 1,
        3..=511 => 2,
        512 => 3,
        513..=1021 => 4,
        1022 => 5,
        _ => 6,
    }
}

impl<'a> Ctx<'a> {
    /// One (start, chunks) pair.  `start = m << (BASE+e)`, m odd.
    #[inline]
    fn check(&mut self, m: u64, e: u32, chunks: usize) {
        let start: u128 = (m as u128) << (BASE + e);
        let extent: u128 = (chunks as u128) << LOG_BYTES_IN_CHUNK;
        let end = start + extent;
        debug_assert!(end <= usize::MAX as u128 && start != 0);
        let want_top = end == self.heap_end;
        let d = SpaceDescriptor::create_descriptor_from_heap_range(addr(start), addr(end));
        let got_start = d.get_start().as_usize() as u128;
        let got_extent = d.get_extent() as u128;
        let c = d.is_contiguous();
        let hi = d.is_contiguous_hi();
        self.checked += 1;
        if want_top {
            self.tops_seen += 1;
        }
        if got_start != start || got_extent != extent || !c || hi != want_top || d.is_empty() {
            let what = if got_start != start {
                "start"
            } else if got_extent != extent {
                "extent"
            } else if !c {
                "is_contiguous"
            } else if hi != want_top {
                "is_contiguous_hi"
            } else {
                "is_empty"
            };
            self.rep.violation(
                format!(
                    "descriptor:roundtrip:{}:layout={}:chunks_class={}",
                    what,
                    self.layout_id,
                    chunk_class(chunks)
                ),
                format!(
                    "start={:#x} (mantissa={:#x} exponent={}) chunks={} end={:#x} heap_end={:#x}: descriptor={:#x} get_start={:#x} get_extent={:#x} (want {:#x}) is_contiguous={} is_contiguous_hi={} (want {})",
                    start, m, e, chunks, end, self.heap_end, raw(d), got_start, got_extent, extent, c, hi, want_top
                ),
            );
        }
        if self.rep.want_sample() && (want_top || (m > 1 && chunks > 1)) {
            self.rep.sample(J::obj(vec![
                ("layout", J::i(self.layout_id)),
                ("start", J::s(format!("{:#x}", start))),
                ("chunks", J::i(chunks as u64)),
                ("descriptor", J::s(format!("{:#x}", raw(d)))),
                ("top", J::Bool(want_top)),
            ]));
        }
    }

    fn class_key(&self, m: u64, e: u32, chunks: usize, top: bool) -> u64 {
        mix(
            mix(self.layout_id, e as u64),
            mix(
                (64 - m.leading_zeros()) as u64,
                chunk_class(chunks) * 2 + top as u64,
            ),
        )
    }
}

fn odd_part(x: u128) -> (u64, u32) {
    let tz = x.trailing_zeros();
    ((x >> tz) as u64, tz)
}

fn run_layout(args: &Args, rep: &mut Report, rng: &mut Rng, l: &Layout) {
    let heap_end = l.layout.heap_end.as_usize() as u128;
    let mut cx = Ctx {
        rep,
        layout_id: l.id,
        heap_end,
        tops_seen: 0,
        checked: 0,
    };
    let boundary_chunks: [usize; 10] = [1, 2, 3, 255, 511, 512, 513, 1021, 1022, 1023];
    let all_chunks: Vec<usize> = (1..=MAX_CHUNKS).collect();
    let boundary_mantissas: Vec<u64> = {
        let mut v = vec![1u64, 3, 5, 7];
        for k in 2..MANTISSA_BITS {
            v.push((1 << k) - 1);
            v.push((1 << k) + 1);
        }
        v.push((1 << MANTISSA_BITS) - 1);
        v.push((1 << MANTISSA_BITS) - 3);
        v.sort_unstable();
        v.dedup();
        v
    };
    // 1. every odd mantissa x every exponent x boundary chunk counts (thorough: every chunk count)
    for e in MIN_EXP..=MAX_EXP {
        let mut m = 1u64;
        while m < (1 << MANTISSA_BITS) {
            let list: &[usize] = if args.thorough() {
                &all_chunks
            } else {
                &boundary_chunks
            };
            for &c in list {
                cx.check(m, e, c);
            }
            // class keys: one per (mantissa width, exponent, chunk class)
            for &c in &boundary_chunks {
                let k = cx.class_key(m, e, c, false);
                cx.rep.key(k);
            }
            m += 2;
        }
    }
    // 2. boundary mantissas x every exponent x every chunk count
    if !args.thorough() {
        for e in MIN_EXP..=MAX_EXP {
            for &m in &boundary_mantissas {
                for c in 1..=MAX_CHUNKS {
                    cx.check(m, e, c);
                }
            }
        }
    }
    // 3. ranges ending exactly at the top of the heap (the only ones with the HI flag), and their
    //    neighbours ending one chunk below / above.
    let mut top_cases = 0u64;
    for delta in [0i128, -1, 1] {
        for c in 1..=MAX_CHUNKS {
            let end = heap_end as i128 + delta * (1i128 << LOG_BYTES_IN_CHUNK);
            let start = end - ((c as i128) << LOG_BYTES_IN_CHUNK);
            if start <= 0 || end > usize::MAX as i128 {
                continue;
            }
            let (m, tz) = odd_part(start as u128);
            if tz < BASE + MIN_EXP || tz - BASE > MAX_EXP || m >= (1 << MANTISSA_BITS) {
                continue; // not encodable within the 32-bit limits
            }
            cx.check(m, tz - BASE, c);
            let k = cx.class_key(m, tz - BASE, c, delta == 0);
            cx.rep.key(k);
            if delta == 0 {
                top_cases += 1;
            }
        }
    }
    // 4. PRNG over the lattice
    let n = if args.thorough() { 20_000_000 } else { 1_000_000 };
    for _ in 0..n {
        let m = rng.below(1 << (MANTISSA_BITS - 1)) * 2 + 1;
        let e = rng.range(MIN_EXP as u64, MAX_EXP as u64) as u32;
        let c = rng.range(1, MAX_CHUNKS as u64) as usize;
        cx.check(m, e, c);
    }
    let (checked, tops) = (cx.checked, cx.tops_seen);
    rep.evaluations += checked;
    rep.count("contiguous_ranges_checked", checked);
    rep.count("top_of_heap_ranges", tops);
    rep.count(&format!("layout_{}_top_ranges", l.id), top_cases);
    rep.count("layouts_run", 1);

    // 5. Observation only (outside the quantifier of the property): chunk-aligned starts whose odd
    //    part needs more than 14 mantissa bits.  Legal per the debug assertions on a 64-bit host,
    //    but beyond "the 32-bit layout encoding limits", so mismatches are counted, not flagged.
    let mut beyond_ok = 0u64;
    let mut beyond_bad = 0u64;
    for _ in 0..100_000 {
        let chunk_index = rng.range(1, (1u64 << (47 - LOG_BYTES_IN_CHUNK as u32)) - 1024);
        let start = (chunk_index as u128) << LOG_BYTES_IN_CHUNK;
        let (m, _) = odd_part(start);
        if m < (1 << MANTISSA_BITS) {
            continue;
        }
        let c = rng.range(1, MAX_CHUNKS as u64) as usize;
        let end = start + ((c as u128) << LOG_BYTES_IN_CHUNK);
        let d = SpaceDescriptor::create_descriptor_from_heap_range(addr(start), addr(end));
        if d.get_start().as_usize() as u128 == start
            && d.get_extent() as u128 == end - start
            && d.is_contiguous()
            && d.is_contiguous_hi() == (end == heap_end)
        {
            beyond_ok += 1;
        } else {
            beyond_bad += 1;
        }
    }
    rep.count("beyond_14bit_mantissa_roundtrip_ok", beyond_ok);
    rep.count("beyond_14bit_mantissa_roundtrip_mismatch", beyond_bad);
}

fn discontiguous(args: &Args, rep: &mut Report) {
    let n: usize = if args.thorough() { 4_000_000 } else { 400_000 };
    let mut seen: HashSet<usize> = HashSet::with_capacity(2 * n);
    let mut all: Vec<SpaceDescriptor> = Vec::with_capacity(2 * n);
    // sequential, interleaved with contiguous creations (which must not disturb the counter)
    for i in 0..n {
        let d = SpaceDescriptor::create_descriptor();
        all.push(d);
        if i % 64 == 0 {
            let s = addr(((2 * (i as u128 % 4096) + 1) << 22) as u128);
            let _ = SpaceDescriptor::create_descriptor_from_heap_range(s, s + (1usize << 22));
        }
    }
    // concurrent
    let threads = 4;
    let per = n / threads;
    let handles: Vec<_> = (0..threads)
        .map(|_| {
            std::thread::spawn(move || {
                (0..per)
                    .map(|_| SpaceDescriptor::create_descriptor())
                    .collect::<Vec<_>>()
            })
        })
        .collect();
    for h in handles {
        match h.join() {
            Ok(v) => all.extend(v),
            Err(_) => rep.violation(
                "descriptor:discontiguous:panic",
                "create_descriptor panicked in a thread",
            ),
        }
    }
    let mut bad_flag = 0u64;
    for (i, d) in all.iter().enumerate() {
        if d.is_contiguous() || d.is_contiguous_hi() || d.is_empty() {
            bad_flag += 1;
            rep.violation(
                "descriptor:discontiguous:flags",
                format!(
                    "descriptor #{} = {:#x}: is_contiguous={} is_contiguous_hi={} is_empty={}",
                    i,
                    raw(*d),
                    d.is_contiguous(),
                    d.is_contiguous_hi(),
                    d.is_empty()
                ),
            );
        }
        if !seen.insert(raw(*d)) {
            rep.violation(
                "descriptor:discontiguous:duplicate",
                format!("descriptor #{} = {:#x} was handed out twice", i, raw(*d)),
            );
        }
    }
    // PartialEq agrees with distinctness on neighbours in value order
    let mut sorted = all.clone();
    sorted.sort_by_key(|d| raw(*d));
    for w in sorted.windows(2) {
        if w[0] == w[1] {
            rep.violation(
                "descriptor:discontiguous:equal",
                format!("two discontiguous descriptors compare equal: {:?}", w[0]),
            );
        }
    }
    let _ = bad_flag;
    rep.evaluations += all.len() as u64;
    rep.key(mix(0xD15C, 0));
    rep.key(mix(0xD15C, 1));
    rep.count("discontiguous_descriptors", all.len() as u64);
    rep.count("discontiguous_concurrent", (per * threads) as u64);
}

pub fn run(args: &Args, rep: &mut Report) {
    let mut rng = Rng::new(args.seed() ^ 0xC32);
    let ls = layouts();
    let only: Option<u64> = args.get("case").and_then(|c| c.parse().ok());
    let mut first = true;
    for l in &ls {
        if let Some(o) = only {
            if o != l.id {
                continue;
            }
        }
        // The layout must be installed before anything reads it.  Re-installing a layout later in
        // the same process is accepted by release builds (no MMTK instance exists here); a build
        // with debug assertions refuses it, in which case the remaining layouts are skipped
        // (run them in separate processes with `--case <layout id>`).
        let l2 = l.layout.clone();
        let r = catch_unwind(AssertUnwindSafe(|| mmtk::verif::set_vm_layout(l2)));
        if r.is_err() {
            if first {
                rep.inconclusive(format!("could not install layout {}", l.name));
                return;
            }
            rep.note(format!(
                "layout {} skipped: set_vm_layout refused a second layout in this process (use --case {})",
                l.name, l.id
            ));
            continue;
        }
        first = false;
        let seen = mmtk::util::heap::vm_layout::vm_layout();
        if seen.force_use_contiguous_spaces || seen.heap_end != l.layout.heap_end {
            rep.inconclusive(format!("layout {} did not take effect", l.name));
            continue;
        }
        let r = catch_unwind(AssertUnwindSafe(|| run_layout(args, rep, &mut rng, l)));
        if let Err(p) = r {
            let msg = p
                .downcast_ref::<String>()
                .cloned()
                .or_else(|| p.downcast_ref::<&str>().map(|s| s.to_string()))
                .unwrap_or_default();
            rep.violation(
                format!("descriptor:panic:layout={}", l.id),
                format!("panic inside a legal SpaceDescriptor call: {}", msg),
            );
        }
    }
    discontiguous(args, rep);
    rep.note(format!(
        "domain: start = odd mantissa (<2^{}) << ({}+e), e in {}..={}, chunks in 1..={}; {} all chunk counts for every mantissa",
        MANTISSA_BITS,
        BASE,
        MIN_EXP,
        MAX_EXP,
        MAX_CHUNKS,
        if args.thorough() { "thorough:" } else { "quick: boundary chunk counts for every mantissa and" }
    ));
    rep.note("starts needing more than 14 mantissa bits are outside the property's quantifier; their round-trip is only counted (beyond_14bit_*)");
}
