//! C26: free lists allocate disjoint runs and coalesce back completely.
//!
//! Reference model: a partition of `[0, n)` into runs (allocated, or free in the list of one head),
//! a multiset of free-run sizes per head, and the set of uncoalescable units.  The only thing the
//! model does not predict is WHICH sufficiently large free run `alloc` picks: any free run (of the
//! allocating head) of sufficient size is accepted and the model is updated with the returned unit.
//!
//! Legality rules derived from src/util/freelist.rs and its users (freelistpageresource.rs,
//! map32.rs, map64.rs), which the generators obey:
//!   * `free(u)` only for the first unit of an allocated run (debug_assert in `free`);
//!   * `size(u)`, `alloc_from_unit(_, u)`, `set/clear_uncoalescable(u)` only for the first unit of a
//!     run (or the bottom sentinel for the marks): the entries of interior units hold stale bits;
//!   * links to a head sentinel are decoded as `self.head()`, so a list must never unlink a free run
//!     that sits in another head's list: `free` may only coalesce with neighbours of the same head
//!     (mmtk guarantees it with uncoalescable region boundaries) and `alloc_from_unit` is only used
//!     on the list's own free runs (or on allocated runs, where it must fail);
//!   * `RawMemoryFreeList::grow_freelist`: old and new size multiples of the grain, or new <= grain.
//!
//! Scenarios: `generic` (one IntArrayFreeList; `new` or `new(1,1,h)`+`resize_freelist` as Map32),
//! `multihead` (parent + `from_parent` children sharing the table), `map32` (the discontiguous
//! protocol of Map32::finalize_static_space_map + FreeListPageResource, with a second list as the
//! region map), `raw-generic` and `map64` (RawMemoryFreeList built and grown as Map64 does, driven
//! like a contiguous growable FreeListPageResource).
use crate::rawarena::{Arena, PAGE};
use mmtk::util::os::MmapStrategy;
use mmtk::verif::{FreeList, IntArrayFreeList, RawMemoryFreeList, FREELIST_FAILURE};
use std::collections::BTreeMap;
use vcommon::{mix, Args, Report, Rng, J};

const ALLOC: i32 = 0; // owner code of an allocated run; free runs carry their (negative) head

// ------------------------------------------------------------------------------------------------
// model
// ------------------------------------------------------------------------------------------------

#[derive(Clone)]
struct Model {
    n: i32,
    /// start -> (size, owner)
    runs: BTreeMap<i32, (i32, i32)>,
    /// (head, size) -> number of free runs
    sizes: BTreeMap<(i32, i32), u32>,
    marks: Vec<bool>,
}

#[derive(Default, Clone, Copy)]
struct FreeInfo {
    ret: i32,
    left: bool,
    right: bool,
    blocked_left: bool,
    blocked_right: bool,
}

impl Model {
    fn empty() -> Model {
        Model { n: 0, runs: BTreeMap::new(), sizes: BTreeMap::new(), marks: vec![false] }
    }
    /// `FreeList::initialize_heap(units, grain)` into `head`.
    fn init(units: i32, grain: i32, head: i32) -> Model {
        let mut m = Model::empty();
        m.n = units;
        m.marks = vec![false; units as usize + 1];
        let offset = units % grain;
        let mut cursor = units - offset;
        if offset > 0 {
            m.add_free(cursor, offset, head);
        }
        cursor -= grain;
        while cursor >= 0 {
            m.add_free(cursor, grain, head);
            cursor -= grain;
        }
        m
    }
    /// `RawMemoryFreeList::grow_list_by_blocks` (contract respected by the caller).
    fn grow(&mut self, new_n: i32, grain: i32, head: i32) {
        let old = self.n;
        self.n = new_n;
        self.marks.resize(new_n as usize + 1, false);
        self.marks[new_n as usize] = false; // fresh sentinel
        let g = grain.min(new_n - old);
        let mut cursor = new_n - g;
        while cursor >= old {
            self.add_free(cursor, g, head);
            cursor -= g;
        }
    }
    fn add_free(&mut self, start: i32, size: i32, head: i32) {
        self.runs.insert(start, (size, head));
        *self.sizes.entry((head, size)).or_insert(0) += 1;
    }
    fn del_free(&mut self, start: i32) -> (i32, i32) {
        let (size, head) = self.runs.remove(&start).unwrap();
        let e = self.sizes.get_mut(&(head, size)).unwrap();
        *e -= 1;
        if *e == 0 {
            self.sizes.remove(&(head, size));
        }
        (size, head)
    }
    fn has_fit(&self, head: i32, n: i32) -> bool {
        self.sizes.range((head, n)..=(head, i32::MAX)).next().is_some()
    }
    fn max_free(&self, head: i32) -> i32 {
        self.sizes.range((head, 0)..=(head, i32::MAX)).next_back().map(|(k, _)| k.1).unwrap_or(0)
    }
    fn free_runs(&self, head: i32) -> Vec<(i32, i32)> {
        self.runs.iter().filter(|(_, v)| v.1 == head).map(|(k, v)| (*k, v.0)).collect()
    }
    /// Why a unit returned by `alloc(n)` for `head` is unacceptable (None = fine).
    fn alloc_defect(&self, head: i32, n: i32, u: i32) -> Option<&'static str> {
        if u < 0 || u as i64 + n as i64 > self.n as i64 {
            return Some("run-outside-list");
        }
        match self.runs.get(&u) {
            Some(&(s, o)) if o == head && s >= n => None,
            Some(&(_, o)) if o == ALLOC => Some("overlaps-allocated-run"),
            Some(&(s, o)) if o == head && s < n => Some("free-run-too-small"),
            Some(_) => Some("run-of-another-head"),
            None => {
                let (ps, (psz, po)) = self.runs.range(..u).next_back().map(|(a, b)| (*a, *b)).unwrap();
                debug_assert!(ps + psz > u);
                if po == ALLOC {
                    Some("overlaps-allocated-run")
                } else {
                    Some("inside-a-free-run")
                }
            }
        }
    }
    /// Take `[u, u+n)` out of the free run starting at `u`; the remainder goes to `head`'s list.
    fn commit_alloc(&mut self, head: i32, n: i32, u: i32) -> bool {
        let (s, _) = self.del_free(u);
        self.runs.insert(u, (n, ALLOC));
        if s > n {
            self.add_free(u + n, s - n, head);
            true
        } else {
            false
        }
    }
    fn left_of(&self, u: i32) -> Option<(i32, i32, i32)> {
        self.runs.range(..u).next_back().map(|(a, b)| (*a, b.0, b.1))
    }
    /// Is `free(u)` by `head` legal, and what does it do?
    fn plan_free(&self, head: i32, u: i32, coalesced: bool) -> Result<FreeInfo, &'static str> {
        let &(size, o) = self.runs.get(&u).ok_or("not a run head")?;
        if o != ALLOC {
            return Err("not allocated");
        }
        let mut fi = FreeInfo::default();
        let mut total = size;
        if let Some((ls, lsz, lo)) = self.left_of(u) {
            debug_assert!(ls + lsz == u);
            if lo != ALLOC {
                if self.marks[u as usize] {
                    fi.blocked_left = true;
                } else {
                    if lo != head {
                        return Err("left neighbour in another head's list");
                    }
                    fi.left = true;
                    total += lsz;
                }
            }
        }
        let r = u + size;
        if r < self.n {
            let &(rsz, ro) = self.runs.get(&r).unwrap();
            if ro != ALLOC {
                if self.marks[r as usize] {
                    fi.blocked_right = true;
                } else {
                    if ro != head {
                        return Err("right neighbour in another head's list");
                    }
                    fi.right = true;
                    total += rsz;
                }
            }
        }
        fi.ret = if coalesced { total } else { size };
        Ok(fi)
    }
    fn commit_free(&mut self, head: i32, u: i32, fi: &FreeInfo) {
        let (size, _) = self.runs.remove(&u).unwrap();
        let mut start = u;
        let mut total = size;
        if fi.left {
            let (ls, _, _) = self.left_of(u).unwrap();
            let (lsz, _) = self.del_free(ls);
            start = ls;
            total += lsz;
        }
        if fi.right {
            let (rsz, _) = self.del_free(u + size);
            total += rsz;
        }
        self.add_free(start, total, head);
    }
}

// ------------------------------------------------------------------------------------------------
// context, op log, checked operations
// ------------------------------------------------------------------------------------------------

#[derive(Clone, Copy)]
enum Op {
    Alloc(i32, i32, i32),           // head, n, result
    Afu(i32, i32, i32, i32),        // head, n, unit, result
    Free(i32, i32, bool, i32),      // head, unit, coalesced, result
    Mark(i32, bool),                // unit, set
    Grow(i32, bool),                // by, result
    Size(i32, i32),
}

struct Cx<'a> {
    rep: &'a mut Report,
    kind: &'static str,
    scen: &'static str,
    seed: u64,
    hist: u64,
    config: String,
    log: Vec<Op>,
    bad: bool,
    heads_n: i32,
}

impl<'a> Cx<'a> {
    fn viol(&mut self, check: &str, what: String) {
        let tail: Vec<String> = self
            .log
            .iter()
            .rev()
            .take(24)
            .rev()
            .map(|o| match *o {
                Op::Alloc(h, n, r) => format!("[{}]alloc({})={}", h, n, r),
                Op::Afu(h, n, u, r) => format!("[{}]alloc_from_unit({},{})={}", h, n, u, r),
                Op::Free(h, u, c, r) => format!("[{}]free({},{})={}", h, u, c, r),
                Op::Mark(u, s) => format!("{}_uncoalescable({})", if s { "set" } else { "clear" }, u),
                Op::Grow(b, r) => format!("grow_freelist({})={}", b, r),
                Op::Size(u, r) => format!("size({})={}", u, r),
            })
            .collect();
        self.rep.violation(
            format!("freelist:{}:{}:{}", self.kind, self.scen, check),
            format!(
                "seed={} history={} config[{}] {} ; op #{}; last ops: {}",
                self.seed,
                self.hist,
                self.config,
                what,
                self.log.len(),
                tail.join(" ")
            ),
        );
        self.bad = true;
    }
    fn key(&mut self, nontrivial: bool, parts: &[u64]) {
        if nontrivial {
            let k = parts.iter().fold(mix(self.kind.len() as u64, self.scen.len() as u64 * 31 + self.scen.as_bytes()[0] as u64), |h, &x| mix(h, x));
            self.rep.eval(mix(k, bucket(self.heads_n)));
        } else {
            self.rep.evaluations += 1;
        }
    }
}

fn bucket(n: i32) -> u64 {
    if n <= 0 {
        0
    } else if n <= 2 {
        n as u64
    } else {
        2 + (32 - (n as u32).leading_zeros()) as u64 / 2
    }
}

fn do_alloc(cx: &mut Cx, l: &mut dyn FreeList, m: &mut Model, n: i32) -> i32 {
    let head = l.head();
    let fit = m.has_fit(head, n);
    let r = l.alloc(n);
    cx.log.push(Op::Alloc(head, n, r));
    cx.rep.count("op_alloc", 1);
    if r == FREELIST_FAILURE {
        let maxf = m.max_free(head);
        if fit {
            cx.viol("alloc-failed-although-a-free-run-fits", format!("alloc({}) = FAILURE but the model has a free run of {} units in list {}", n, maxf, head));
        } else {
            cx.rep.count("alloc_failures", 1);
            let fragmented = m.sizes.range((head, 1)..=(head, i32::MAX)).map(|(k, c)| k.1 as i64 * *c as i64).sum::<i64>() >= n as i64;
            cx.key(fragmented, &[1, 0, bucket(n), fragmented as u64]);
        }
        return r;
    }
    if !fit {
        cx.viol("alloc-succeeded-without-a-fitting-free-run", format!("alloc({}) = {} but the largest free run of list {} has {} units", n, r, head, m.max_free(head)));
        return r;
    }
    if let Some(d) = m.alloc_defect(head, n, r) {
        cx.viol(&format!("alloc-returned-bad-run:{}", d), format!("alloc({}) = {} : {} (list has {} units)", n, r, d, m.n));
        return r;
    }
    let split = m.commit_alloc(head, n, r);
    let sz = l.size(r);
    if sz != n {
        cx.viol("size-after-alloc", format!("size({}) = {} right after alloc({}) returned it", r, sz, n));
    }
    cx.key(split, &[1, 1, bucket(n), split as u64]);
    r
}

/// `u` must be the first unit of a run that is allocated or free in `l`'s own list.
fn do_afu(cx: &mut Cx, l: &mut dyn FreeList, m: &mut Model, n: i32, u: i32) -> i32 {
    let head = l.head();
    let &(s, o) = m.runs.get(&u).expect("harness: alloc_from_unit target must be a run head");
    assert!(o == ALLOC || o == head, "harness: alloc_from_unit on a foreign free run");
    let want = if o == head && s >= n { u } else { FREELIST_FAILURE };
    let r = l.alloc_from_unit(n, u);
    cx.log.push(Op::Afu(head, n, u, r));
    cx.rep.count("op_alloc_from_unit", 1);
    if r != want {
        cx.viol(
            if want == FREELIST_FAILURE { "alloc_from_unit-succeeded-wrongly" } else { "alloc_from_unit-failed-wrongly" },
            format!("alloc_from_unit({}, {}) = {} expected {} (run at {}: size {} {})", n, u, r, want, u, s, if o == ALLOC { "allocated" } else { "free" }),
        );
        return r;
    }
    if r != FREELIST_FAILURE {
        let split = m.commit_alloc(head, n, u);
        let sz = l.size(u);
        if sz != n {
            cx.viol("size-after-alloc_from_unit", format!("size({}) = {} after alloc_from_unit({}, {})", u, sz, n, u));
        }
        cx.key(true, &[2, 1, bucket(n), split as u64]);
    } else {
        cx.key(true, &[2, 0, (o == ALLOC) as u64]);
    }
    r
}

/// Returns None when the free would be illegal for this list (cross-head coalescing).
fn do_free(cx: &mut Cx, l: &mut dyn FreeList, m: &mut Model, u: i32, coalesced: bool) -> Option<i32> {
    let head = l.head();
    let fi = match m.plan_free(head, u, coalesced) {
        Ok(fi) => fi,
        Err(_) => return None,
    };
    let r = l.free(u, coalesced);
    cx.log.push(Op::Free(head, u, coalesced, r));
    cx.rep.count("op_free", 1);
    if fi.left || fi.right {
        cx.rep.count("free_coalesced", 1);
    }
    if fi.blocked_left || fi.blocked_right {
        cx.rep.count("free_blocked_by_uncoalescable", 1);
    }
    if r != fi.ret {
        cx.viol(
            if coalesced { "free-returned-wrong-coalesced-size" } else { "free-returned-wrong-size" },
            format!(
                "free({}, {}) = {} expected {} (coalesce left={} right={}, blocked by mark left={} right={})",
                u, coalesced, r, fi.ret, fi.left, fi.right, fi.blocked_left, fi.blocked_right
            ),
        );
        return Some(r);
    }
    m.commit_free(head, u, &fi);
    cx.key(
        fi.left || fi.right || fi.blocked_left || fi.blocked_right,
        &[3, fi.left as u64, fi.right as u64, fi.blocked_left as u64, fi.blocked_right as u64, coalesced as u64, bucket(fi.ret)],
    );
    Some(r)
}

fn do_size(cx: &mut Cx, l: &dyn FreeList, m: &Model, u: i32) {
    let &(s, o) = m.runs.get(&u).expect("harness: size() target must be a run head");
    let r = l.size(u);
    cx.log.push(Op::Size(u, r));
    cx.rep.count("op_size", 1);
    if r != s {
        cx.viol("size-mismatch", format!("size({}) = {} but the {} run starting there has {} units", u, r, if o == ALLOC { "allocated" } else { "free" }, s));
    }
    cx.rep.evaluations += 1;
}

fn do_mark(cx: &mut Cx, l: &mut dyn FreeList, m: &mut Model, u: i32, set: bool) {
    debug_assert!(u == m.n || m.runs.contains_key(&u));
    if set {
        l.set_uncoalescable(u);
    } else {
        l.clear_uncoalescable(u);
    }
    m.marks[u as usize] = set;
    cx.log.push(Op::Mark(u, set));
    cx.rep.count(if set { "op_set_uncoalescable" } else { "op_clear_uncoalescable" }, 1);
    let got = !l.is_coalescable(u);
    if got != set {
        cx.viol("is_coalescable-after-mark", format!("is_coalescable({}) = {} right after {}_uncoalescable", u, !got, if set { "set" } else { "clear" }));
    }
    cx.rep.evaluations += 1;
}

/// Walk the free list of `l` through the public link accessors.
fn walk_runs(cx: &mut Cx, l: &dyn FreeList, n: i32, at: &str) -> Option<Vec<(i32, i32)>> {
    let head = l.head();
    let mut got: Vec<(i32, i32)> = vec![];
    let mut u = l.get_next(head);
    let bound = n as usize + 2;
    while u != head {
        if u < 0 || u >= n {
            cx.viol(&format!("free-structure:{}:link-outside-list", at), format!("free list of head {} links to unit {} (list has {} units)", head, u, n));
            return None;
        }
        got.push((u, l.get_size(u)));
        if got.len() > bound {
            cx.viol(&format!("free-structure:{}:cycle", at), format!("free list of head {} does not terminate", head));
            return None;
        }
        u = l.get_next(u);
    }
    got.sort_unstable();
    Some(got)
}

fn show_runs(v: &[(i32, i32)]) -> String {
    let s: Vec<String> = v.iter().take(24).map(|(a, b)| format!("{}+{}", a, b)).collect();
    format!("{}{}", s.join(","), if v.len() > 24 { ",.." } else { "" })
}

/// The free list of `l` must hold exactly the model's free runs of that head.
fn check_walk(cx: &mut Cx, l: &dyn FreeList, m: &Model, at: &str) {
    if cx.bad {
        return;
    }
    let head = l.head();
    let Some(got) = walk_runs(cx, l, m.n, at) else { return };
    let want = m.free_runs(head);
    cx.rep.count("free_structure_checks", 1);
    if got != want {
        cx.viol(
            &format!("free-structure:{}", at),
            format!("free runs of head {}: real [{}] model [{}]", head, show_runs(&got), show_runs(&want)),
        );
    }
}

/// Black-box confirmation of the free structure (destroys it): every model free run of `l` has the
/// model size, cannot give one unit more, can be taken whole; afterwards nothing is left.
fn drain_check(cx: &mut Cx, l: &mut dyn FreeList, m: &mut Model) {
    if cx.bad {
        return;
    }
    let head = l.head();
    for (u, s) in m.free_runs(head) {
        do_size(cx, l, m, u);
        if cx.bad {
            return;
        }
        let r = do_afu(cx, l, m, s + 1, u);
        if cx.bad || r != FREELIST_FAILURE {
            return;
        }
        do_afu(cx, l, m, s, u);
        if cx.bad {
            return;
        }
    }
    do_alloc(cx, l, m, 1);
    cx.rep.count("drain_checks", 1);
}

// ------------------------------------------------------------------------------------------------
// list sets
// ------------------------------------------------------------------------------------------------

trait Lists {
    fn count(&self) -> usize;
    fn list(&mut self, i: usize) -> &mut dyn FreeList;
    fn grow(&mut self, _by: i32) -> Option<bool> {
        None
    }
}

/// A parent IntArrayFreeList and children created with `from_parent` (list 0 is the parent).
/// The parent lives behind a raw pointer because the children mutate its table through their own
/// pointer (as Map32's global page map and its per-space children do).
struct IntLists {
    parent: *mut IntArrayFreeList,
    children: Vec<IntArrayFreeList>,
}

impl IntLists {
    fn new(parent: IntArrayFreeList, child_ordinals: &[i32]) -> IntLists {
        let parent = Box::into_raw(Box::new(parent));
        let children = child_ordinals.iter().map(|&o| IntArrayFreeList::from_parent(unsafe { &*parent }, o)).collect();
        IntLists { parent, children }
    }
    fn parent(&mut self) -> &mut IntArrayFreeList {
        unsafe { &mut *self.parent }
    }
}

impl Drop for IntLists {
    fn drop(&mut self) {
        self.children.clear();
        unsafe { drop(Box::from_raw(self.parent)) };
    }
}

impl Lists for IntLists {
    fn count(&self) -> usize {
        1 + self.children.len()
    }
    #[inline(never)]
    fn list(&mut self, i: usize) -> &mut dyn FreeList {
        if i == 0 {
            unsafe { &mut *self.parent }
        } else {
            &mut self.children[i - 1]
        }
    }
}

struct RawLists {
    l: RawMemoryFreeList,
}

impl Lists for RawLists {
    fn count(&self) -> usize {
        1
    }
    fn list(&mut self, _i: usize) -> &mut dyn FreeList {
        &mut self.l
    }
    fn grow(&mut self, by: i32) -> Option<bool> {
        Some(self.l.grow_freelist(by))
    }
}

// ------------------------------------------------------------------------------------------------
// generic random histories (single list, multi-head, raw)
// ------------------------------------------------------------------------------------------------

struct GenParams {
    ops: usize,
    marks: bool,
    /// remaining growth targets (cumulative sizes) for raw lists
    grow_targets: Vec<i32>,
    grain: i32,
    /// the initial state is closed under coalescing and no marks are changed afterwards
    closed: bool,
}

fn pick_alloc_size(rng: &mut Rng, m: &Model, head: i32, grain: i32) -> i32 {
    let maxf = m.max_free(head).max(1);
    match rng.below(10) {
        0 => 1,
        1 => maxf,                                   // exact fit of the largest run
        2 => maxf + 1 + rng.below(3) as i32,         // must fail
        3 => grain.max(1),
        4 => (grain + 1).min(m.n.max(1)),
        5 => 1 + rng.below(maxf as u64) as i32,
        _ => 1 + rng.below((maxf as u64).min(8)) as i32,
    }
}

fn generic_history(cx: &mut Cx, rng: &mut Rng, ls: &mut dyn Lists, m: &mut Model, p: &mut GenParams) {
    let initial: Vec<(i32, i32, i32)> = m.runs.iter().map(|(k, v)| (*k, v.0, v.1)).collect();
    let mut allocated: Vec<i32> = vec![];
    let nl = ls.count();
    let mut fill = true;
    let mut skipped_cross = 0u64;
    p.grow_targets.reverse();
    for opi in 0..p.ops {
        if cx.bad {
            return;
        }
        if opi % 97 == 96 {
            fill = !fill;
        }
        // growth (raw lists)
        if !p.grow_targets.is_empty() && (m.n == 0 || rng.chance(1, 12)) {
            let t = p.grow_targets.pop().unwrap();
            let by = t - m.n;
            let r = ls.grow(by).unwrap();
            cx.log.push(Op::Grow(by, r));
            cx.rep.count("op_grow_freelist", 1);
            if !r {
                cx.viol("grow_freelist-returned-false", format!("grow_freelist({}) from {} units", by, m.n));
                return;
            }
            let head = ls.list(0).head();
            m.grow(t, p.grain, head);
            cx.rep.evaluations += 1;
            continue;
        }
        if m.n == 0 {
            continue;
        }
        let li = rng.usize_below(nl);
        let head = ls.list(li).head();
        let roll = rng.below(100);
        let p_alloc = if fill { 55 } else { 25 };
        if roll < p_alloc {
            let n = pick_alloc_size(rng, m, head, p.grain);
            let r = do_alloc(cx, ls.list(li), m, n);
            if r != FREELIST_FAILURE && !cx.bad {
                allocated.push(r);
            }
        } else if roll < 80 {
            if allocated.is_empty() {
                continue;
            }
            let i = rng.usize_below(allocated.len());
            let u = allocated[i];
            let co = rng.chance(1, 2);
            // try the chosen list, then any list for which the free is legal
            let mut done = false;
            for k in 0..nl {
                let lj = (li + k) % nl;
                if do_free(cx, ls.list(lj), m, u, co).is_some() {
                    done = true;
                    break;
                }
            }
            if done {
                allocated.swap_remove(i);
            } else {
                skipped_cross += 1;
            }
        } else if roll < 88 {
            // alloc_from_unit on the head of an own free run or of an allocated run
            let own = m.free_runs(head);
            let target = if !own.is_empty() && rng.chance(3, 4) {
                Some(own[rng.usize_below(own.len())])
            } else if !allocated.is_empty() {
                let u = allocated[rng.usize_below(allocated.len())];
                Some((u, m.runs[&u].0))
            } else {
                None
            };
            if let Some((u, s)) = target {
                let n = match rng.below(4) {
                    0 => s,
                    1 => s + 1,
                    _ => 1 + rng.below(s as u64) as i32,
                };
                let r = do_afu(cx, ls.list(li), m, n, u);
                if r != FREELIST_FAILURE && !cx.bad {
                    allocated.push(r);
                }
            }
        } else if roll < 94 {
            // size of a random run head
            let pick = rng.below(m.n as u64) as i32;
            let u = m.runs.range(..=pick).next_back().map(|(k, _)| *k).unwrap();
            do_size(cx, ls.list(li), m, u);
        } else if p.marks {
            let pick = rng.below(m.n as u64 + 1) as i32;
            let u = if pick == m.n { pick } else { m.runs.range(..=pick).next_back().map(|(k, _)| *k).unwrap() };
            let set = !m.marks[u as usize] || rng.chance(1, 3);
            do_mark(cx, ls.list(li), m, u, set);
        }
        if opi % 61 == 60 {
            let lj = rng.usize_below(nl);
            check_walk(cx, ls.list(lj), m, "mid-history");
        }
    }
    if cx.bad {
        return;
    }
    cx.rep.count("free_skipped_cross_head_coalescing", skipped_cross);
    // finish the growth so that the final state covers the whole list
    while let Some(t) = p.grow_targets.pop() {
        let by = t - m.n;
        let r = ls.grow(by).unwrap();
        cx.log.push(Op::Grow(by, r));
        cx.rep.count("op_grow_freelist", 1);
        if !r {
            cx.viol("grow_freelist-returned-false", format!("grow_freelist({}) from {} units", by, m.n));
            return;
        }
        let head = ls.list(0).head();
        m.grow(t, p.grain, head);
    }
    // free everything (random order; a run whose free is illegal for every list right now is
    // retried after the others)
    rng.shuffle(&mut allocated);
    let mut rounds = 0;
    while !allocated.is_empty() && !cx.bad {
        let mut rest = vec![];
        for &u in &allocated {
            let co = rng.chance(1, 2);
            let start = rng.usize_below(nl);
            let mut done = false;
            for k in 0..nl {
                if do_free(cx, ls.list((start + k) % nl), m, u, co).is_some() {
                    done = true;
                    break;
                }
            }
            if !done {
                rest.push(u);
            }
            if cx.bad {
                return;
            }
        }
        rounds += 1;
        if rest.len() == allocated.len() || rounds > 8 {
            // cannot be freed legally (both neighbours free in different heads' lists): leave them
            cx.rep.count("runs_left_allocated_for_legality", rest.len() as u64);
            break;
        }
        allocated = rest;
    }
    if cx.bad {
        return;
    }
    for li in 0..nl {
        check_walk(cx, ls.list(li), m, "after-freeing-everything");
    }
    cx.rep.count("histories_freed_everything", 1);
    if p.closed && nl == 1 && !cx.bad {
        // the statement proper: freeing everything restores the initial runs (the pieces inserted
        // by initialize_heap / the growth), compared directly with the real list
        let want: Vec<(i32, i32)> = if initial.is_empty() { vec![(0, m.n)] } else { initial.iter().map(|x| (x.0, x.1)).collect() };
        if let Some(got) = walk_runs(cx, ls.list(0), m.n, "restore-initial") {
            if got != want {
                cx.viol("initial-runs-not-restored", format!("after freeing everything: real [{}] initial [{}]", show_runs(&got), show_runs(&want)));
            }
        }
        cx.rep.count("restore_initial_checks", 1);
    }
    for li in 0..nl {
        drain_check(cx, ls.list(li), m);
    }
}

// ------------------------------------------------------------------------------------------------
// scenario drivers
// ------------------------------------------------------------------------------------------------

fn pick_units(rng: &mut Rng) -> i32 {
    match rng.below(10) {
        0 => 1 + rng.below(4) as i32,
        1 | 2 | 3 => 1 + rng.below(24) as i32,
        4 | 5 | 6 => 1 + rng.below(200) as i32,
        7 | 8 => 1 + rng.below(1024) as i32,
        _ => 1 + rng.below(4096) as i32,
    }
}

fn pick_grain(rng: &mut Rng, units: i32) -> i32 {
    match rng.below(8) {
        0 => 1,
        1 => 2,
        2 => units,
        3 => units + 1 + rng.below(5) as i32,
        4 => 1 + rng.below(8) as i32,
        _ => 1 + rng.below(units as u64) as i32,
    }
}

fn new_cx<'a>(rep: &'a mut Report, kind: &'static str, scen: &'static str, seed: u64, hist: u64, config: String, heads: i32) -> Cx<'a> {
    Cx { rep, kind, scen, seed, hist, config, log: vec![], bad: false, heads_n: heads }
}

/// Mark every initial piece start (except unit 0) uncoalescable: a state closed under coalescing.
fn close_initial(cx: &mut Cx, l: &mut dyn FreeList, m: &mut Model) {
    let starts: Vec<i32> = m.runs.keys().copied().filter(|&u| u > 0).collect();
    for u in starts {
        do_mark(cx, l, m, u, true);
    }
}

fn scen_generic(rep: &mut Report, rng: &mut Rng, seed: u64, hist: u64, ops: usize, selftest: bool) {
    let units = pick_units(rng);
    let grain = pick_grain(rng, units);
    let heads = 1 + rng.below(8) as i32;
    let via_resize = rng.chance(1, 4);
    let mode = rng.below(3); // 0: no marks, 1: closed initial state, 2: random marks
    let config = format!("IntArrayFreeList units={} grain={} heads={} via_resize={} marks={}", units, grain, heads, via_resize, ["none", "closed", "random"][mode as usize]);
    let mut cx = new_cx(rep, "int", "generic", seed, hist, config, heads);
    let parent = if via_resize {
        let mut l = IntArrayFreeList::new(1, 1, heads as usize);
        l.resize_freelist(units as usize, grain);
        l
    } else {
        IntArrayFreeList::new(units as usize, grain, heads as usize)
    };
    let mut ls = IntLists::new(parent, &[]);
    let mut m = Model::init(units, grain, -1);
    check_walk(&mut cx, ls.list(0), &m, "initial");
    if mode == 1 {
        close_initial(&mut cx, ls.list(0), &mut m);
    }
    let closed = mode == 1 || (mode == 0 && grain >= units);
    let mut p = GenParams { ops, marks: mode == 2, grow_targets: vec![], grain, closed };
    if selftest {
        // SELFTEST only: damage the real list behind the model's back (clear the free flag of the
        // first free run) -- the oracle must notice.
        if let Some(&(u, _)) = m.free_runs(-1).first() {
            let l = ls.list(0);
            let lo = l.get_lo_entry(u);
            l.set_lo_entry(u, lo & 0x7fff_ffff);
        }
    }
    generic_history(&mut cx, rng, &mut ls, &mut m, &mut p);
    cx.rep.count("histories_generic", 1);
    sample(&mut cx, units);
}

fn sample(cx: &mut Cx, units: i32) {
    if cx.rep.want_sample() && units > 8 && cx.log.len() > 40 {
        let cfg = cx.config.clone();
        let n = cx.log.len();
        cx.rep.sample(J::obj(vec![("scenario", J::s(cx.scen)), ("config", J::s(cfg)), ("ops", J::i(n as u64))]));
    }
}

fn scen_multihead(rep: &mut Report, rng: &mut Rng, seed: u64, hist: u64, ops: usize) {
    let units = pick_units(rng).max(2);
    let grain = pick_grain(rng, units);
    let heads = 2 + rng.below(7) as i32;
    // children on ordinals 1.. (as Map32) and, half of the time, also a child on ordinal 0 that
    // shares the parent's head (as the unit test multi_heads_alloc_free does)
    let mut ords: Vec<i32> = (1..heads).collect();
    if rng.chance(1, 2) {
        ords.insert(0, 0);
    }
    let config = format!("IntArrayFreeList parent units={} grain={} heads={} child_ordinals={:?}", units, grain, heads, ords);
    let mut cx = new_cx(rep, "int", "multihead", seed, hist, config, heads);
    let mut ls = IntLists::new(IntArrayFreeList::new(units as usize, grain, heads as usize), &ords);
    let mut m = Model::init(units, grain, -1);
    let mut p = GenParams { ops, marks: rng.chance(1, 2), grow_targets: vec![], grain, closed: false };
    generic_history(&mut cx, rng, &mut ls, &mut m, &mut p);
    cx.rep.count("histories_multihead", 1);
    sample(&mut cx, units);
}

/// The Map32 protocol, scaled down: `c` pages per chunk, `k` chunks.
fn scen_map32(rep: &mut Report, rng: &mut Rng, seed: u64, hist: u64, ops: usize) {
    let c = *rng.pick(&[2i32, 4, 8, 16, 64]);
    let k = 1 + rng.below(if c >= 16 { 24 } else { 48 }) as i32;
    let spaces = 1 + rng.below(6) as i32; // discontiguous spaces = child lists
    let heads = (spaces + 1 + rng.below(3) as i32).max(2);
    let first_chunk = 1 + rng.below(5) as i32;
    let trailing = rng.below(4) as i32;
    let max_chunks = first_chunk + k + trailing;
    let pages = k * c;
    let config = format!(
        "Map32 protocol: pages/chunk={} chunks={} spaces={} heads={} first_chunk={} trailing={}",
        c, k, spaces, heads, first_chunk, trailing
    );
    let mut cx = new_cx(rep, "int", "map32", seed, hist, config, heads);
    // Map32::new
    let mut region = IntLists::new(IntArrayFreeList::new(max_chunks as usize, max_chunks, 1), &[]);
    let mut rm = Model::init(max_chunks, max_chunks, -1);
    let ords: Vec<i32> = (1..=spaces).collect();
    // children are created (create_freelist) before finalize_static_space_map resizes the table
    let mut gp = IntLists::new(IntArrayFreeList::new(1, 1, heads as usize), &ords);
    // finalize_static_space_map
    gp.parent().resize_freelist(pages as usize, pages);
    let mut m = Model::init(pages, pages, -1);
    {
        let rl = region.list(0);
        if do_alloc(&mut cx, rl, &mut rm, first_chunk) != 0 {
            if !cx.bad {
                cx.viol("region-map-bottom-block", "alloc(first_chunk) did not return chunk 0".into());
            }
            return;
        }
        for i in 0..k {
            let r = do_alloc(&mut cx, rl, &mut rm, 1);
            if cx.bad {
                return;
            }
            if r != first_chunk + i {
                cx.viol("region-map-setup", format!("alloc(1) = {} expected {}", r, first_chunk + i));
                return;
            }
        }
        if trailing > 0 {
            let r = do_alloc(&mut cx, rl, &mut rm, trailing);
            if cx.bad {
                return;
            }
            if r != first_chunk + k {
                cx.viol("region-map-setup", format!("alloc(trailing) = {} expected {}", r, first_chunk + k));
                return;
            }
        }
        let mut first_page = 0;
        for ci in first_chunk..first_chunk + k {
            do_free(&mut cx, rl, &mut rm, ci, false);
            do_mark(&mut cx, gp.list(0), &mut m, first_page, true);
            let r = do_alloc(&mut cx, gp.list(0), &mut m, c);
            if cx.bad {
                return;
            }
            if r != first_page {
                cx.viol("global-page-map-setup", format!("alloc(pages_in_chunk) = {} expected {}", r, first_page));
                return;
            }
            first_page += c;
        }
    }
    check_walk(&mut cx, region.list(0), &rm, "after-finalize");
    check_walk(&mut cx, gp.list(0), &m, "after-finalize");
    let after_finalize: Vec<(i32, (i32, i32))> = m.runs.iter().map(|(a, b)| (*a, *b)).collect();
    let marks_after_finalize = m.marks.clone();
    // per space: allocated page runs; regions: region start chunk -> (chunks, space)
    let mut allocs: Vec<Vec<i32>> = vec![vec![]; spaces as usize];
    let mut regions: BTreeMap<i32, (i32, usize)> = BTreeMap::new();
    let mut fill = true;
    let total_ops = ops;
    let mut opi = 0;
    let mut draining = false;
    loop {
        if cx.bad {
            return;
        }
        opi += 1;
        if opi % 83 == 0 {
            fill = !fill;
        }
        if opi > total_ops {
            draining = true;
        }
        let live: usize = allocs.iter().map(|a| a.len()).sum();
        if draining && live == 0 {
            break;
        }
        let sp = rng.usize_below(spaces as usize);
        let li = sp + 1;
        let do_alloc_op = !draining && rng.below(100) < if fill { 60 } else { 30 };
        if do_alloc_op {
            // FreeListPageResource::alloc_pages
            let n = match rng.below(6) {
                0 => c,
                1 => 1 + rng.below((2 * c) as u64) as i32,
                2 => c + 1,
                _ => 1 + rng.below(c as u64) as i32,
            };
            let mut off = do_alloc(&mut cx, gp.list(li), &mut m, n);
            if cx.bad {
                return;
            }
            if off == FREELIST_FAILURE {
                // allocate_contiguous_chunks
                let req = (n + c - 1) / c;
                let chunk = do_alloc(&mut cx, region.list(0), &mut rm, req);
                if cx.bad {
                    return;
                }
                if chunk == FREELIST_FAILURE {
                    cx.rep.count("map32_space_exhausted", 1);
                    continue;
                }
                regions.insert(chunk, (req, sp));
                cx.rep.count("map32_regions_acquired", 1);
                let region_start = (chunk - first_chunk) * c;
                let region_end = region_start + req * c - 1;
                do_mark(&mut cx, gp.list(li), &mut m, region_start, true);
                do_mark(&mut cx, gp.list(li), &mut m, region_end + 1, true);
                let mut pg = region_start;
                while pg < region_end {
                    if pg != region_start {
                        do_mark(&mut cx, gp.list(li), &mut m, pg, false);
                    }
                    let lib = do_free(&mut cx, gp.list(li), &mut m, pg, true).expect("harness: protocol free must be legal");
                    if cx.bad {
                        return;
                    }
                    if lib != c + (pg - region_start) {
                        cx.viol("liberated-size", format!("free({}, true) = {} expected {}", pg, lib, c + (pg - region_start)));
                        return;
                    }
                    pg += c;
                }
                off = do_alloc(&mut cx, gp.list(li), &mut m, n);
                if cx.bad {
                    return;
                }
                if off == FREELIST_FAILURE {
                    cx.viol("alloc-after-growing-region", format!("alloc({}) failed right after {} chunks were added", n, req));
                    return;
                }
            }
            allocs[sp].push(off);
        } else {
            // FreeListPageResource::release_pages
            let Some(spx) = (0..spaces as usize).map(|d| (sp + d) % spaces as usize).find(|&s| !allocs[s].is_empty()) else { continue };
            let li = spx + 1;
            let i = rng.usize_below(allocs[spx].len());
            let u = allocs[spx].swap_remove(i);
            do_size(&mut cx, gp.list(li), &m, u);
            let freed = do_free(&mut cx, gp.list(li), &mut m, u, true).expect("harness: protocol free must be legal");
            if cx.bad {
                return;
            }
            // release_free_chunks
            if freed % c == 0 {
                let mut rs = u / c * c;
                let mut nrs = rs + c;
                let mut ok = true;
                loop {
                    let co = gp.list(li).is_coalescable(rs);
                    if co == m.marks[rs as usize] {
                        cx.viol("is_coalescable-mismatch", format!("is_coalescable({}) = {} model mark {}", rs, co, m.marks[rs as usize]));
                        ok = false;
                        break;
                    }
                    if !co {
                        break;
                    }
                    rs -= c;
                }
                while ok {
                    let co = gp.list(li).is_coalescable(nrs);
                    if co == m.marks[nrs as usize] {
                        cx.viol("is_coalescable-mismatch", format!("is_coalescable({}) = {} model mark {}", nrs, co, m.marks[nrs as usize]));
                        ok = false;
                        break;
                    }
                    if !co {
                        break;
                    }
                    nrs += c;
                }
                if !ok {
                    return;
                }
                if freed == nrs - rs {
                    // free_contiguous_chunk
                    let chunk = rs / c + first_chunk;
                    let Some(&(req, owner)) = regions.get(&chunk) else {
                        cx.viol("region-bookkeeping", format!("fully free region at page {} is not a region start", rs));
                        return;
                    };
                    if owner != spx || req * c != freed {
                        cx.viol("region-bookkeeping", format!("region at chunk {}: {} chunks of space {} but {} pages were freed by space {}", chunk, req, owner, freed, spx));
                        return;
                    }
                    do_size(&mut cx, region.list(0), &rm, chunk);
                    let mut cs = rs;
                    while cs < rs + req * c {
                        do_mark(&mut cx, gp.list(li), &mut m, cs, true);
                        let t = do_afu(&mut cx, gp.list(li), &mut m, c, cs);
                        if cx.bad {
                            return;
                        }
                        if t != cs {
                            cx.viol("nail-down-chunk", format!("alloc_from_unit({}, {}) = {}", c, cs, t));
                            return;
                        }
                        cs += c;
                    }
                    let chunks = do_free(&mut cx, region.list(0), &mut rm, chunk, false).expect("harness: region free");
                    if cx.bad {
                        return;
                    }
                    if chunks != req {
                        cx.viol("region-map-free", format!("free({}) = {} chunks expected {}", chunk, chunks, req));
                        return;
                    }
                    regions.remove(&chunk);
                    cx.rep.count("map32_regions_released", 1);
                }
            }
        }
        if opi % 71 == 0 {
            let lj = rng.usize_below(spaces as usize + 1);
            check_walk(&mut cx, gp.list(lj), &m, "mid-history");
            check_walk(&mut cx, region.list(0), &rm, "mid-history");
        }
    }
    // everything released: the state after finalize must be back
    for lj in 0..=spaces as usize {
        check_walk(&mut cx, gp.list(lj), &m, "after-freeing-everything");
    }
    check_walk(&mut cx, region.list(0), &rm, "after-freeing-everything");
    if cx.bad {
        return;
    }
    let now: Vec<(i32, (i32, i32))> = m.runs.iter().map(|(a, b)| (*a, *b)).collect();
    if now != after_finalize || !regions.is_empty() {
        cx.viol("model-initial-runs-not-restored", format!("{} runs now, {} after finalize, {} regions still held", now.len(), after_finalize.len(), regions.len()));
        return;
    }
    // marks: every chunk start is (again) uncoalescable, as after finalize
    for ci in 0..k {
        let u = ci * c;
        if gp.list(0).is_coalescable(u) || !marks_after_finalize[u as usize] {
            cx.viol("chunk-start-coalescable-after-release", format!("page {} (chunk start) is coalescable after everything was released", u));
            return;
        }
        do_size(&mut cx, gp.list(0), &m, u);
    }
    cx.rep.count("restore_initial_checks", 1);
    cx.rep.count("histories_freed_everything", 1);
    // region map: one free run covering the discontiguous range
    let fr = rm.free_runs(-1);
    if k > 0 && fr != vec![(first_chunk, k)] {
        cx.viol("region-map-not-restored", format!("region map free runs {:?} expected [({}, {})]", fr, first_chunk, k));
        return;
    }
    drain_check(&mut cx, region.list(0), &mut rm);
    for lj in 0..=spaces as usize {
        drain_check(&mut cx, gp.list(lj), &mut m);
    }
    cx.rep.count("histories_map32", 1);
    sample(&mut cx, pages);
}

// ---- raw memory free lists ----------------------------------------------------------------------

fn divisors_ppb(pages: i32, rng: &mut Rng) -> i32 {
    // a block size that divides the table size, so that C27's defect is not touched here
    let mut c: Vec<i32> = [1, 2, 3, 4, 8, 16].iter().copied().filter(|d| pages % d == 0).collect();
    let def = pages.min(16);
    if pages % def == 0 {
        c.push(def);
        c.push(def);
    }
    *rng.pick(&c)
}

fn make_raw(arena: &Arena, units: i32, grain: i32, heads: i32, ppb: i32) -> RawMemoryFreeList {
    let pages = RawMemoryFreeList::size_in_pages(units, heads) as usize;
    RawMemoryFreeList::new(
        arena.base_addr(),
        arena.addr(pages * PAGE),
        ppb,
        units,
        grain,
        heads,
        MmapStrategy::RAW_MEMORY_FREELIST,
    )
}

fn scen_raw_generic(rep: &mut Report, rng: &mut Rng, arena: &Arena, seed: u64, hist: u64, ops: usize) {
    let heads = if rng.chance(3, 4) { 1 } else { 1 + rng.below(8) as i32 };
    let mut units = pick_units(rng);
    // grain contract: grain >= units with arbitrary steps, or units a multiple of the grain
    let (grain, targets): (i32, Vec<i32>) = if rng.chance(1, 2) {
        let g = units + rng.below(3) as i32;
        let mut t = vec![];
        let mut cur = 0;
        let steps = 1 + rng.below(4);
        for _ in 0..steps {
            if cur >= units {
                break;
            }
            cur += 1 + rng.below((units - cur) as u64) as i32;
            t.push(cur);
        }
        if t.last() != Some(&units) {
            t.push(units);
        }
        (g, t)
    } else {
        let g = 1 + rng.below(16.min(units as u64)) as i32;
        units = (units / g).max(1) * g;
        let n = units / g;
        let mut t = vec![];
        let mut cur = 0;
        while cur < n {
            cur += 1 + rng.below(((n - cur) as u64).min(1 + n as u64 / 2)) as i32;
            t.push(cur * g);
        }
        (g, t)
    };
    let pages = RawMemoryFreeList::size_in_pages(units, heads);
    let ppb = divisors_ppb(pages, rng);
    let mode = rng.below(3);
    let config = format!(
        "RawMemoryFreeList units={} grain={} heads={} pages_per_block={} table_pages={} grow_targets={:?} marks={}",
        units, grain, heads, ppb, pages, targets, ["none", "closed", "random"][mode as usize]
    );
    let mut cx = new_cx(rep, "raw", "generic", seed, hist, config, heads);
    let mut ls = RawLists { l: make_raw(arena, units, grain, heads, ppb) };
    let mut m = Model::empty();
    // before the first growth alloc must fail
    let r = ls.l.alloc(1);
    if r != FREELIST_FAILURE {
        cx.viol("alloc-on-ungrown-list", format!("alloc(1) = {} on a list with 0 current units", r));
    }
    let single_step = targets.len() == 1;
    let mut p = GenParams { ops, marks: mode == 2, grow_targets: targets, grain, closed: false };
    if mode == 1 && single_step {
        // grow at once, then close the initial pieces
        let t = p.grow_targets.pop().unwrap();
        let ok = ls.l.grow_freelist(t);
        cx.log.push(Op::Grow(t, ok));
        if !ok {
            cx.viol("grow_freelist-returned-false", format!("grow_freelist({})", t));
        } else {
            m.grow(t, grain, -1);
            check_walk(&mut cx, ls.list(0), &m, "initial");
            close_initial(&mut cx, ls.list(0), &mut m);
            p.closed = true;
        }
    } else if mode == 0 && grain >= units && single_step {
        p.closed = true;
    }
    if !cx.bad {
        generic_history(&mut cx, rng, &mut ls, &mut m, &mut p);
    }
    cx.rep.count("histories_raw_generic", 1);
    sample(&mut cx, units);
    std::mem::forget(ls);
    arena.reset();
}

/// Map64::create_parent_freelist + allocate_contiguous_chunks under a contiguous growable
/// FreeListPageResource, scaled down: `c` pages per chunk, at most `k` chunks.
fn scen_map64(rep: &mut Report, rng: &mut Rng, arena: &Arena, seed: u64, hist: u64, ops: usize) {
    let c = *rng.pick(&[2i32, 4, 8, 16, 64, 512]);
    let k = 1 + rng.below(if c >= 64 { 12 } else { 40 }) as i32;
    let units = c * k;
    let whole = rng.chance(1, 2); // grain = units (create_freelist) or grain = region (new_contiguous)
    let grain = if whole { units } else { c };
    let heads = 1;
    let pages = RawMemoryFreeList::size_in_pages(units, heads);
    let ppb = divisors_ppb(pages, rng);
    let config = format!(
        "Map64 protocol: RawMemoryFreeList pages/chunk={} max_chunks={} units={} grain={} pages_per_block={} table_pages={}",
        c, k, units, grain, ppb, pages
    );
    let mut cx = new_cx(rep, "raw", "map64", seed, hist, config, heads);
    let mut l = make_raw(arena, units, grain, heads, ppb);
    let mut m = Model::empty();
    let mut allocs: Vec<i32> = vec![];
    let mut fill = true;
    let mut opi = 0usize;
    loop {
        if cx.bad {
            break;
        }
        opi += 1;
        if opi % 89 == 0 {
            fill = !fill;
        }
        let draining = opi > ops;
        if draining && allocs.is_empty() {
            break;
        }
        if !draining && rng.below(100) < if fill { 62 } else { 30 } {
            let n = match rng.below(6) {
                0 => c,
                1 => 1 + rng.below((3 * c) as u64) as i32,
                2 => c + 1,
                _ => 1 + rng.below(c as u64) as i32,
            };
            let mut off = do_alloc(&mut cx, &mut l, &mut m, n);
            if cx.bad {
                break;
            }
            if off == FREELIST_FAILURE {
                let req = (n + c - 1) / c;
                if m.n + req * c > units {
                    cx.rep.count("map64_space_exhausted", 1);
                    continue;
                }
                // Map64::allocate_contiguous_chunks
                let base_page = m.n;
                let ok = l.grow_freelist(req * c);
                cx.log.push(Op::Grow(req * c, ok));
                cx.rep.count("op_grow_freelist", 1);
                if !ok {
                    cx.viol("grow_freelist-returned-false", format!("grow_freelist({}) from {} of {} units", req * c, m.n, units));
                    break;
                }
                m.grow(base_page + req * c, grain, -1);
                for i in 0..req {
                    let u = base_page + i * c;
                    do_mark(&mut cx, &mut l, &mut m, u, true);
                    let t = do_afu(&mut cx, &mut l, &mut m, c, u);
                    if cx.bad {
                        break;
                    }
                    if t != u {
                        cx.viol("chunk-not-allocatable-after-grow", format!("alloc_from_unit({}, {}) = {}", c, u, t));
                        break;
                    }
                }
                if cx.bad {
                    break;
                }
                // FreeListPageResource::allocate_contiguous_chunks
                let region_start = base_page;
                let region_end = region_start + req * c - 1;
                do_mark(&mut cx, &mut l, &mut m, region_start, true);
                do_mark(&mut cx, &mut l, &mut m, region_end + 1, true);
                let mut pg = region_start;
                while pg < region_end && !cx.bad {
                    if pg != region_start {
                        do_mark(&mut cx, &mut l, &mut m, pg, false);
                    }
                    let lib = do_free(&mut cx, &mut l, &mut m, pg, true).expect("harness: protocol free");
                    if !cx.bad && lib != c + (pg - region_start) {
                        cx.viol("liberated-size", format!("free({}, true) = {} expected {}", pg, lib, c + (pg - region_start)));
                    }
                    pg += c;
                }
                if cx.bad {
                    break;
                }
                cx.rep.count("map64_regions_grown", 1);
                off = do_alloc(&mut cx, &mut l, &mut m, n);
                if cx.bad {
                    break;
                }
                if off == FREELIST_FAILURE {
                    cx.viol("alloc-after-growing-region", format!("alloc({}) failed right after {} chunks were added", n, req));
                    break;
                }
            }
            allocs.push(off);
        } else if !allocs.is_empty() {
            let i = rng.usize_below(allocs.len());
            let u = allocs.swap_remove(i);
            do_size(&mut cx, &l, &m, u);
            do_free(&mut cx, &mut l, &mut m, u, true).expect("harness: protocol free");
        }
        if opi % 67 == 0 && m.n > 0 {
            check_walk(&mut cx, &l, &m, "mid-history");
        }
    }
    if !cx.bad && m.n > 0 {
        check_walk(&mut cx, &l, &m, "after-freeing-everything");
        // every region is one free run again (regions are separated by uncoalescable starts)
        let fr = m.free_runs(-1);
        let covered: i32 = fr.iter().map(|x| x.1).sum();
        if covered != m.n {
            cx.viol("model-initial-runs-not-restored", format!("free runs cover {} of {} units", covered, m.n));
        }
        cx.rep.count("restore_initial_checks", 1);
        cx.rep.count("histories_freed_everything", 1);
        drain_check(&mut cx, &mut l, &mut m);
    }
    cx.rep.count("histories_map64", 1);
    sample(&mut cx, units);
    std::mem::forget(l);
    arena.reset();
}

pub fn run(args: &Args, rep: &mut Report) {
    let seed = args.seed();
    let mut rng = Rng::new(seed ^ 0xC26);
    let thorough = args.thorough();
    // under Miri: the IntArrayFreeList scenarios only (h % 10 in 0..=6), one history each
    let histories: u64 = if args.miri() { 3 } else if thorough { 250_000 } else { 10_000 };
    // `--selftest corrupt`: the harness damages the real list in the `generic` scenario to show that
    // the oracle fires; never used by the driver.
    let selftest = args.get("selftest") == Some("corrupt");
    if selftest {
        rep.note("SELFTEST: the harness deliberately corrupts the list; violations are expected");
    }
    // room for the largest raw table: (4096*... units) -- map64 scenario: 512*12 units -> 13 pages
    let arena = if args.miri() { None } else { Arena::reserve(4 << 20) };
    if arena.is_none() && !args.miri() {
        rep.inconclusive("cannot reserve an address range for RawMemoryFreeList; raw scenarios skipped");
    }
    // A corrupted link makes the list's own loops spin for ever: every history runs under the CPU
    // watchdog (a history takes milliseconds; 60 s of CPU inside one is non-termination).
    let miri = args.miri();
    let arena_ref = &arena;
    let body = |rep: &mut Report, hb: &crate::wdog::Heartbeat| {
    for h in 0..histories {
        hb.enter("freelist:history", || format!("seed={} history {} (scenario {}): an alloc/free/size call of the free list does not return", seed, h, h % 10));
        let ops = match rng.below(4) {
            0 => 40,
            1 => 150,
            2 => 400,
            _ => 900,
        };
        // (under Miri only the single-list scenario: child lists alias their parent through raw
        // pointers by design, which the experimental aliasing model rejects in the harness itself)
        match if miri { 0 } else { h % 10 } {
            0 | 1 | 2 => scen_generic(rep, &mut rng, seed, h, ops, selftest),
            3 | 4 => scen_multihead(rep, &mut rng, seed, h, ops),
            5 | 6 => scen_map32(rep, &mut rng, seed, h, ops),
            7 | 8 => {
                if let Some(a) = arena_ref {
                    scen_raw_generic(rep, &mut rng, a, seed, h, ops)
                }
            }
            _ => {
                if let Some(a) = arena_ref {
                    scen_map64(rep, &mut rng, a, seed, h, ops)
                }
            }
        }
        hb.leave();
    }
    };
    if miri {
        crate::wdog::run_without_watchdog(rep, body);
    } else {
        crate::wdog::run_with_watchdog(rep, body);
    }
    rep.note("alloc may pick any sufficiently large free run of its head; free() coalescing across heads, alloc_from_unit/size/marks on interior units and free() of non-allocated units are outside the protocol and never generated");
    rep.note("RawMemoryFreeList is built stand-alone exactly as Map64 does (it mmaps its own table with OS::dzmmap, not through MMAPPER); block sizes are restricted to divisors of the table size here so that the growth defect covered by C27 is not hit");
}
