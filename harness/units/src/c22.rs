//! C22: side-metadata search and scan agree with a naive scan.
//!
//! `find_prev_non_zero_value`, `find_next_non_zero_value` and `scan_non_zero_values` are compared
//! with this file's own region-by-region loops (built on `load_atomic`) for every width
//! (log_num_of_bits 0..=6, `T` = the type the API demands for the width) and region sizes
//! {3,4,8,12,15,22}, over all-zero / single / sparse / medium / dense / all-but-one / boundary /
//! run bitmaps, with search ranges whose ends are placed exactly on, one byte after and randomly
//! around region starts, so that they start/end mid-byte and mid-word of the metadata.
//!
//! The search functions test `data_addr.is_mapped()` (the mmapper state of the *data* address),
//! and the only way to get an address range recorded as mapped from outside the crate is to make
//! it the metadata range of some spec.  Therefore the side metadata base is reserved at a fixed
//! low address (public `initialize_side_metadata` with `side_metadata_base_address` set) and the
//! "data" ranges are themselves carved out of the reserved range through a carrier spec.
//!
//! The behaviour at the edge of mapped data/metadata (a segfault would kill the process) runs in
//! a child process (`--case edge`) whose findings are merged into this report.
use mmtk::util::metadata::side_metadata::SideMetadataSpec;
use mmtk::util::metadata::MetadataValue;
use mmtk::util::Address;
use std::io::Write;
use std::panic::{catch_unwind, AssertUnwindSafe};
use std::sync::atomic::Ordering;
use vcommon::{mix, Args, Report, Rng, J};

const REGIONS: [usize; 6] = [3, 4, 8, 12, 15, 22];
const TIB: usize = 1 << 40;
const GIB: usize = 1 << 30;
const CHUNK: usize = 4 << 20;

trait W: MetadataValue + PartialEq {
    fn to64(self) -> u64;
    const NAME: &'static str;
}
macro_rules! impl_w {
    ($t:ty) => {
        impl W for $t {
            fn to64(self) -> u64 {
                self as u64
            }
            const NAME: &'static str = stringify!($t);
        }
    };
}
impl_w!(u8);
impl_w!(u16);
impl_w!(u32);
impl_w!(u64);
impl_w!(usize);


/// Record a violation once per signature; repeats are only counted.
fn viol_once(rep: &mut Report, sig: impl Into<String>, detail: impl Into<String>) {
    let sig = sig.into();
    if rep.violations.iter().any(|(s, _)| *s == sig) {
        rep.count("repeats_of_already_reported_signatures", 1);
    } else {
        rep.violation(sig, detail);
    }
}

fn addr(x: usize) -> Address {
    unsafe { Address::from_usize(x) }
}

/// Bytes of side metadata address space mmtk-core reserves with the all-in-header VM.
fn reserved_bytes() -> usize {
    let core = mmtk::util::metadata::side_metadata::LOCAL_SIDE_METADATA_VM_BASE_OFFSET;
    let g = mmtk::util::metadata::side_metadata::GLOBAL_SIDE_METADATA_VM_BASE_OFFSET;
    (std::cmp::max(core, g) + CHUNK - 1) & !(CHUNK - 1)
}

/// Reserve the side metadata range at a fixed low base that is free in this process.
fn init(rep: &mut Report) -> Option<usize> {
    let need = reserved_bytes();
    let maps = std::fs::read_to_string("/proc/self/maps").unwrap_or_default();
    let mut ranges: Vec<(usize, usize)> = vec![];
    for l in maps.lines() {
        if let Some((r, _)) = l.split_once(' ') {
            if let Some((a, b)) = r.split_once('-') {
                if let (Ok(a), Ok(b)) = (usize::from_str_radix(a, 16), usize::from_str_radix(b, 16)) {
                    ranges.push((a, b));
                }
            }
        }
    }
    let cands = [2 * TIB, 16 * TIB, 32 * TIB, 48 * TIB, 64 * TIB];
    let Some(&base) = cands
        .iter()
        .find(|&&c| c + need < (1usize << 47) - TIB && ranges.iter().all(|&(a, b)| b <= c || a >= c + need))
    else {
        rep.inconclusive("no free fixed base for the side metadata range");
        return None;
    };
    let r = catch_unwind(|| {
        let mut options = mmtk::util::options::Options::default();
        options.side_metadata_base_address.set(addr(base));
        mmtk::util::metadata::side_metadata::initialize_side_metadata::<crate::unitvm::HeaderVM>(&options);
    });
    if r.is_err() {
        rep.inconclusive("initialize_side_metadata panicked (could not reserve the side metadata range at a fixed base)");
        return None;
    }
    let got = mmtk::util::metadata::side_metadata::global_side_metadata_base_address().as_usize();
    if got != base {
        rep.inconclusive("side metadata base is not where it was requested");
        return None;
    }
    Some(base)
}

/// Make `[start, start+bytes)` recorded as mapped by the mmapper: it is the metadata of the
/// carrier spec (64 bits per 8 bytes at offset 0, i.e. meta(x) = base + x) for data `start-base`.
fn map_data(base: usize, start: usize, bytes: usize) -> bool {
    let carrier = SideMetadataSpec {
        name: "c22carrier",
        is_global: false,
        offset: 0,
        log_num_of_bits: 6,
        log_bytes_in_region: 3,
    };
    mmtk::verif::map_side_metadata(&[carrier], addr(start - base), bytes)
}

struct Cfg {
    spec: SideMetadataSpec,
    bits: usize,
    region: usize,
    width: usize,
    rb: usize,
    /// number of fields in the window
    n: usize,
    /// data address of window field 0
    w0: usize,
    /// mapped data range [dz, dz+dlen)
    dz: usize,
    dlen: usize,
    /// metadata address of the field of `dz` (byte aligned, bit 0)
    meta_dz: *mut u8,
    /// window field 0 is field `foff` counted from dz
    foff: usize,
    /// generation aid only (never used as the oracle)
    nz: Vec<bool>,
}

impl Cfg {
    fn mask(&self) -> u64 {
        if self.width == 64 {
            u64::MAX
        } else {
            (1u64 << self.width) - 1
        }
    }
    /// raw write of window field i with this file's own packing
    fn put(&mut self, i: usize, v: u64) {
        let bit = (self.foff + i) * self.width;
        unsafe {
            let p = self.meta_dz.add(bit / 8);
            if self.width >= 8 {
                for k in 0..self.width / 8 {
                    *p.add(k) = (v >> (8 * k)) as u8;
                }
            } else {
                let m = (self.mask() as u8) << (bit % 8);
                *p = (*p & !m) | (((v as u8) << (bit % 8)) & m);
            }
        }
        self.nz[i] = v != 0;
    }
    fn clear(&mut self) {
        let lo = self.foff * self.width / 8;
        let hi = ((self.foff + self.n) * self.width + 7) / 8;
        unsafe { std::ptr::write_bytes(self.meta_dz.add(lo), 0, hi - lo) };
        for b in self.nz.iter_mut() {
            *b = false;
        }
    }
    fn nzval(&self, rng: &mut Rng) -> u64 {
        let m = self.mask();
        match rng.below(4) {
            0 => 1,
            1 => 1u64 << (self.width - 1),
            2 => m,
            _ => {
                let v = rng.next() & m;
                if v == 0 {
                    1
                } else {
                    v
                }
            }
        }
    }
    fn field_addr(&self, i: usize) -> usize {
        self.w0 + i * self.rb
    }
    /// position class of a data address: index of its field within the 64-bit metadata word
    fn pos(&self, a: usize) -> u64 {
        let bit = ((a >> self.region) * self.width) % 64;
        if self.width >= 8 {
            (bit / self.width) as u64
        } else {
            // (field index within the byte, first / middle / last byte of the word)
            let byte_class = match bit / 8 {
                0 => 0,
                7 => 2,
                _ => 1,
            };
            ((bit % 8) / self.width) as u64 + 8 * byte_class
        }
    }
    fn meta_byte_of(&self, a: usize) -> usize {
        (a >> self.region) * self.width / 8
    }
}

fn new_cfg(
    base: usize,
    k: usize,
    bits: usize,
    region: usize,
    dz: usize,
    n: usize,
    foff: usize,
    dlen: usize,
    rep: &mut Report,
) -> Option<Cfg> {
    let width = 1usize << bits;
    let rb = 1usize << region;
    let spec = SideMetadataSpec {
        name: "c22",
        is_global: false,
        offset: 4 * TIB + k * 16 * GIB,
        log_num_of_bits: bits,
        log_bytes_in_region: region,
    };
    let meta_dz = base + spec.offset + (dz >> region) * width / 8;
    if meta_dz + ((dlen >> region) * width + 7) / 8 + CHUNK >= base + reserved_bytes() {
        rep.inconclusive(format!("metadata window of bits={} region={} does not fit the reserved range", bits, region));
        return None;
    }
    let got = mmtk::verif::address_to_meta_address(&spec, addr(dz));
    let sh = mmtk::verif::meta_byte_lshift(&spec, addr(dz));
    if got.as_usize() != meta_dz || sh != 0 {
        viol_once(rep, 
            format!("addr-translation:bits={}:region={}", bits, region),
            format!("spec offset={:#x} data={:#x}: expected meta {:#x} shift 0, got {} shift {}", spec.offset, dz, meta_dz, got, sh),
        );
        return None;
    }
    Some(Cfg {
        spec,
        bits,
        region,
        width,
        rb,
        n,
        w0: dz + foff * rb,
        dz,
        dlen,
        meta_dz: meta_dz as *mut u8,
        foff,
        nz: vec![false; n],
    })
}

// ------------------------------------------------------------------------------------------
// The model: region-by-region loops on load_atomic
// ------------------------------------------------------------------------------------------

fn nonzero<T: W>(spec: &SideMetadataSpec, a: usize) -> bool {
    spec.load_atomic::<T>(addr(a), Ordering::SeqCst).to64() != 0
}

/// Regions whose start lies in [data_addr - limit + 1, data_addr], nearest first.
fn model_prev<T: W>(spec: &SideMetadataSpec, rb: usize, data_addr: usize, limit: usize) -> Option<usize> {
    let lo = data_addr.saturating_sub(limit) + 1;
    let mut cur = data_addr & !(rb - 1);
    loop {
        if cur < lo {
            return None;
        }
        if nonzero::<T>(spec, cur) {
            return Some(cur);
        }
        if cur < rb {
            return None;
        }
        cur -= rb;
    }
}

/// The region containing data_addr, then the following regions whose start is < data_addr + limit.
fn model_next<T: W>(spec: &SideMetadataSpec, rb: usize, data_addr: usize, limit: usize) -> Option<usize> {
    let end = data_addr + limit;
    let mut cur = data_addr & !(rb - 1);
    while cur < end {
        if nonzero::<T>(spec, cur) {
            return Some(cur);
        }
        cur += rb;
    }
    None
}

fn model_scan<T: W>(spec: &SideMetadataSpec, rb: usize, s: usize, e: usize) -> Vec<usize> {
    let mut out = vec![];
    let mut cur = s;
    while cur < e {
        if nonzero::<T>(spec, cur) {
            out.push(cur);
        }
        cur += rb;
    }
    out
}

#[derive(Clone, Copy, PartialEq, Debug)]
enum Sut {
    Real,
    /// find_prev: result one region too low
    PrevResultOneRegionLow,
    /// find_prev: searches one region further than allowed
    PrevRangeOneRegionLong,
    /// find_prev: skips the region of data_addr itself
    PrevSkipsOwnRegion,
    /// find_next: range one region too long
    NextRangeOneRegionLong,
    /// find_next: range one region short
    NextRangeOneRegionShort,
    /// scan: includes the region at the end address
    ScanIncludesEnd,
    /// scan: misses the first region
    ScanSkipsFirst,
}

fn panic_msg(e: Box<dyn std::any::Any + Send>) -> String {
    e.downcast_ref::<String>()
        .cloned()
        .or_else(|| e.downcast_ref::<&str>().map(|s| s.to_string()))
        .unwrap_or_default()
}

struct Counts {
    prev: u64,
    next: u64,
    scan: u64,
    scan_unaligned: u64,
    res_none: u64,
    res_own: u64,
    res_same_byte: u64,
    res_same_word: u64,
    res_far: u64,
    limit_on_region_start: u64,
    limit_one_past_region_start: u64,
    unaligned_start: u64,
    own_region_before_range: u64,
    scan_hits: u64,
}

fn new_counts() -> Counts {
    Counts {
        prev: 0,
        next: 0,
        scan: 0,
        scan_unaligned: 0,
        res_none: 0,
        res_own: 0,
        res_same_byte: 0,
        res_same_word: 0,
        res_far: 0,
        limit_on_region_start: 0,
        limit_one_past_region_start: 0,
        unaligned_start: 0,
        own_region_before_range: 0,
        scan_hits: 0,
    }
}

fn fmt_opt(o: Option<usize>) -> String {
    match o {
        None => "None".to_string(),
        Some(a) => format!("Some({:#x})", a),
    }
}

fn result_class(cfg: &Cfg, data_addr: usize, want: Option<usize>, c: &mut Counts) -> u64 {
    match want {
        None => {
            c.res_none += 1;
            0
        }
        Some(a) => {
            let own = data_addr & !(cfg.rb - 1);
            let (b0, b1) = (cfg.meta_byte_of(own), cfg.meta_byte_of(a));
            if a == own {
                c.res_own += 1;
                1
            } else if b0 == b1 {
                c.res_same_byte += 1;
                2
            } else if b0 / 8 == b1 / 8 {
                c.res_same_word += 1;
                3
            } else {
                c.res_far += 1;
                4
            }
        }
    }
}

fn check_prev<T: W>(cfg: &Cfg, data_addr: usize, limit: usize, sut: Sut, rep: &mut Report, c: &mut Counts) {
    let spec = cfg.spec;
    let rb = cfg.rb;
    let want = model_prev::<T>(&spec, rb, data_addr, limit);
    let got = match sut {
        Sut::PrevResultOneRegionLow => Ok(want.map(|a| a - rb)),
        Sut::PrevRangeOneRegionLong => Ok(if data_addr.saturating_sub(limit) + 1 >= cfg.dz + rb {
            model_prev::<T>(&spec, rb, data_addr, limit + rb)
        } else {
            want
        }),
        Sut::PrevSkipsOwnRegion => {
            let own = data_addr & !(rb - 1);
            let lo = data_addr.saturating_sub(limit) + 1;
            Ok(if own > lo { model_prev::<T>(&spec, rb, own - 1, own - lo) } else { None })
        }
        _ => catch_unwind(AssertUnwindSafe(|| {
            unsafe { spec.find_prev_non_zero_value::<T>(addr(data_addr), limit) }.map(|a| a.as_usize())
        })),
    };
    c.prev += 1;
    let lo = data_addr.saturating_sub(limit) + 1;
    let intra = data_addr & (rb - 1);
    let lo_class = if lo & (rb - 1) == 0 {
        c.limit_on_region_start += 1;
        0
    } else if lo & (rb - 1) == 1 {
        c.limit_one_past_region_start += 1;
        1
    } else {
        2
    };
    if intra != 0 {
        c.unaligned_start += 1;
    }
    // the region of data_addr itself is non-zero but starts before the search range
    let own_before_range = intra != 0 && limit <= intra && nonzero::<T>(&spec, data_addr & !(rb - 1));
    if own_before_range {
        c.own_region_before_range += 1;
    }
    let rc = result_class(cfg, data_addr, want, c);
    // the region just below the range is non-zero (would be hit by an off-by-one range)
    let below = (lo & !(rb - 1)).wrapping_sub(if lo & (rb - 1) == 0 { rb } else { 0 });
    let below_nz = below >= cfg.dz && below < lo && nonzero::<T>(&spec, below);
    rep.eval(mix(
        mix(0x100 + cfg.bits as u64, cfg.pos(data_addr)),
        mix(rc * 8 + lo_class * 2 + (intra != 0) as u64, below_nz as u64 * 2 + own_before_range as u64),
    ));
    rep.key(mix(mix(0x1F0, cfg.bits as u64 * 64 + cfg.region as u64), rc));
    let describe = || {
        format!(
            "spec{{bits=2^{},region=2^{},offset={:#x}}} find_prev_non_zero_value::<{}>(data_addr={:#x}, search_limit_bytes={}) (data_addr = region {:#x} + {}; search range starts at {:#x}; metadata bit-in-word of the start field {})",
            cfg.bits, cfg.region, spec.offset, T::NAME, data_addr, limit, data_addr & !(rb - 1), intra, lo,
            ((data_addr >> cfg.region) * cfg.width) % 64
        )
    };
    match got {
        Err(e) => viol_once(rep, 
            format!("find_prev:panic:bits={}", cfg.bits),
            format!("{} panicked: {:?}", describe(), panic_msg(e)),
        ),
        Ok(g) => {
            if g != want {
                let sig = if own_before_range && want.is_none() && g == Some(data_addr & !(rb - 1)) {
                    "find_prev:unaligned-data-addr:own-region-returned-although-its-start-is-before-the-search-range".to_string()
                } else {
                    format!(
                        "find_prev:mismatch:bits={}:want={}:got={}",
                        cfg.bits,
                        if want.is_some() { "some" } else { "none" },
                        if g.is_some() { "some" } else { "none" }
                    )
                };
                viol_once(rep, 
                    sig,
                    format!("{} returned {} but the region-by-region scan (regions whose start is in [data_addr-limit+1, data_addr], as find_prev_non_zero_value_simple) gives {}", describe(), fmt_opt(g), fmt_opt(want)),
                );
            }
        }
    }
    if sut == Sut::Real && rep.want_sample() && rc >= 3 && intra != 0 {
        rep.sample(J::obj(vec![
            ("fn", J::s("find_prev")),
            ("bits", J::i(cfg.bits as u64)),
            ("region", J::i(cfg.region as u64)),
            ("data_addr", J::s(format!("{:#x}", data_addr))),
            ("limit", J::i(limit as u64)),
            ("result", J::s(fmt_opt(want))),
        ]));
    }
}

fn check_next<T: W>(cfg: &Cfg, data_addr: usize, limit: usize, sut: Sut, rep: &mut Report, c: &mut Counts) {
    let spec = cfg.spec;
    let rb = cfg.rb;
    let want = model_next::<T>(&spec, rb, data_addr, limit);
    let got = match sut {
        Sut::NextRangeOneRegionLong => Ok(if data_addr + limit + rb <= cfg.dz + cfg.dlen {
            model_next::<T>(&spec, rb, data_addr, limit + rb)
        } else {
            want
        }),
        Sut::NextRangeOneRegionShort => Ok(if limit > rb {
            model_next::<T>(&spec, rb, data_addr, limit - rb)
        } else {
            model_next::<T>(&spec, rb, data_addr, 1)
        }),
        _ => catch_unwind(AssertUnwindSafe(|| {
            unsafe { spec.find_next_non_zero_value::<T>(addr(data_addr), limit) }.map(|a| a.as_usize())
        })),
    };
    c.next += 1;
    let end = data_addr + limit;
    let intra = data_addr & (rb - 1);
    let end_class = if end & (rb - 1) == 0 {
        c.limit_on_region_start += 1;
        0
    } else if end & (rb - 1) == 1 {
        c.limit_one_past_region_start += 1;
        1
    } else {
        2
    };
    if intra != 0 {
        c.unaligned_start += 1;
    }
    let rc = result_class(cfg, data_addr, want, c);
    // first region outside the range is non-zero
    let beyond = (end + rb - 1) & !(rb - 1);
    let beyond_nz = beyond < cfg.dz + cfg.dlen && nonzero::<T>(&spec, beyond);
    rep.eval(mix(
        mix(0x200 + cfg.bits as u64, cfg.pos(data_addr)),
        mix(rc * 8 + end_class * 2 + (intra != 0) as u64, beyond_nz as u64),
    ));
    rep.key(mix(mix(0x2F0, cfg.bits as u64 * 64 + cfg.region as u64), rc));
    let describe = || {
        format!(
            "spec{{bits=2^{},region=2^{},offset={:#x}}} find_next_non_zero_value::<{}>(data_addr={:#x}, search_limit_bytes={}) (data_addr = region {:#x} + {}; search range ends before {:#x}; metadata bit-in-word of the start field {})",
            cfg.bits, cfg.region, spec.offset, T::NAME, data_addr, limit, data_addr & !(rb - 1), intra, end,
            ((data_addr >> cfg.region) * cfg.width) % 64
        )
    };
    match got {
        Err(e) => viol_once(rep, 
            format!("find_next:panic:bits={}", cfg.bits),
            format!("{} panicked: {:?}", describe(), panic_msg(e)),
        ),
        Ok(g) => {
            if g != want {
                viol_once(rep, 
                    format!(
                        "find_next:mismatch:bits={}:want={}:got={}",
                        cfg.bits,
                        if want.is_some() { "some" } else { "none" },
                        if g.is_some() { "some" } else { "none" }
                    ),
                    format!("{} returned {} but the region-by-region scan (region of data_addr, then regions starting before data_addr+limit) gives {}", describe(), fmt_opt(g), fmt_opt(want)),
                );
            }
        }
    }
    if sut == Sut::Real && rep.want_sample() && rc >= 3 && intra != 0 && rep.samples.len() >= 2 {
        rep.sample(J::obj(vec![
            ("fn", J::s("find_next")),
            ("bits", J::i(cfg.bits as u64)),
            ("region", J::i(cfg.region as u64)),
            ("data_addr", J::s(format!("{:#x}", data_addr))),
            ("limit", J::i(limit as u64)),
            ("result", J::s(fmt_opt(want))),
        ]));
    }
}

/// `s`, `e` region aligned.
fn check_scan<T: W>(cfg: &Cfg, s: usize, e: usize, sut: Sut, rep: &mut Report, c: &mut Counts) {
    let spec = cfg.spec;
    let rb = cfg.rb;
    let want = model_scan::<T>(&spec, rb, s, e);
    let got: Result<Vec<usize>, _> = match sut {
        Sut::ScanIncludesEnd => Ok(model_scan::<T>(&spec, rb, s, e + rb)),
        Sut::ScanSkipsFirst => Ok(model_scan::<T>(&spec, rb, std::cmp::min(s + rb, e), e)),
        _ => catch_unwind(AssertUnwindSafe(|| {
            let mut v = vec![];
            spec.scan_non_zero_values::<T>(addr(s), addr(e), &mut |a: Address| v.push(a.as_usize()));
            v
        })),
    };
    c.scan += 1;
    c.scan_hits += want.len() as u64;
    let nfields = (e - s) / rb;
    let sbit = ((s >> cfg.region) * cfg.width) % 64;
    let ebit = ((e >> cfg.region) * cfg.width) % 64;
    let span = if nfields == 0 {
        0
    } else if nfields * cfg.width <= 8 {
        1
    } else if nfields * cfg.width <= 64 {
        2
    } else if nfields * cfg.width <= 1024 {
        3
    } else {
        4
    };
    let dens = if want.is_empty() {
        0
    } else if want.len() == nfields {
        2
    } else {
        1
    };
    if nfields == 0 {
        rep.evaluations += 1;
    } else {
        rep.eval(mix(
            mix(0x300 + cfg.bits as u64, cfg.pos(s) * 64 + cfg.pos(e)),
            span * 4 + dens,
        ));
        rep.key(mix(mix(0x3F0, cfg.bits as u64 * 64 + cfg.region as u64), span * 4 + dens));
    }
    let describe = || {
        format!(
            "spec{{bits=2^{},region=2^{},offset={:#x}}} scan_non_zero_values::<{}>({:#x}, {:#x}) ({} regions; metadata bit-in-word of start {} / end {})",
            cfg.bits, cfg.region, spec.offset, T::NAME, s, e, nfields, sbit, ebit
        )
    };
    match got {
        Err(e) => viol_once(rep, 
            format!("scan:panic:bits={}", cfg.bits),
            format!("{} panicked: {:?}", describe(), panic_msg(e)),
        ),
        Ok(mut g) => {
            g.sort_unstable();
            if g != want {
                let missing: Vec<String> = want.iter().filter(|a| g.binary_search(a).is_err()).take(4).map(|a| format!("{:#x}", a)).collect();
                let extra: Vec<String> = g.iter().filter(|a| want.binary_search(a).is_err()).take(4).map(|a| format!("{:#x}", a)).collect();
                let dup = g.windows(2).any(|w| w[0] == w[1]);
                let kind = if !missing.is_empty() && !extra.is_empty() {
                    "missing-and-extra"
                } else if !missing.is_empty() {
                    "missing"
                } else if !extra.is_empty() {
                    "extra"
                } else if dup {
                    "duplicate"
                } else {
                    "other"
                };
                viol_once(rep, 
                    format!("scan:{}:bits={}", kind, cfg.bits),
                    format!("{} visited {} addresses, the naive scan finds {}; missing {:?} extra {:?}", describe(), g.len(), want.len(), missing, extra),
                );
            }
        }
    }
}

/// Unaligned start/end: only what the doc comment pins down is demanded.
fn check_scan_unaligned<T: W>(cfg: &Cfg, s: usize, e: usize, rep: &mut Report, c: &mut Counts) {
    let spec = cfg.spec;
    let rb = cfg.rb;
    let got = catch_unwind(AssertUnwindSafe(|| {
        let mut v = vec![];
        spec.scan_non_zero_values::<T>(addr(s), addr(e), &mut |a: Address| v.push(a.as_usize()));
        v
    }));
    c.scan_unaligned += 1;
    // regions fully inside [s, e) must be reported; the regions containing an unaligned s or e may
    // or may not be
    let full_lo = (s + rb - 1) & !(rb - 1);
    let full_hi = e & !(rb - 1);
    let must = if full_lo < full_hi { model_scan::<T>(&spec, rb, full_lo, full_hi) } else { vec![] };
    let s_un = s & (rb - 1) != 0;
    let e_un = e & (rb - 1) != 0;
    rep.eval(mix(mix(0x400 + cfg.bits as u64, cfg.region as u64), (s_un as u64) * 2 + e_un as u64));
    let describe = || {
        format!(
            "spec{{bits=2^{},region=2^{},offset={:#x}}} scan_non_zero_values::<{}>({:#x}, {:#x}) with start = region+{} and end = region+{}",
            cfg.bits, cfg.region, spec.offset, T::NAME, s, e, s & (rb - 1), e & (rb - 1)
        )
    };
    match got {
        Err(e) => viol_once(rep, 
            format!("scan-unaligned:panic:bits={}", cfg.bits),
            format!("{} panicked: {:?}", describe(), panic_msg(e)),
        ),
        Ok(mut g) => {
            g.sort_unstable();
            let path = if cfg.bits == 0 { "one-bit-fast-path" } else { "multi-bit-simple-path" };
            if let Some(a) = g.iter().find(|a| *a & (rb - 1) != 0) {
                viol_once(rep, 
                    format!("scan-unaligned:callback-address-is-not-the-lowest-address-of-its-region:{}", path),
                    format!("{} called visit_data({:#x}); the doc comment promises the lowest address of the region", describe(), a),
                );
                return;
            }
            if let Some(a) = must.iter().find(|a| g.binary_search(a).is_err()) {
                viol_once(rep, 
                    format!("scan-unaligned:missing-fully-covered-region:{}", path),
                    format!("{} did not visit the non-zero region {:#x} which lies fully inside the range", describe(), a),
                );
            }
            let lo_ok = s & !(rb - 1);
            let hi_ok = (e + rb - 1) & !(rb - 1);
            if let Some(a) = g.iter().find(|a| **a < lo_ok || **a >= hi_ok || !nonzero::<T>(&spec, **a)) {
                viol_once(rep, 
                    format!("scan-unaligned:visited-zero-or-outside-region:{}", path),
                    format!("{} visited {:#x} which is zero or does not overlap the range", describe(), a),
                );
            }
            if g.windows(2).any(|w| w[0] == w[1]) {
                viol_once(rep, 
                    format!("scan-unaligned:duplicate:{}", path),
                    format!("{} visited a region twice", describe()),
                );
            }
        }
    }
}

// ------------------------------------------------------------------------------------------
// Patterns and query generation
// ------------------------------------------------------------------------------------------

const PATTERNS: [&str; 10] = [
    "zero", "single", "sparse256", "sparse32", "quarter", "dense", "all-but-one", "boundary-pair", "runs", "single-high-bit",
];

fn set_pattern(cfg: &mut Cfg, p: usize, rng: &mut Rng) {
    cfg.clear();
    let n = cfg.n;
    match p {
        0 => {}
        1 => {
            let v = cfg.nzval(rng);
            cfg.put(rng.usize_below(n), v);
        }
        2 | 3 | 4 | 5 => {
            let (num, den) = [(1, 256), (1, 32), (1, 4), (3, 4)][p - 2];
            for i in 0..n {
                if rng.chance(num, den) {
                    let v = cfg.nzval(rng);
                    cfg.put(i, v);
                }
            }
        }
        6 => {
            for i in 0..n {
                let v = cfg.nzval(rng);
                cfg.put(i, v);
            }
            cfg.put(rng.usize_below(n), 0);
        }
        7 => {
            // two non-zero fields on both sides of a metadata word boundary
            let per_word = std::cmp::max(1, 64 / cfg.width);
            let words = n / per_word;
            if words >= 3 {
                let w = 1 + rng.usize_below(words - 2);
                // field index (window relative) of the first field of a metadata word
                let first = (w * per_word + per_word - (cfg.foff % per_word)) % (words * per_word);
                let a = first.saturating_sub(1).min(n - 1);
                let b = first.min(n - 1);
                let v = cfg.nzval(rng);
                cfg.put(a, v);
                let v = cfg.nzval(rng);
                cfg.put(b, v);
            }
        }
        8 => {
            let mut i = 0;
            while i < n {
                let zero_run = 1 + rng.usize_below(3 * std::cmp::max(64 / cfg.width, 1) + 8);
                i += zero_run;
                let nz_run = 1 + rng.usize_below(6);
                for _ in 0..nz_run {
                    if i < n {
                        let v = cfg.nzval(rng);
                        cfg.put(i, v);
                    }
                    i += 1;
                }
            }
        }
        _ => {
            // only the highest bit of a few fields
            for _ in 0..3 {
                cfg.put(rng.usize_below(n), 1u64 << (cfg.width - 1));
            }
        }
    }
}

fn nearest_nz_below(cfg: &Cfg, i: usize) -> Option<usize> {
    (0..=i).rev().find(|&j| cfg.nz[j])
}
fn nearest_nz_above(cfg: &Cfg, i: usize) -> Option<usize> {
    (i..cfg.n).find(|&j| cfg.nz[j])
}

fn gen_prev(cfg: &Cfg, rng: &mut Rng) -> (usize, usize) {
    let rb = cfg.rb;
    let i = rng.usize_below(cfg.n);
    let intra = if rng.chance(1, 3) { 1 + rng.usize_below(rb - 1) } else { 0 };
    let data_addr = cfg.field_addr(i) + intra;
    let max_limit = data_addr - cfg.dz + 1; // lo == dz
    let limit = match rng.below(10) {
        0 => 1,
        1 => 1 + rng.usize_below(2 * rb),
        2 => max_limit - rng.usize_below(2),
        3 => 1 + rng.usize_below(max_limit),
        4 => 1 + rng.usize_below(std::cmp::min(max_limit, 40 * rb)),
        _ => {
            // put the start of the range exactly on / one byte after / one byte before the start
            // of a region near the nearest non-zero field below
            let p = nearest_nz_below(cfg, i).unwrap_or_else(|| rng.usize_below(i + 1));
            let j = (p + 1).saturating_sub(rng.usize_below(3)).min(i);
            let lo = cfg.field_addr(j) + [0usize, 1, rb - 1][rng.usize_below(3)];
            if lo > data_addr {
                1
            } else {
                data_addr - lo + 1
            }
        }
    };
    (data_addr, limit.max(1).min(max_limit))
}

fn gen_next(cfg: &Cfg, rng: &mut Rng) -> (usize, usize) {
    let rb = cfg.rb;
    let i = rng.usize_below(cfg.n);
    let intra = if rng.chance(1, 3) { 1 + rng.usize_below(rb - 1) } else { 0 };
    let data_addr = cfg.field_addr(i) + intra;
    let max_limit = cfg.dz + cfg.dlen - data_addr;
    let win_limit = cfg.field_addr(cfg.n) - data_addr + rb;
    let limit = match rng.below(10) {
        0 => 1,
        1 => 1 + rng.usize_below(2 * rb),
        2 => max_limit - rng.usize_below(2),
        3 => 1 + rng.usize_below(std::cmp::min(max_limit, win_limit)),
        4 => 1 + rng.usize_below(std::cmp::min(max_limit, 40 * rb)),
        _ => {
            let p = nearest_nz_above(cfg, i).unwrap_or_else(|| i + rng.usize_below(cfg.n - i));
            let j = std::cmp::max(i, (p + rng.usize_below(3)).saturating_sub(1));
            let end = cfg.field_addr(j) + [0usize, 1, rb - 1][rng.usize_below(3)];
            if end <= data_addr {
                1
            } else {
                end - data_addr
            }
        }
    };
    (data_addr, limit.max(1).min(max_limit))
}

fn gen_scan(cfg: &Cfg, rng: &mut Rng) -> (usize, usize) {
    let n = cfg.n;
    let a = rng.usize_below(n + 1);
    let b = match rng.below(4) {
        0 => a + rng.usize_below(std::cmp::min(n - a, 3 * std::cmp::max(8 / cfg.width.min(8), 1)) + 1),
        1 => a + rng.usize_below(std::cmp::min(n - a, 200) + 1),
        _ => a + rng.usize_below(n - a + 1),
    };
    (cfg.field_addr(a), cfg.field_addr(b))
}

macro_rules! dispatch {
    ($bits:expr, $f:ident, $($arg:expr),*) => {
        match $bits {
            0..=3 => $f::<u8>($($arg),*),
            4 => $f::<u16>($($arg),*),
            5 => $f::<u32>($($arg),*),
            _ => $f::<u64>($($arg),*),
        }
    };
}

fn run_config(cfg: &mut Cfg, rounds: usize, q: usize, rng: &mut Rng, rep: &mut Report, c: &mut Counts, sut_prev: Sut, sut_next: Sut, sut_scan: Sut) {
    for round in 0..rounds {
        let p = round % PATTERNS.len();
        set_pattern(cfg, p, rng);
        // 64-bit fields: alternate u64 / usize (both are legal for the width)
        let use_usize = cfg.bits == 6 && round % 2 == 1;
        for _ in 0..q {
            let (a, l) = gen_prev(cfg, rng);
            if use_usize {
                check_prev::<usize>(cfg, a, l, sut_prev, rep, c);
            } else {
                dispatch!(cfg.bits, check_prev, cfg, a, l, sut_prev, rep, c);
            }
            let (a, l) = gen_next(cfg, rng);
            if use_usize {
                check_next::<usize>(cfg, a, l, sut_next, rep, c);
            } else {
                dispatch!(cfg.bits, check_next, cfg, a, l, sut_next, rep, c);
            }
        }
        for _ in 0..std::cmp::max(q / 4, 1) {
            let (s, e) = gen_scan(cfg, rng);
            if use_usize {
                check_scan::<usize>(cfg, s, e, sut_scan, rep, c);
            } else {
                dispatch!(cfg.bits, check_scan, cfg, s, e, sut_scan, rep, c);
            }
        }
        if sut_scan == Sut::Real {
            for _ in 0..std::cmp::max(q / 16, 1) {
                let (s, e) = gen_scan(cfg, rng);
                let rb = cfg.rb;
                let s2 = s + if rng.chance(2, 3) { 1 + rng.usize_below(rb - 1) } else { 0 };
                let e2 = e + if rng.chance(1, 2) && e + rb <= cfg.dz + cfg.dlen { 1 + rng.usize_below(rb - 1) } else { 0 };
                if s2 >= e2 || (s2 == s && e2 == e) {
                    continue;
                }
                dispatch!(cfg.bits, check_scan_unaligned, cfg, s2, e2, rep, c);
            }
        }
    }
}

/// Build the window of config `k` in the main (fully mapped) layout.
fn main_cfg(base: usize, k: usize, bits: usize, region: usize, rng: &mut Rng, rep: &mut Report) -> Option<Cfg> {
    let rb = 1usize << region;
    let n = std::cmp::min(4096, std::cmp::max(64, (256usize << 20) >> region));
    let foff = rng.usize_below(64);
    let dlen = ((n + 64 + foff) * rb + CHUNK - 1) & !(CHUNK - 1);
    let dz = base + TIB + k * 2 * GIB;
    if !map_data(base, dz, dlen) {
        rep.inconclusive(format!("could not map the data range for bits={} region={}", bits, region));
        return None;
    }
    let cfg = new_cfg(base, k, bits, region, dz, n, foff, dlen, rep)?;
    if !mmtk::verif::map_side_metadata(&[cfg.spec], addr(dz), dlen) {
        rep.inconclusive(format!("could not map metadata for bits={} region={}", bits, region));
        return None;
    }
    if !addr(dz).is_mapped() || !addr(dz + dlen - 1).is_mapped() || !addr(cfg.meta_dz as usize).is_mapped() {
        rep.inconclusive(format!("mapping check failed for bits={} region={}", bits, region));
        return None;
    }
    Some(cfg)
}

fn selftest(base: usize, rng: &mut Rng, rep: &mut Report) {
    let muts: [(Sut, Sut, Sut, &str); 7] = [
        (Sut::PrevResultOneRegionLow, Sut::Real, Sut::Real, "find_prev"),
        (Sut::PrevRangeOneRegionLong, Sut::Real, Sut::Real, "find_prev"),
        (Sut::PrevSkipsOwnRegion, Sut::Real, Sut::Real, "find_prev"),
        (Sut::Real, Sut::NextRangeOneRegionLong, Sut::Real, "find_next"),
        (Sut::Real, Sut::NextRangeOneRegionShort, Sut::Real, "find_next"),
        (Sut::Real, Sut::Real, Sut::ScanIncludesEnd, "scan"),
        (Sut::Real, Sut::Real, Sut::ScanSkipsFirst, "scan"),
    ];
    let mut caught = 0;
    let mut total = 0;
    for (idx, &(bits, region)) in [(0usize, 3usize), (2, 4), (4, 8)].iter().enumerate() {
        let mut scratch0 = Report::new("selftest");
        let Some(mut cfg) = main_cfg(base, 60 + idx, bits, region, rng, &mut scratch0) else {
            rep.inconclusive("self-test window could not be mapped");
            return;
        };
        for &(sp, sn, ss, prefix) in &muts {
            total += 1;
            let mut scratch = Report::new("selftest");
            let mut c = new_counts();
            run_config(&mut cfg, PATTERNS.len(), 40, rng, &mut scratch, &mut c, sp, sn, ss);
            if scratch.violations.iter().any(|(s, _)| s.starts_with(prefix)) {
                caught += 1;
            } else {
                rep.inconclusive(format!("oracle self-test: mutant {:?}/{:?}/{:?} (bits=2^{}) was NOT flagged", sp, sn, ss, bits));
            }
        }
    }
    rep.count("selftest_mutants_total", total);
    rep.count("selftest_mutants_caught", caught);
}

// ------------------------------------------------------------------------------------------
// Edge of mapped data / metadata (child process)
// ------------------------------------------------------------------------------------------

fn edge_last(s: &str) {
    let out = std::io::stdout();
    let mut l = out.lock();
    let _ = writeln!(l, "EDGE-LAST\t{}", s);
    let _ = l.flush();
}

fn edge_expect<T: W>(cfg: &Cfg, prev: bool, data_addr: usize, limit: usize, want: Option<usize>, class: &str, rep: &mut Report) {
    let spec = cfg.spec;
    let name = if prev { "find_prev_non_zero_value" } else { "find_next_non_zero_value" };
    let desc = format!(
        "spec{{bits=2^{},region=2^{},offset={:#x}}} {}::<{}>(data_addr={:#x}, search_limit_bytes={}) with data mapped only in [{:#x},{:#x}) and metadata mapped only for data [{:#x},{:#x}) [{}]",
        cfg.bits, cfg.region, spec.offset, name, T::NAME, data_addr, limit, cfg.dz, cfg.dz + cfg.dlen,
        cfg.dz, cfg.dz.wrapping_add(CHUNK << (3 + cfg.region - cfg.bits)), class
    );
    edge_last(&format!("{}:bits={}\t{}", class, cfg.bits, desc));
    let got = catch_unwind(AssertUnwindSafe(|| unsafe {
        if prev {
            spec.find_prev_non_zero_value::<T>(addr(data_addr), limit)
        } else {
            spec.find_next_non_zero_value::<T>(addr(data_addr), limit)
        }
        .map(|a| a.as_usize())
    }));
    rep.eval(mix(mix(0x500 + cfg.bits as u64, cfg.region as u64), mix(prev as u64, class.len() as u64 * 256 + class.as_bytes()[5] as u64)));
    rep.count(&format!("edge_{}", class), 1);
    match got {
        Err(e) => viol_once(rep, format!("edge:{}:panic:bits={}", class, cfg.bits), format!("{} panicked: {:?}", desc, panic_msg(e))),
        Ok(g) => {
            if g != want {
                viol_once(rep, 
                    format!("edge:{}:{}:bits={}", class, if prev { "find_prev" } else { "find_next" }, cfg.bits),
                    format!("{} returned {}, expected {}", desc, fmt_opt(g), fmt_opt(want)),
                );
            }
        }
    }
}

#[allow(clippy::too_many_arguments)]
fn edge_config(base: usize, k: usize, bits: usize, region: usize, rng: &mut Rng, rep: &mut Report, thorough: bool, seed_rot: usize) {
    let ratio = 3 + region - bits;
    if ratio > 19 {
        rep.count("edge_configs_skipped_meta_chunk_covers_too_much_data", 1);
        return;
    }
    let rb = 1usize << region;
    let g = CHUNK << ratio; // data covered by one metadata chunk
    let slot = base + TIB + k * 8 * GIB;
    let de = (slot + g - 1) & !(g - 1);
    let dlen = CHUNK;
    let nreg = dlen / rb;
    let Some(mut cfg) = new_cfg(base, k, bits, region, de, std::cmp::min(nreg, 4096), 0, dlen, rep) else {
        return;
    };
    let meta = cfg.meta_dz as usize;
    if addr(meta).is_mapped() || addr(meta - 1).is_mapped() || addr(meta + CHUNK).is_mapped() {
        rep.inconclusive(format!("edge: metadata chunk of bits={} region={} collides with another window", bits, region));
        return;
    }
    if !map_data(base, de, dlen) || !mmtk::verif::map_side_metadata(&[cfg.spec], addr(de), dlen) {
        rep.inconclusive(format!("edge: could not map bits={} region={}", bits, region));
        return;
    }
    // the layout the cases rely on
    if !(addr(de).is_mapped()
        && addr(de + dlen - 1).is_mapped()
        && !addr(de - 1).is_mapped()
        && !addr(de + dlen).is_mapped()
        && addr(meta).is_mapped()
        && addr(meta + CHUNK - 1).is_mapped()
        && !addr(meta - 1).is_mapped()
        && !addr(meta + CHUNK).is_mapped())
    {
        rep.inconclusive(format!("edge: mapping layout check failed for bits={} region={}", bits, region));
        return;
    }
    rep.count("edge_configs", 1);
    let n = cfg.n;
    let reps = if thorough { 40 } else { 8 };
    macro_rules! ex {
        ($prev:expr, $a:expr, $l:expr, $want:expr, $class:expr) => {
            dispatch!(bits, edge_expect, &cfg, $prev, $a, $l, $want, $class, rep)
        };
    }
    let extras = [1usize, 2, rb, 3 * rb + 1, CHUNK, GIB];
    for rep_i in 0..reps {
        // long zero scans (up to a whole 4 MiB metadata chunk each) only in the first rounds
        let long_ok = rep_i < 2;
        // scanning a whole never-touched metadata chunk costs ~1000 page faults: in the quick
        // tier only a seed-rotated fifth of the configs does it, and once
        let chunk_scan_ok = if thorough { rep_i < 2 } else { rep_i == 0 && (k + seed_rot) % 5 == 0 };
        // --- find_prev reaching below the first mapped data / metadata address, all zero
        cfg.clear();
        let j = rng.usize_below(std::cmp::min(n, 70));
        let intra = if rng.chance(1, 2) { rng.usize_below(rb) } else { 0 };
        let a = de + j * rb + intra;
        for &x in &extras {
            ex!(true, a, (a - de) + x, None, "prev-zero-into-unmapped");
        }
        // --- with a non-zero field between
        let p = rng.usize_below(j + 1);
        let v = cfg.nzval(rng);
        cfg.put(p, v);
        for &x in &extras {
            ex!(true, a, (a - de) + x, Some(de + p * rb), "prev-hit-before-unmapped");
        }
        cfg.clear();
        // --- data_addr itself unmapped
        for &x in &[1usize, rb, CHUNK] {
            ex!(true, de - x, rb * 4, None, "prev-start-unmapped");
            ex!(false, de + dlen + x - 1, rb * 4, None, "next-start-unmapped");
        }
        // --- find_next reaching beyond the mapped data (metadata beyond is mapped and zero if
        // the metadata chunk covers more than the data chunk)
        let j = n - 1 - rng.usize_below(std::cmp::min(n, 70));
        let a = de + j * rb + intra;
        for &x in &extras {
            if de + dlen + x <= de + g && (long_ok || x <= 3 * rb + 1) {
                ex!(false, a, (de + dlen - a) + x, None, "next-zero-past-mapped-data");
            }
        }
        let p = j + rng.usize_below(n - j);
        let v = cfg.nzval(rng);
        cfg.put(p, v);
        for &x in &extras {
            if de + dlen + x <= de + g {
                ex!(false, a, (de + dlen - a) + x, Some(de + p * rb), "next-hit-before-unmapped");
            }
        }
        cfg.clear();
        // --- find_next running past the end of the mapped metadata chunk
        if chunk_scan_ok {
            for &x in &[1usize, rb, CHUNK + 5] {
                ex!(false, a, (de + g - a) + x, None, "next-zero-into-unmapped-metadata");
            }
        }
        let v = cfg.nzval(rng);
        cfg.put(p, v);
        for &x in &[1usize, rb, CHUNK + 5] {
            ex!(false, a, (de + g - a) + x, Some(de + p * rb), "next-hit-then-unmapped-metadata");
        }
        cfg.clear();
    }
}

fn run_edge_child(args: &Args, rep: &mut Report) {
    let mut rng = Rng::new(args.seed() ^ 0xC22E);
    let Some(base) = init(rep) else {
        dump_edge(rep);
        return;
    };
    let mut k = 0;
    for bits in 0..=6usize {
        for &region in REGIONS.iter() {
            edge_config(base, k, bits, region, &mut rng, rep, args.thorough(), (args.seed() % 5) as usize);
            k += 1;
        }
    }
    dump_edge(rep);
}

fn clean(s: &str) -> String {
    s.replace(['\t', '\n'], " ")
}

fn dump_edge(rep: &Report) {
    let out = std::io::stdout();
    let mut l = out.lock();
    let _ = writeln!(l, "EDGE-E\t{}", rep.evaluations);
    for k in rep.keys.iter() {
        let _ = writeln!(l, "EDGE-K\t{:x}", k);
    }
    for (n, v) in rep.counters.iter() {
        let _ = writeln!(l, "EDGE-C\t{}\t{}", n, v);
    }
    for (s, d) in rep.violations.iter() {
        let _ = writeln!(l, "EDGE-V\t{}\t{}", clean(s), clean(d));
    }
    for s in rep.inconclusive.iter() {
        let _ = writeln!(l, "EDGE-I\t{}", clean(s));
    }
    let _ = writeln!(l, "EDGE-DONE");
    let _ = l.flush();
}

fn run_edge_parent(args: &Args, rep: &mut Report) {
    let exe = match std::env::current_exe() {
        Ok(e) => e,
        Err(_) => {
            rep.inconclusive("edge: current_exe unavailable");
            return;
        }
    };
    let out = std::process::Command::new(exe)
        .args([
            "C22",
            "--case",
            "edge",
            "--seed",
            &args.seed().to_string(),
            "--tier",
            if args.thorough() { "thorough" } else { "quick" },
        ])
        .stderr(std::process::Stdio::null())
        .output();
    let out = match out {
        Ok(o) => o,
        Err(e) => {
            rep.inconclusive(format!("edge: could not spawn the child: {}", e));
            return;
        }
    };
    let text = String::from_utf8_lossy(&out.stdout);
    let mut last = String::new();
    let mut done = false;
    for line in text.lines() {
        let f: Vec<&str> = line.split('\t').collect();
        match f[0] {
            "EDGE-LAST" => last = f[1..].join(" | "),
            "EDGE-E" => rep.evaluations += f[1].parse::<u64>().unwrap_or(0),
            "EDGE-K" => {
                if let Ok(k) = u64::from_str_radix(f[1], 16) {
                    rep.key(k)
                }
            }
            "EDGE-C" => rep.count(f[1], f[2].parse::<u64>().unwrap_or(0)),
            "EDGE-V" => rep.violation(f[1], f[2]),
            "EDGE-I" => rep.inconclusive(f[1]),
            "EDGE-DONE" => done = true,
            _ => {}
        }
    }
    if !done {
        use std::os::unix::process::ExitStatusExt;
        if let Some(sig) = out.status.signal() {
            let class = last.split(' ').next().unwrap_or("").to_string();
            viol_once(rep, 
                format!("edge:killed-by-signal-{}:{}", sig, class),
                format!("the child process died with signal {} during: {}", sig, last),
            );
        } else {
            rep.inconclusive(format!("edge: child exited with {:?} without finishing; last case: {}", out.status.code(), last));
        }
    }
}

pub fn run(args: &Args, rep: &mut Report) {
    if args.get("case") == Some("edge") {
        run_edge_child(args, rep);
        return;
    }
    let mut rng = Rng::new(args.seed() ^ 0xC22);
    let Some(base) = init(rep) else {
        return;
    };
    selftest(base, &mut rng, rep);
    let thorough = args.thorough();
    let rounds = if thorough { 20 * PATTERNS.len() } else { 2 * PATTERNS.len() };
    let q = args.usize_or("queries", if thorough { 400 } else { 200 });
    let only_bits = args.get("bits").map(|s| s.parse::<usize>().unwrap());
    let mut c = new_counts();
    let mut k = 0;
    let mut configs = 0;
    for bits in 0..=6usize {
        for &region in REGIONS.iter() {
            k += 1;
            if only_bits.is_some() && only_bits != Some(bits) {
                continue;
            }
            let Some(mut cfg) = main_cfg(base, k - 1, bits, region, &mut rng, rep) else {
                continue;
            };
            configs += 1;
            run_config(&mut cfg, rounds, q, &mut rng, rep, &mut c, Sut::Real, Sut::Real, Sut::Real);
        }
    }
    rep.count("configs", configs);
    rep.count("find_prev_queries", c.prev);
    rep.count("find_next_queries", c.next);
    rep.count("scan_queries", c.scan);
    rep.count("scan_unaligned_queries", c.scan_unaligned);
    rep.count("scan_total_hits", c.scan_hits);
    rep.count("result_none", c.res_none);
    rep.count("result_own_region", c.res_own);
    rep.count("result_same_metadata_byte", c.res_same_byte);
    rep.count("result_same_metadata_word", c.res_same_word);
    rep.count("result_other_word", c.res_far);
    rep.count("range_end_on_region_start", c.limit_on_region_start);
    rep.count("range_end_one_byte_past_region_start", c.limit_one_past_region_start);
    rep.count("unaligned_data_addr", c.unaligned_start);
    rep.count("find_prev_own_region_nonzero_but_before_range", c.own_region_before_range);
    if only_bits.is_none() && !args.flag("no-edge") {
        run_edge_parent(args, rep);
    }
    rep.note("data ranges are carved out of the reserved side metadata range (the only way to make Address::is_mapped() true from outside the crate); the side metadata base is fixed via Options::side_metadata_base_address");
    rep.note("edge cases only demand: no crash, None when nothing non-zero lies between data_addr and the first unmapped data/metadata address, the nearest hit otherwise; metadata beyond the mapped data is kept zero");
    rep.note("edge cases are skipped for specs whose one metadata chunk covers >= 2^42 bytes of data (ratio > 19)");
}
