//! C34 (ii): Immix block states round-trip through their byte encoding.
//!
//! The real `BlockState` (`policy/immix/block.rs`, through `mmtk::verif::ImmixBlockState`) and the
//! real `Block::{get_state, set_state}` on a really mapped `IX_BLOCK_MARK` side table.
//!
//! Legal states: `Unallocated`, `Unmarked`, `Marked` and `Reusable { unavailable_lines: n }` with
//! `1 <= n < Block::LINES` -- `Block::sweep` is the only producer of `Reusable` and stores the
//! number of marked lines of a block that has at least one marked and at least one unmarked line.
//! (`Reusable{0}`, `Reusable{254}`, `Reusable{255}` share their byte with the three other states;
//! they are never produced and only counted here.)
//!
//! Oracle (exactly "block states round-trip through their byte encoding"):
//!   a. for every byte `b`: `u8::from(BlockState::from(b)) == b`                  (`bytes_decoded`)
//!   b. for every legal state `s`: `BlockState::from(u8::from(s)) == s`, `is_reusable` agrees,
//!      and different legal states have different bytes          (`block_states_round_tripped`)
//!   c. on mapped metadata: `set_state(s); get_state() == s`, the table byte equals `u8::from(s)`,
//!      the neighbouring blocks' bytes are untouched; and a raw byte `b` stored in the table is
//!      read back by `get_state` as `BlockState::from(b)`.
//! Also: `Line::mark(v)` / `Line::is_marked(w)` on the mapped line table agree with `v == w` for
//! all byte values, and the constants `RESET_MARK_STATE`/`MAX_MARK_STATE` are reported.
//! `ImmixSpace::prepare` advances `line_mark_state` inline (no pure function): not covered here.
use crate::unitvm::SideVM;
use mmtk::util::linear_scan::Region;
use mmtk::util::Address;
use mmtk::verif::{ImmixBlock as Block, ImmixBlockState as BlockState, ImmixLine as Line};
use std::collections::HashMap;
use std::panic::{catch_unwind, AssertUnwindSafe};
use std::sync::atomic::Ordering;
use vcommon::{mix, Args, Report, Rng, J};

fn class_of_byte(b: u8) -> &'static str {
    match b {
        0 => "0",
        255 => "255",
        254 => "254",
        _ => "reusable",
    }
}

fn class_of_state(s: BlockState) -> &'static str {
    match s {
        BlockState::Unallocated => "unallocated",
        BlockState::Unmarked => "unmarked",
        BlockState::Marked => "marked",
        BlockState::Reusable { .. } => "reusable",
    }
}

fn legal_states() -> Vec<BlockState> {
    let mut v = vec![BlockState::Unallocated, BlockState::Unmarked, BlockState::Marked];
    for n in 1..Block::LINES {
        v.push(BlockState::Reusable { unavailable_lines: n as u8 });
    }
    v
}

/// The codec oracle, parameterised over the codec so that the self test can feed it broken ones.
fn pure_checks(rep: &mut Report, enc: &dyn Fn(BlockState) -> u8, dec: &dyn Fn(u8) -> BlockState) {
    // a. decode, encode
    for b in 0..=255u8 {
        let s = dec(b);
        let b2 = enc(s);
        rep.eval(mix(0xA34, b as u64));
        rep.count("bytes_decoded", 1);
        if b2 != b {
            rep.violation(
                format!("c34:blockstate:decode-encode:byte-{}", class_of_byte(b)),
                format!("BlockState::from({}) = {:?}, u8::from of it = {}", b, s, b2),
            );
        }
    }
    // b. encode, decode on the legal domain
    let mut byte_of: HashMap<u8, BlockState> = HashMap::new();
    for s in legal_states() {
        let b = enc(s);
        let s2 = dec(b);
        rep.eval(mix(0xB34, b as u64));
        rep.count("block_states_round_tripped", 1);
        if s2 != s {
            rep.violation(
                format!("c34:blockstate:encode-decode:{}", class_of_state(s)),
                format!("u8::from({:?}) = {}, BlockState::from of it = {:?}", s, b, s2),
            );
        }
        if s.is_reusable() != matches!(s, BlockState::Reusable { .. }) {
            rep.violation(
                format!("c34:blockstate:is_reusable:{}", class_of_state(s)),
                format!("{:?}.is_reusable() = {}", s, s.is_reusable()),
            );
        }
        if let Some(other) = byte_of.insert(b, s) {
            rep.violation(
                format!("c34:blockstate:two-states-one-byte:{}+{}", class_of_state(other), class_of_state(s)),
                format!("{:?} and {:?} are both encoded as byte {}", other, s, b),
            );
        }
    }
    rep.count("legal_states", legal_states().len() as u64);
    rep.count("block_lines", Block::LINES as u64);
    // outside the legal domain: only counted
    for n in (0..=255u8).filter(|&n| n == 0 || n as usize >= Block::LINES) {
        let s = BlockState::Reusable { unavailable_lines: n };
        if dec(enc(s)) != s {
            rep.count("never_produced_reusable_values_sharing_a_byte", 1);
        }
    }
}

fn selftest(rep: &mut Report) {
    let real_enc = |s: BlockState| u8::from(s);
    let real_dec = |b: u8| BlockState::from(b);
    let mutants: Vec<(&str, Box<dyn Fn(BlockState) -> u8>, Box<dyn Fn(u8) -> BlockState>)> = vec![
        // Marked gets Unmarked's byte
        (
            "marked-encoded-as-unmarked",
            Box::new(move |s| if s == BlockState::Marked { 255 } else { real_enc(s) }),
            Box::new(real_dec),
        ),
        // byte 1 decodes as Unallocated
        (
            "one-line-decodes-as-unallocated",
            Box::new(real_enc),
            Box::new(move |b| if b == 1 { BlockState::Unallocated } else { real_dec(b) }),
        ),
        // the line count loses its top bit
        (
            "reusable-count-truncated",
            Box::new(move |s| match s {
                BlockState::Reusable { unavailable_lines } => unavailable_lines & 0x3f,
                o => real_enc(o),
            }),
            Box::new(real_dec),
        ),
        // Unmarked and Marked swapped on decode only
        (
            "decode-swaps-marked-unmarked",
            Box::new(real_enc),
            Box::new(move |b| match b {
                255 => BlockState::Marked,
                254 => BlockState::Unmarked,
                o => real_dec(o),
            }),
        ),
    ];
    let mut caught = 0;
    let total = mutants.len() as u64;
    for (name, enc, dec) in mutants {
        let mut scratch = Report::new("selftest");
        pure_checks(&mut scratch, enc.as_ref(), dec.as_ref());
        if scratch.violation_count > 0 {
            caught += 1;
        } else {
            rep.inconclusive(format!("selftest: codec mutant {:?} not caught", name));
        }
    }
    rep.count("selftest_mutants_total", total);
    rep.count("selftest_mutants_caught", caught);
}

fn table_byte(block: Block) -> u8 {
    Block::MARK_TABLE.load_atomic::<u8>(block.start(), Ordering::SeqCst)
}

fn mapped_checks(rep: &mut Report, rng: &mut Rng, rounds: usize) {
    // a window of 64 blocks whose data is not mapped (only side metadata is accessed)
    const NBLOCKS: usize = 64;
    let starts: [usize; 2] = [0x0000_0200_4000_0000, 0x0000_0317_7fe0_0000];
    for (wi, &w) in starts.iter().enumerate() {
        let start = unsafe { Address::from_usize(w) };
        let bytes = NBLOCKS * Block::BYTES;
        if !mmtk::verif::map_side_metadata(&[Block::MARK_TABLE, Block::DEFRAG_STATE_TABLE, Line::MARK_TABLE], start, bytes) {
            rep.inconclusive(format!("could not map the Immix side tables for the window at {:#x}", w));
            continue;
        }
        let block = |i: usize| Block::from_aligned_address(start + i * Block::BYTES);
        let legal = legal_states();
        // every block starts as byte 0
        for i in 0..NBLOCKS {
            rep.evaluations += 1;
            if block(i).get_state() != BlockState::Unallocated {
                rep.violation(
                    "c34:blockstate:fresh-table-not-unallocated",
                    format!("window {:#x} block {}: get_state() = {:?} on freshly mapped metadata", w, i, block(i).get_state()),
                );
            }
        }
        let mut model: Vec<u8> = vec![0; NBLOCKS];
        // exhaustive: every legal state and every raw byte on one block with both neighbours set
        let mid = 1 + rng.usize_below(NBLOCKS - 2);
        for &s in &legal {
            block(mid).set_state(s);
            model[mid] = u8::from(s);
            check_block(rep, w, mid, &block, &model, Some(s), "set_state");
        }
        for b in 0..=255u8 {
            Block::MARK_TABLE.store_atomic::<u8>(block(mid).start(), b, Ordering::SeqCst);
            model[mid] = b;
            rep.eval(mix(0xC34, mix(wi as u64, b as u64)));
            let got = block(mid).get_state();
            if got != BlockState::from(b) {
                rep.violation(
                    format!("c34:blockstate:get_state-of-raw-byte:byte-{}", class_of_byte(b)),
                    format!("window {:#x} block {}: table byte {} read as {:?}, BlockState::from gives {:?}", w, mid, b, got, BlockState::from(b)),
                );
            }
            check_neighbours(rep, w, mid, &block, &model, "raw-store");
        }
        // random histories over all blocks (first/last block of the window included)
        for _ in 0..rounds {
            let i = match rng.below(8) {
                0 => 0,
                1 => NBLOCKS - 1,
                _ => rng.usize_below(NBLOCKS),
            };
            let s = *rng.pick(&legal);
            match rng.below(4) {
                0 => {
                    block(i).init(false);
                    model[i] = u8::from(BlockState::Unmarked);
                    check_block(rep, w, i, &block, &model, Some(BlockState::Unmarked), "init(false)");
                }
                1 => {
                    block(i).deinit();
                    model[i] = u8::from(BlockState::Unallocated);
                    check_block(rep, w, i, &block, &model, Some(BlockState::Unallocated), "deinit");
                }
                _ => {
                    block(i).set_state(s);
                    model[i] = u8::from(s);
                    check_block(rep, w, i, &block, &model, Some(s), "set_state");
                }
            }
        }
        // whole-table comparison at the end
        for i in 0..NBLOCKS {
            rep.evaluations += 1;
            if table_byte(block(i)) != model[i] {
                rep.violation(
                    "c34:blockstate:table-differs-from-model",
                    format!("window {:#x} block {}: table byte {} model {}", w, i, table_byte(block(i)), model[i]),
                );
            }
        }
        if rep.want_sample() {
            rep.sample(J::obj(vec![
                ("window", J::s(format!("{:#x}", w))),
                ("blocks", J::i(NBLOCKS as u64)),
                ("exhaustive_block", J::i(mid as u64)),
                ("final_bytes_head", J::Arr(model.iter().take(8).map(|b| J::i(*b as u64)).collect())),
            ]));
        }
        // line mark bytes: mark(v) then is_marked(w) <=> v == w
        let line0 = Line::from_aligned_address(start + (mid * Block::BYTES) + 3 * Line::BYTES);
        let line1 = Line::from_aligned_address(line0.start() + Line::BYTES);
        for v in 0..=255u8 {
            line0.mark(v);
            for q in [v, v.wrapping_add(1), v.wrapping_sub(1), 0, Line::RESET_MARK_STATE, Line::MAX_MARK_STATE] {
                rep.evaluations += 1;
                rep.count("line_mark_queries", 1);
                if line0.is_marked(q) != (q == v) {
                    rep.violation(
                        "c34:line:mark-is_marked",
                        format!("Line::mark({}) then is_marked({}) = {}", v, q, line0.is_marked(q)),
                    );
                }
            }
            // the next line is untouched (still 0)
            if !line1.is_marked(0) {
                rep.violation("c34:line:mark-touches-neighbour", format!("Line::mark({}) changed the next line's byte", v));
            }
        }
        line0.mark(0);
    }
}

fn check_neighbours(rep: &mut Report, w: usize, i: usize, block: &dyn Fn(usize) -> Block, model: &[u8], op: &str) {
    for j in [i.wrapping_sub(1), i + 1] {
        if j < model.len() && table_byte(block(j)) != model[j] {
            rep.violation(
                format!("c34:blockstate:{}-changes-neighbour", op),
                format!("window {:#x}: {} on block {} changed block {}'s byte to {} (was {})", w, op, i, j, table_byte(block(j)), model[j]),
            );
        }
    }
}

fn check_block(rep: &mut Report, w: usize, i: usize, block: &dyn Fn(usize) -> Block, model: &[u8], want: Option<BlockState>, op: &str) {
    let s = want.unwrap();
    rep.eval(mix(0xD34, mix(u8::from(s) as u64, (i == 0) as u64 | ((i + 1 == model.len()) as u64) << 1)));
    rep.count("table_round_trips", 1);
    let got = block(i).get_state();
    let raw = table_byte(block(i));
    if got != s {
        rep.violation(
            format!("c34:blockstate:table-round-trip:{}:{}", op, class_of_state(s)),
            format!("window {:#x} block {}: {} of {:?}, get_state() = {:?} (table byte {})", w, i, op, s, got, raw),
        );
    }
    if raw != u8::from(s) {
        rep.violation(
            format!("c34:blockstate:table-byte:{}:{}", op, class_of_state(s)),
            format!("window {:#x} block {}: {} of {:?} left byte {} in the table, u8::from gives {}", w, i, op, s, raw, u8::from(s)),
        );
    }
    check_neighbours(rep, w, i, block, model, op);
}

pub fn run(args: &Args, rep: &mut Report) {
    let mut rng = Rng::new(args.seed() ^ 0xC34);
    let prev = std::panic::take_hook();
    std::panic::set_hook(Box::new(|_| {}));
    let pure = catch_unwind(AssertUnwindSafe(|| {
        pure_checks(rep, &|s| u8::from(s), &|b| BlockState::from(b));
        selftest(rep);
    }));
    if pure.is_err() {
        rep.violation("c34:blockstate:panic", "a BlockState conversion panicked");
    }
    let init = catch_unwind(|| mmtk::verif::initialize_side_metadata::<SideVM>());
    if init.is_err() {
        rep.inconclusive("could not initialize side metadata: the mapped-table part was not run");
    } else {
        let rounds = if args.thorough() { 2_000_000 } else { 100_000 };
        let r = catch_unwind(AssertUnwindSafe(|| mapped_checks(rep, &mut rng, rounds)));
        if r.is_err() {
            rep.violation("c34:blockstate:panic", "Block::get_state/set_state/init/deinit or Line::mark panicked on mapped metadata");
        }
    }
    std::panic::set_hook(prev);
    rep.count("line_reset_mark_state", Line::RESET_MARK_STATE as u64);
    rep.count("line_max_mark_state", Line::MAX_MARK_STATE as u64);
    rep.note("part (ii) only: BlockState <-> u8 on all 256 bytes and all legal states (Unallocated, Unmarked, Marked, Reusable{1..Block::LINES-1}); Block::get_state/set_state/init/deinit on mapped IX_BLOCK_MARK bytes with neighbour checks; Line::mark/is_marked byte round trip");
    rep.note("Reusable{0}, Reusable{254}, Reusable{255} share their byte with Unallocated/Marked/Unmarked; Block::sweep never produces them (0 < marked lines < Block::LINES <= 128), so they are outside the legal domain and only counted");
    rep.note("ImmixSpace::prepare/release advance line_mark_state/line_unavail_state inline; there is no pure function to export, so the wrap arithmetic is left to part (i)");
}
