//! C38 (ii): the MemBalancer's heap limit stays within `[min, max]` pages.
//!
//! Drives the real `MemBalancerTrigger::compute_new_heap_limit` (through
//! `mmtk::verif::VerifMemBalancer`) with synthetic GC-statistics histories from the domain real
//! runs can produce: times in {0} ∪ [1 ns, 10^6 s], page counts <= 2^35 (including zeros),
//! live/extra/pending <= 2^35, `min <= max` (including `min == max`).
//!
//! Oracle (exactly the property): the initial value and the value after every `gc_end` lie in
//! `[min, max]` (also right after every pending-allocation notification); no panic.
use std::panic::{catch_unwind, AssertUnwindSafe};
use vcommon::{mix, Args, Report, Rng, J};

const MAX_PAGES: u64 = 1 << 35;

/// Boundary-heavy page count in `0..=2^35`.
fn pages(rng: &mut Rng) -> u64 {
    match rng.below(10) {
        0 => 0,
        1 => 1,
        2 => MAX_PAGES,
        3 => MAX_PAGES - rng.below(4),
        4 => 1u64 << rng.below(36),
        5 => rng.below(1024),
        6 => rng.below(1 << 20),
        _ => rng.below(MAX_PAGES + 1),
    }
}

/// Time in {0} ∪ [1e-9, 1e6] seconds, log-uniform with boundary values.
fn time(rng: &mut Rng) -> f64 {
    match rng.below(10) {
        0 | 1 => 0.0,
        2 => 1e-9,
        3 => 1e6,
        _ => {
            // log-uniform over 15 decades
            let e = rng.below(15_000_001) as f64 / 1_000_000.0 - 9.0;
            10f64.powf(e).clamp(1e-9, 1e6)
        }
    }
}

fn class_of_pages(p: u64) -> u64 {
    if p == 0 {
        0
    } else if p == MAX_PAGES {
        2
    } else if p < 1024 {
        1
    } else {
        3
    }
}

struct Step {
    pending: Vec<u64>,
    live: u64,
    extra: u64,
    ap: f64,
    at: f64,
    cp: f64,
    ct: f64,
}

fn fmt_hist(min: u64, max: u64, hist: &[Step]) -> String {
    let mut s = format!("new(min={},max={})", min, max);
    for st in hist {
        for p in &st.pending {
            s.push_str(&format!("; on_pending_allocation({})", p));
        }
        s.push_str(&format!(
            "; gc_end(live={},extra={},alloc_pages={:e},alloc_time={:e},gc_pages={:e},gc_time={:e})",
            st.live, st.extra, st.ap, st.at, st.cp, st.ct
        ));
    }
    s
}

fn bounds(rng: &mut Rng) -> (u64, u64, u64) {
    // returns (min, max, class)
    match rng.below(8) {
        0 => {
            let m = pages(rng);
            (m, m, 0) // min == max
        }
        1 => (0, MAX_PAGES, 1),
        2 => (0, 0, 2),
        3 => {
            let m = rng.below(MAX_PAGES);
            (m, m + 1, 3) // adjacent
        }
        _ => {
            let a = pages(rng);
            let b = pages(rng);
            (a.min(b), a.max(b), 4)
        }
    }
}

fn one_history(rng: &mut Rng, rep: &mut Report, steps: usize) {
    let (min, max, bclass) = bounds(rng);
    let mb = match catch_unwind(|| mmtk::verif::VerifMemBalancer::new(min as usize, max as usize)) {
        Ok(m) => m,
        Err(_) => {
            rep.violation("membalancer:panic:new", format!("new(min={},max={})", min, max));
            return;
        }
    };
    rep.count("histories", 1);
    let init = mb.current_heap_pages() as u64;
    rep.evaluations += 1;
    if init < min || init > max {
        rep.violation(
            "membalancer:initial-out-of-bounds",
            format!("new(min={},max={}) -> current={}", min, max, init),
        );
    }
    let mut hist: Vec<Step> = vec![];
    let mut prev_stats = [0.0f64; 4]; // previous raw (alloc pages, alloc time, gc pages, gc time)
    // how histories are shaped: "steady" repeats similar numbers, "wild" redraws everything
    let wild = rng.chance(1, 2);
    let mut base = (pages(rng), time(rng), pages(rng), time(rng));
    for _ in 0..steps {
        let mut st = Step {
            pending: vec![],
            live: pages(rng),
            extra: pages(rng),
            ap: 0.0,
            at: 0.0,
            cp: 0.0,
            ct: 0.0,
        };
        // pending notifications: total <= 2^35
        let npend = match rng.below(4) {
            0 => 0,
            1 => 1,
            _ => rng.below(4),
        };
        let mut total_pending = 0u64;
        for _ in 0..npend {
            let p = pages(rng).min(MAX_PAGES - total_pending);
            total_pending += p;
            st.pending.push(p);
            if catch_unwind(AssertUnwindSafe(|| mb.on_pending_allocation(p as usize))).is_err() {
                rep.violation("membalancer:panic:on_pending_allocation", fmt_hist(min, max, &hist));
            }
            rep.count("op_pending", 1);
            let after = mb.current_heap_pages();
            rep.evaluations += 1;
            if (after as u64) < min || (after as u64) > max {
                rep.violation(
                    "membalancer:out-of-bounds:after-pending",
                    format!("{} ; on_pending_allocation({}) -> current={}", fmt_hist(min, max, &hist), p, after),
                );
            }
        }
        if wild || rng.chance(1, 5) {
            base = (pages(rng), time(rng), pages(rng), time(rng));
        }
        st.ap = base.0 as f64;
        st.at = base.1;
        st.cp = base.2 as f64;
        st.ct = base.3;
        // In real runs collection_pages == live at GC end for non-generational plans.
        if rng.chance(1, 2) {
            st.cp = st.live as f64;
        }
        let (live, extra, ap, at, cp, ct) = (st.live, st.extra, st.ap, st.at, st.cp, st.ct);
        hist.push(st);
        let r = catch_unwind(AssertUnwindSafe(|| {
            mb.gc_end(live as usize, extra as usize, ap, at, cp, ct)
        }));
        rep.count("op_gc_end", 1);
        if r.is_err() {
            rep.violation("membalancer:panic:gc_end", fmt_hist(min, max, &hist));
            // the AtomicRefCell may be poisoned/borrowed now: stop this history
            return;
        }
        let cur = mb.current_heap_pages() as u64;
        // the smoothed value p*f + c*(1-f) is zero iff both the previous and the current raw value are
        let cur_stats = [ap, at, cp, ct];
        let formula = (0..4).all(|i| cur_stats[i] != 0.0 || prev_stats[i] != 0.0);
        prev_stats = cur_stats;
        let outcome = if cur == min && cur == max {
            0
        } else if cur == min {
            1
        } else if cur == max {
            2
        } else {
            3
        };
        rep.count(
            match outcome {
                0 => "result_min_eq_max",
                1 => "result_at_min",
                2 => "result_at_max",
                _ => "result_interior",
            },
            1,
        );
        rep.count(if formula { "branch_formula" } else { "branch_fallback" }, 1);
        let zero_mask = (ap == 0.0) as u64 | ((at == 0.0) as u64) << 1 | ((cp == 0.0) as u64) << 2 | ((ct == 0.0) as u64) << 3;
        let key = mix(
            mix(mix(bclass, outcome), zero_mask),
            mix(class_of_pages(live), mix((total_pending == 0) as u64, (extra == 0) as u64)),
        );
        rep.eval(key);
        if cur < min || cur > max {
            rep.violation(
                format!(
                    "membalancer:out-of-bounds:{}:{}",
                    if cur < min { "below-min" } else { "above-max" },
                    if formula { "formula" } else { "fallback" }
                ),
                format!("{} -> current={} not in [{},{}]", fmt_hist(min, max, &hist), cur, min, max),
            );
        }
        if rep.want_sample() && outcome == 3 && hist.len() >= 2 {
            rep.sample(J::obj(vec![
                ("min", J::i(min)),
                ("max", J::i(max)),
                ("live", J::i(live)),
                ("extra", J::i(extra)),
                ("alloc_pages", J::Float(ap)),
                ("alloc_time", J::Float(at)),
                ("gc_pages", J::Float(cp)),
                ("gc_time", J::Float(ct)),
                ("pending", J::i(total_pending)),
                ("current", J::i(cur)),
            ]));
        }
    }
}

/// Corner grid: every combination of boundary values for one and two steps.
fn grid(rep: &mut Report) {
    let ps = [0u64, 1, 4096, MAX_PAGES];
    let ts = [0.0f64, 1e-9, 1.0, 1e6];
    let bs = [(0u64, 0u64), (0, MAX_PAGES), (1000, 1000), (1000, 100_000), (MAX_PAGES, MAX_PAGES)];
    let mut n = 0u64;
    for &(min, max) in &bs {
        for &live in &ps {
            for &ap in &ps {
                for &at in &ts {
                    for &cp in &ps {
                        for &ct in &ts {
                            for &pend in &[0u64, MAX_PAGES] {
                                let mb = mmtk::verif::VerifMemBalancer::new(min as usize, max as usize);
                                let mut ok = true;
                                for round in 0..2 {
                                    mb.on_pending_allocation(pend as usize);
                                    let r = catch_unwind(AssertUnwindSafe(|| {
                                        mb.gc_end(live as usize, pend as usize, ap as f64, at, cp as f64, ct)
                                    }));
                                    n += 1;
                                    rep.evaluations += 1;
                                    let cur = mb.current_heap_pages() as u64;
                                    if r.is_err() {
                                        rep.violation(
                                            "membalancer:panic:gc_end",
                                            format!("grid min={} max={} live={} ap={} at={:e} cp={} ct={:e} pend={} round={}", min, max, live, ap, at, cp, ct, pend, round),
                                        );
                                        ok = false;
                                    } else if cur < min || cur > max {
                                        rep.violation(
                                            "membalancer:out-of-bounds:grid",
                                            format!("grid min={} max={} live={} extra={} ap={} at={:e} cp={} ct={:e} pend={} round={} -> {}", min, max, live, pend, ap, at, cp, ct, pend, round, cur),
                                        );
                                    }
                                    if !ok {
                                        break;
                                    }
                                }
                            }
                        }
                    }
                }
            }
        }
    }
    rep.count("grid_steps", n);
}

pub fn run(args: &Args, rep: &mut Report) {
    let mut rng = Rng::new(args.seed() ^ 0xC38);
    // keep the expected panics (if any) quiet: they are reported as violations
    let prev = std::panic::take_hook();
    std::panic::set_hook(Box::new(|_| {}));
    grid(rep);
    let (histories, steps) = if args.thorough() { (15_000_000, 24) } else { (300_000, 12) };
    for _ in 0..histories {
        let n = 1 + rng.usize_below(steps);
        one_history(&mut rng, rep, n);
    }
    std::panic::set_hook(prev);
    rep.note("part (ii) only: MemBalancerTrigger::compute_new_heap_limit through VerifMemBalancer; times in {0} U [1e-9,1e6] s, pages/live/extra/total pending <= 2^35");
    rep.note("release build has overflow-checks off: arithmetic overflow cannot panic here; the bound check on the stored value is the verdict");
}
