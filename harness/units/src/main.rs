//! Component monitors: one sub-command per property.  Each runs the real mmtk-core component
//! side by side with an executable reference model over generated histories and prints a
//! `VERIF-REPORT` line.
use vcommon::{Args, Report};

mod c23;
mod c32;
mod c33;
mod c39;
mod c40;
mod unitvm;

fn main() {
    let args = Args::parse();
    let which = args.positional.first().cloned().unwrap_or_default();
    let mut rep = Report::new(&which);
    match which.as_str() {
        "C23" => c23::run(&args, &mut rep),
        "C32" => c32::run(&args, &mut rep),
        "C33" => c33::run(&args, &mut rep),
        "C39" => c39::run(&args, &mut rep),
        "C40" => c40::run(&args, &mut rep),
        _ => {
            eprintln!("unknown unit monitor {:?}", which);
            std::process::exit(2);
        }
    }
    rep.print();
}
