//! Component monitors: one sub-command per property.  Each runs the real mmtk-core component
//! side by side with an executable reference model over generated histories and prints a
//! `VERIF-REPORT` line.
use vcommon::{Args, Report};

mod c17;
mod c18;
mod c19;
mod c20;
mod c21;
mod c22;
mod c23;
mod c24;
mod c25;
mod c26;
mod c27;
mod c29;
mod c30;
mod c32;
mod c33;
mod c34;
mod c35;
mod c36;
mod c37;
mod c38;
mod c39;
mod c40;
mod rawarena;
mod unitvm;
mod wdog;

fn main() {
    let args = Args::parse();
    let which = args.positional.first().cloned().unwrap_or_default();
    // `--as CNN`: a monitor that also decides part of another property reports under that id
    let label = args.get("as").map(|s| s.to_string()).unwrap_or_else(|| which.clone());
    let mut rep = Report::new(&label);
    // A panic that escapes a monitor (inside mmtk-core during a legal call, or an internal
    // consistency assertion of the monitor tripping over what mmtk returned) is reported as a
    // violation with the panic location as its signature, not as a harness failure.
    static LAST_PANIC: std::sync::Mutex<Option<(String, String)>> = std::sync::Mutex::new(None);
    let default_hook = std::panic::take_hook();
    std::panic::set_hook(Box::new(move |info| {
        let loc = info.location().map(|l| format!("{}:{}", l.file().rsplit("/src/").next().unwrap_or(l.file()), l.line())).unwrap_or_default();
        *LAST_PANIC.lock().unwrap_or_else(|e| e.into_inner()) = Some((loc, format!("{}", info)));
        default_hook(info);
    }));
    let outcome = std::panic::catch_unwind(std::panic::AssertUnwindSafe(|| dispatch(&which, &args, &mut rep)));
    if outcome.is_err() {
        let (loc, msg) = LAST_PANIC.lock().unwrap_or_else(|e| e.into_inner()).clone().unwrap_or_default();
        rep.violation(format!("panic-escaped-the-monitor:{}", loc), format!("the monitor run was aborted by a panic: {}", msg.chars().take(600).collect::<String>()));
    }
    rep.print();
}

fn dispatch(which: &str, args: &Args, rep: &mut Report) {
    let which = which.to_string();
    let mut rep = rep;
    let args = args;
    match which.as_str() {
        "C17" => c17::run(&args, &mut rep),
        "C18" => c18::run(&args, &mut rep),
        "C19" => c19::run(&args, &mut rep),
        "C20" => c20::run(&args, &mut rep),
        "C21" => c21::run(&args, &mut rep),
        "C22" => c22::run(&args, &mut rep),
        "C23" => c23::run(&args, &mut rep),
        "C24" => c24::run(&args, &mut rep),
        "C25" => c25::run(&args, &mut rep),
        "C26" => c26::run(&args, &mut rep),
        "C27" => c27::run(&args, &mut rep),
        "C29" => c29::run(&args, &mut rep),
        "C30" => c30::run(&args, &mut rep),
        "C32" => c32::run(&args, &mut rep),
        "C33" => c33::run(&args, &mut rep),
        "C34" => c34::run(&args, &mut rep),
        "C35" => c35::run(&args, &mut rep),
        "C36" => c36::run(&args, &mut rep),
        "C37" => c37::run(&args, &mut rep),
        "C38" => c38::run(&args, &mut rep),
        "C39" => c39::run(&args, &mut rep),
        "C40" => c40::run(&args, &mut rep),
        _ => {
            eprintln!("unknown unit monitor {:?}", which);
            std::process::exit(2);
        }
    }
}
