//! C17: concurrent forwarding copies an object once and all tracers agree.
//!
//! N real threads ("GC workers") are released by a barrier and trace the *same* objects, running
//! exactly the sequence of `CopySpace::trace_object` resp.
//! `ImmixSpace::trace_object_with_opportunistic_copy` through the re-exported
//! `object_forwarding` functions (`attempt_to_forward`, `spin_and_get_forwarded_object`,
//! `forward_object`, `clear_forwarding_bits`) plus the real `ImmixSpace::attempt_mark`.
//! `ObjectModel::copy` is implemented by the harness binding: it counts the calls per object,
//! hands out a fresh, recognisable to-space reference and widens the window between winning the
//! race and publishing the forwarding pointer (failpoint `FP_FORWARD_WINDOW` + spinning).
//!
//! Per object and round the oracle sees the multiset of `(thread, forwarding state observed by
//! attempt_to_forward, returned reference)`, the number of `copy` calls and the final metadata:
//!   * plan "forward" (CopySpace; Immix object that is neither marked nor pinned and the copy
//!     reserve is not exhausted): exactly one `copy`, exactly one tracer saw NOT_TRIGGERED_YET,
//!     every tracer returned the reference that this `copy` call produced, final state FORWARDED
//!     with that pointer;
//!   * plan "decline" (Immix: object already marked / pinned / copy reserve exhausted): no `copy`,
//!     every tracer returned the unmoved object, final forwarding bits 00 (mark bit set).
//! A returned reference that is neither the object nor the winner's reference is classified
//! (stale pre-forwarding content of the pointer word / pointer with state bits / other).
//!
//! Layouts (each a `VMBinding` type): forwarding bits inside the forwarding-pointer word (single
//! store; shift 0, shift 62, header word at a negative offset), separate in-header bits (two
//! stores; bits share a byte with mark/pin/log bits; also at a negative offset) and side bits
//! (objects 8 bytes apart, so four objects share a side byte).
//!
//! Self-test: the same driver + oracle run against locally re-implemented protocol steps that are
//! deliberately broken (`selftest_mutants_caught`).
use crate::wdog::{run_with_watchdog, Heartbeat};
use mmtk::util::copy::{CopySemantics, GCWorkerCopyContext};
use mmtk::util::{Address, ObjectReference};
use mmtk::verif as mv;
use mmtk::vm::{ObjectModel, VMBinding};
use std::cell::Cell;
use std::marker::PhantomData;
use std::panic::{catch_unwind, AssertUnwindSafe};
use std::sync::atomic::{AtomicPtr, AtomicU32, AtomicU64, AtomicUsize, Ordering};
use std::sync::{Arc, Barrier, Mutex};
use vcommon::{mix, Args, Report, Rng, J};

const SC: Ordering = Ordering::SeqCst;

// ---------------------------------------------------------------------------------------------
// The harness side of `ObjectModel::copy`
// ---------------------------------------------------------------------------------------------

struct CopyState {
    /// address of object 0
    lo: usize,
    stride: usize,
    copies: Vec<AtomicU32>,
    /// reference produced by the first / the latest `copy` call for the object
    first: Vec<AtomicUsize>,
    latest: Vec<AtomicUsize>,
    salt: AtomicU64,
    /// extra spinning inside `copy` (between winning and publishing)
    window_spin: AtomicU32,
}

static COPY_STATE: AtomicPtr<CopyState> = AtomicPtr::new(std::ptr::null_mut());

thread_local! {
    static TID: Cell<usize> = const { Cell::new(0) };
}

/// To-space references: bit 52 set, bits 53..63 clear, 8-aligned; never inside the from-arena.
fn new_addr(salt: u64, idx: usize, k: u32, tid: usize) -> usize {
    let h = mix(salt, ((idx as u64) << 16) | ((k as u64 & 0xff) << 8) | tid as u64);
    ((h as usize) & 0x0000_ffff_ffff_fff8) | (1usize << 52)
}

/// Pre-forwarding content of the forwarding-pointer word: bit 53 set, bit 52 clear.
fn junk_word(salt: u64, idx: usize) -> usize {
    let h = mix(salt ^ 0x6a75_6e6b, idx as u64);
    ((h as usize) & 0xff00_ffff_ffff_ffff & !(1usize << 52)) | (1usize << 53)
}

pub fn copy_hook(from: ObjectReference) -> ObjectReference {
    let st = unsafe { &*COPY_STATE.load(Ordering::Acquire) };
    let idx = (from.to_raw_address().as_usize() - st.lo) / st.stride;
    let k = st.copies[idx].fetch_add(1, SC);
    let new = new_addr(st.salt.load(Ordering::Relaxed), idx, k, TID.with(|t| t.get()));
    if k == 0 {
        st.first[idx].store(new, SC);
    }
    st.latest[idx].store(new, SC);
    // The caller has won the race and has not published yet: keep the losers spinning.
    mv::fp(mv::FP_FORWARD_WINDOW);
    for _ in 0..st.window_spin.load(Ordering::Relaxed) {
        std::hint::spin_loop();
    }
    unsafe { ObjectReference::from_raw_address_unchecked(Address::from_usize(new)) }
}

// ---------------------------------------------------------------------------------------------
// Bindings.  Same as `define_unit_vm!`, but with a working `copy`.
// ---------------------------------------------------------------------------------------------

macro_rules! fwd_vm {
    ($name:ident, log: $log:expr, fwd_ptr: $fp:expr, fwd_bits: $fb:expr, mark: $mark:expr,
     pin: $pin:expr, los: $los:expr) => {
        #[derive(Default)]
        pub struct $name;

        impl mmtk::vm::VMBinding for $name {
            type VMObjectModel = $name;
            type VMScanning = $name;
            type VMCollection = $name;
            type VMActivePlan = $name;
            type VMReferenceGlue = $name;
            type VMSlot = mmtk::vm::slot::SimpleSlot;
            type VMMemorySlice = mmtk::vm::slot::UnimplementedMemorySlice;
            const MAX_ALIGNMENT: usize = 1 << 6;
        }

        impl mmtk::vm::ObjectModel<$name> for $name {
            const GLOBAL_LOG_BIT_SPEC: mmtk::vm::VMGlobalLogBitSpec = $log;
            const LOCAL_FORWARDING_POINTER_SPEC: mmtk::vm::VMLocalForwardingPointerSpec = $fp;
            const LOCAL_FORWARDING_BITS_SPEC: mmtk::vm::VMLocalForwardingBitsSpec = $fb;
            const LOCAL_MARK_BIT_SPEC: mmtk::vm::VMLocalMarkBitSpec = $mark;
            const LOCAL_PINNING_BIT_SPEC: mmtk::vm::VMLocalPinningBitSpec = $pin;
            const LOCAL_LOS_MARK_NURSERY_SPEC: mmtk::vm::VMLocalLOSMarkNurserySpec = $los;
            const OBJECT_REF_OFFSET_LOWER_BOUND: isize = 0;

            fn copy(
                from: mmtk::util::ObjectReference,
                _semantics: mmtk::util::copy::CopySemantics,
                _copy_context: &mut mmtk::util::copy::GCWorkerCopyContext<$name>,
            ) -> mmtk::util::ObjectReference {
                $crate::c17::copy_hook(from)
            }
            fn copy_to(
                _from: mmtk::util::ObjectReference,
                _to: mmtk::util::ObjectReference,
                _region: mmtk::util::Address,
            ) -> mmtk::util::Address {
                unimplemented!()
            }
            fn get_current_size(_object: mmtk::util::ObjectReference) -> usize {
                8
            }
            fn get_size_when_copied(_object: mmtk::util::ObjectReference) -> usize {
                8
            }
            fn get_align_when_copied(_object: mmtk::util::ObjectReference) -> usize {
                8
            }
            fn get_align_offset_when_copied(_object: mmtk::util::ObjectReference) -> usize {
                0
            }
            fn get_reference_when_copied_to(
                _from: mmtk::util::ObjectReference,
                to: mmtk::util::Address,
            ) -> mmtk::util::ObjectReference {
                mmtk::util::ObjectReference::from_raw_address(to).unwrap()
            }
            fn get_type_descriptor(_reference: mmtk::util::ObjectReference) -> &'static [i8] {
                unimplemented!()
            }
            fn ref_to_object_start(object: mmtk::util::ObjectReference) -> mmtk::util::Address {
                object.to_raw_address()
            }
            fn ref_to_header(object: mmtk::util::ObjectReference) -> mmtk::util::Address {
                object.to_raw_address()
            }
            fn dump_object(_object: mmtk::util::ObjectReference) {}
        }

        impl mmtk::vm::Scanning<$name> for $name {
            fn scan_object<SV: mmtk::vm::SlotVisitor<mmtk::vm::slot::SimpleSlot>>(
                _tls: mmtk::util::VMWorkerThread,
                _object: mmtk::util::ObjectReference,
                _slot_visitor: &mut SV,
            ) {
                unimplemented!()
            }
            fn notify_initial_thread_scan_complete(_partial_scan: bool, _tls: mmtk::util::VMWorkerThread) {
                unimplemented!()
            }
            fn scan_roots_in_mutator_thread(
                _tls: mmtk::util::VMWorkerThread,
                _mutator: &'static mut mmtk::Mutator<$name>,
                _factory: impl mmtk::vm::RootsWorkFactory<mmtk::vm::slot::SimpleSlot>,
            ) {
                unimplemented!()
            }
            fn scan_vm_specific_roots(
                _tls: mmtk::util::VMWorkerThread,
                _factory: impl mmtk::vm::RootsWorkFactory<mmtk::vm::slot::SimpleSlot>,
            ) {
                unimplemented!()
            }
            fn supports_return_barrier() -> bool {
                false
            }
            fn prepare_for_roots_re_scanning() {
                unimplemented!()
            }
        }

        impl mmtk::vm::Collection<$name> for $name {
            fn stop_all_mutators<F>(_tls: mmtk::util::VMWorkerThread, _mutator_visitor: F)
            where
                F: FnMut(&'static mut mmtk::Mutator<$name>),
            {
                unimplemented!()
            }
            fn resume_mutators(_tls: mmtk::util::VMWorkerThread) {
                unimplemented!()
            }
            fn block_for_gc(_tls: mmtk::util::VMMutatorThread) {
                unimplemented!()
            }
            fn spawn_gc_thread(_tls: mmtk::util::VMThread, _ctx: mmtk::vm::GCThreadContext<$name>) {
                unimplemented!()
            }
        }

        impl mmtk::vm::ActivePlan<$name> for $name {
            fn number_of_mutators() -> usize {
                0
            }
            fn is_mutator(_tls: mmtk::util::VMThread) -> bool {
                false
            }
            fn mutator(_tls: mmtk::util::VMMutatorThread) -> &'static mut mmtk::Mutator<$name> {
                unimplemented!()
            }
            fn mutators<'a>() -> Box<dyn Iterator<Item = &'a mut mmtk::Mutator<$name>> + 'a> {
                Box::new(std::iter::empty())
            }
        }

        impl mmtk::vm::ReferenceGlue<$name> for $name {
            type FinalizableType = mmtk::util::ObjectReference;
            fn clear_referent(_new_reference: mmtk::util::ObjectReference) {
                unimplemented!()
            }
            fn get_referent(_object: mmtk::util::ObjectReference) -> Option<mmtk::util::ObjectReference> {
                unimplemented!()
            }
            fn set_referent(_reff: mmtk::util::ObjectReference, _referent: mmtk::util::ObjectReference) {
                unimplemented!()
            }
            fn enqueue_references(_references: &[mmtk::util::ObjectReference], _tls: mmtk::util::VMWorkerThread) {
                unimplemented!()
            }
        }
    };
}

use mmtk::vm::{
    VMGlobalLogBitSpec as LogS, VMLocalForwardingBitsSpec as FbS, VMLocalForwardingPointerSpec as FpS,
    VMLocalLOSMarkNurserySpec as LosS, VMLocalMarkBitSpec as MarkS, VMLocalPinningBitSpec as PinS,
};

// Forwarding bits are the two lowest bits of the forwarding-pointer word (word 0).
fwd_vm!(VmW0, log: LogS::in_header(66), fwd_ptr: FpS::in_header(0), fwd_bits: FbS::in_header(0),
        mark: MarkS::in_header(64), pin: PinS::in_header(65), los: LosS::in_header(68));
// Forwarding bits are the two highest bits of the forwarding-pointer word.
fwd_vm!(VmW62, log: LogS::in_header(66), fwd_ptr: FpS::in_header(0), fwd_bits: FbS::in_header(62),
        mark: MarkS::in_header(64), pin: PinS::in_header(65), los: LosS::in_header(68));
// The forwarding word (with the bits in its lowest byte) precedes the object reference.
fwd_vm!(VmWNeg, log: LogS::in_header(2), fwd_ptr: FpS::in_header(-64), fwd_bits: FbS::in_header(-64),
        mark: MarkS::in_header(0), pin: PinS::in_header(1), los: LosS::in_header(4));
// Separate bits: two stores.  The bits share byte 8 with the mark, pin and log bits.
fwd_vm!(VmSep, log: LogS::in_header(66), fwd_ptr: FpS::in_header(0), fwd_bits: FbS::in_header(70),
        mark: MarkS::in_header(64), pin: PinS::in_header(65), los: LosS::in_header(68));
// Separate bits in the byte before the object reference (bits 6,7), next to mark/pin/log.
fwd_vm!(VmSepNeg, log: LogS::in_header(-6), fwd_ptr: FpS::in_header(0), fwd_bits: FbS::in_header(-2),
        mark: MarkS::in_header(-8), pin: PinS::in_header(-7), los: LosS::in_header(-4));
// Side bits (and side mark / pin bits), forwarding pointer in the header.
fwd_vm!(VmSide, log: LogS::side_first(), fwd_ptr: FpS::in_header(0), fwd_bits: FbS::side_first(),
        mark: MarkS::side_after(<VmSide as ObjectModel<VmSide>>::LOCAL_FORWARDING_BITS_SPEC.as_spec()),
        pin: PinS::side_after(<VmSide as ObjectModel<VmSide>>::LOCAL_MARK_BIT_SPEC.as_spec()),
        los: LosS::side_after(<VmSide as ObjectModel<VmSide>>::LOCAL_PINNING_BIT_SPEC.as_spec()));

#[derive(Clone, Copy)]
#[allow(dead_code)]
struct Geo {
    name: &'static str,
    /// distance between objects
    stride: usize,
    /// offset of the object reference inside its slot
    obj_off: usize,
    /// the forwarding bits live inside the forwarding-pointer word
    inword: bool,
    side: bool,
}

const G_W0: Geo = Geo { name: "inword-shift0", stride: 32, obj_off: 8, inword: true, side: false };
const G_W62: Geo = Geo { name: "inword-shift62", stride: 32, obj_off: 8, inword: true, side: false };
const G_WNEG: Geo = Geo { name: "inword-negative-offset", stride: 32, obj_off: 8, inword: true, side: false };
const G_SEP: Geo = Geo { name: "separate-header-bits", stride: 32, obj_off: 8, inword: false, side: false };
const G_SEPNEG: Geo = Geo { name: "separate-header-bits-negative-offset", stride: 32, obj_off: 8, inword: false, side: false };
const G_SIDE: Geo = Geo { name: "side-bits", stride: 8, obj_off: 0, inword: false, side: true };

// ---------------------------------------------------------------------------------------------
// The protocol steps: real ones, and broken local re-implementations for the self-test
// ---------------------------------------------------------------------------------------------

const FORWARDING_POINTER_MASK: usize = 0x00ff_ffff_ffff_fff8;
const BEING_FORWARDED: u8 = 0b10;
const FORWARDED: u8 = 0b11;

fn raw(o: ObjectReference) -> usize {
    o.to_raw_address().as_usize()
}

trait Proto<VM: VMBinding>: Send + Sync + 'static {
    const NAME: &'static str;
    fn attempt(o: ObjectReference) -> u8 {
        mv::attempt_to_forward::<VM>(o)
    }
    fn spin_get(o: ObjectReference, st: u8) -> usize {
        raw(mv::spin_and_get_forwarded_object::<VM>(o, st))
    }
    fn forward(o: ObjectReference, ctx: &mut GCWorkerCopyContext<VM>) -> usize {
        raw(mv::forward_object::<VM>(o, CopySemantics::DefaultCopy, ctx, |_new| {}))
    }
    fn clear(o: ObjectReference) {
        mv::clear_forwarding_bits::<VM>(o)
    }
}

/// The unchanged mmtk-core functions.
struct Real;
impl<VM: VMBinding> Proto<VM> for Real {
    const NAME: &'static str = "real";
}

/// MUTANT: claims the object with load + store instead of compare-exchange.
struct MutLoadStore;
impl<VM: VMBinding> Proto<VM> for MutLoadStore {
    const NAME: &'static str = "attempt_to_forward:load+store";
    fn attempt(o: ObjectReference) -> u8 {
        let s = mv::get_forwarding_status::<VM>(o);
        if s == 0 {
            VM::VMObjectModel::LOCAL_FORWARDING_BITS_SPEC.store_atomic::<VM, u8>(o, BEING_FORWARDED, None, SC);
        }
        s
    }
}

/// MUTANT: publishes FORWARDED before the forwarding pointer is written.
struct MutPublishEarly;
impl<VM: VMBinding> Proto<VM> for MutPublishEarly {
    const NAME: &'static str = "forward_object:FORWARDED-before-pointer";
    fn forward(o: ObjectReference, ctx: &mut GCWorkerCopyContext<VM>) -> usize {
        let new = VM::VMObjectModel::copy(o, CopySemantics::DefaultCopy, ctx);
        VM::VMObjectModel::LOCAL_FORWARDING_BITS_SPEC.store_atomic::<VM, u8>(o, FORWARDED, None, SC);
        for _ in 0..200 {
            std::hint::spin_loop();
        }
        VM::VMObjectModel::LOCAL_FORWARDING_POINTER_SPEC.store_atomic::<VM, usize>(
            o,
            raw(new),
            Some(FORWARDING_POINTER_MASK),
            SC,
        );
        raw(new)
    }
}

/// MUTANT: a loser reads the forwarding pointer without waiting for FORWARDED.
struct MutNoWait;
impl<VM: VMBinding> Proto<VM> for MutNoWait {
    const NAME: &'static str = "spin_and_get:does-not-wait";
    fn spin_get(o: ObjectReference, st: u8) -> usize {
        if st != 0 {
            raw(mv::read_forwarding_pointer::<VM>(o))
        } else {
            raw(o)
        }
    }
}

/// MUTANT: a loser reads the forwarding word without masking the state bits.
struct MutNoMask;
impl<VM: VMBinding> Proto<VM> for MutNoMask {
    const NAME: &'static str = "read_forwarding_pointer:no-mask";
    fn spin_get(o: ObjectReference, st: u8) -> usize {
        let mut st = st;
        while st == BEING_FORWARDED {
            st = mv::get_forwarding_status::<VM>(o);
        }
        if st == FORWARDED {
            VM::VMObjectModel::LOCAL_FORWARDING_POINTER_SPEC.load_atomic::<VM, usize>(o, None, SC)
        } else {
            raw(o)
        }
    }
}

// ---------------------------------------------------------------------------------------------
// System under test behind a non-generic interface
// ---------------------------------------------------------------------------------------------

/// What a tracer does with an object it has won.
const PLAN_COPYSPACE: u8 = 0;
const PLAN_IMMIX_FORWARD: u8 = 1;
const PLAN_IMMIX_MARKED: u8 = 2;
const PLAN_IMMIX_PINNED: u8 = 3;
const PLAN_IMMIX_EXHAUSTED: u8 = 4;
const PLAN_NAMES: [&str; 5] = [
    "copyspace",
    "immix-forward",
    "immix-already-marked",
    "immix-pinned",
    "immix-copy-reserve-exhausted",
];

fn plan_forwards(p: u8) -> bool {
    p == PLAN_COPYSPACE || p == PLAN_IMMIX_FORWARD
}

struct Round {
    /// object references (raw)
    objs: Vec<usize>,
    plan: Vec<u8>,
    threads: usize,
    /// all tracers meet before every `gate_every`-th object (0 = only the start barrier)
    gate_every: usize,
    gate: Vec<AtomicU32>,
    /// per-thread delay after each gate, in spin iterations
    skew: Vec<u32>,
}

#[derive(Default)]
struct ThreadOut {
    st: Vec<u8>,
    ret: Vec<usize>,
    panicked: Option<String>,
}

trait Sut: Sync {
    fn geo(&self) -> Geo;
    fn proto(&self) -> &'static str;
    /// Quiescent: bring the object into its pre-GC state.
    fn reset(&self, o: usize, junk: usize, marked: bool, pinned: bool);
    fn run_thread(&self, tid: usize, r: &Round, out: &mut ThreadOut);
    /// Quiescent: (forwarding bits, forwarding pointer if the bits are not 00, mark bit).
    fn final_state(&self, o: usize) -> (u8, usize, u8);
    fn map_side(&self, start: usize, bytes: usize) -> bool;
}

struct SutImpl<VM: VMBinding, P: Proto<VM>> {
    geo: Geo,
    am: mv::AttemptMark<VM>,
    _p: PhantomData<P>,
}

fn objref(o: usize) -> ObjectReference {
    unsafe { ObjectReference::from_raw_address_unchecked(Address::from_usize(o)) }
}

impl<VM: VMBinding, P: Proto<VM>> SutImpl<VM, P> {
    fn new(geo: Geo) -> Self {
        SutImpl { geo, am: mv::AttemptMark::new(), _p: PhantomData }
    }

    /// `ImmixSpace::is_marked` with the (constant) Immix mark state 1.
    fn is_marked(o: ObjectReference) -> bool {
        VM::VMObjectModel::LOCAL_MARK_BIT_SPEC.load_atomic::<VM, u8>(o, None, SC) == 1
    }

    /// The body of `CopySpace::trace_object` (plan 0) resp.
    /// `ImmixSpace::trace_object_with_opportunistic_copy` (plans 1..) for one tracer.
    fn trace(&self, o: ObjectReference, plan: u8, ctx: &mut GCWorkerCopyContext<VM>) -> (u8, usize) {
        let st = P::attempt(o);
        if mv::state_is_forwarded_or_being_forwarded(st) {
            (st, P::spin_get(o, st))
        } else if plan == PLAN_COPYSPACE {
            (st, P::forward(o, ctx))
        } else if Self::is_marked(o) {
            P::clear(o);
            (st, raw(o))
        } else if VM::VMObjectModel::LOCAL_PINNING_BIT_SPEC.is_object_pinned::<VM>(o)
            || plan == PLAN_IMMIX_EXHAUSTED
        {
            self.am.attempt_mark(o, 1);
            P::clear(o);
            (st, raw(o))
        } else {
            (st, P::forward(o, ctx))
        }
    }
}

impl<VM: VMBinding, P: Proto<VM>> Sut for SutImpl<VM, P> {
    fn geo(&self) -> Geo {
        self.geo
    }
    fn proto(&self) -> &'static str {
        P::NAME
    }
    fn reset(&self, o: usize, junk: usize, marked: bool, pinned: bool) {
        let obj = objref(o);
        VM::VMObjectModel::LOCAL_FORWARDING_POINTER_SPEC.store_atomic::<VM, usize>(obj, junk, None, SC);
        mv::clear_forwarding_bits::<VM>(obj);
        VM::VMObjectModel::LOCAL_MARK_BIT_SPEC.store_atomic::<VM, u8>(obj, marked as u8, None, SC);
        VM::VMObjectModel::LOCAL_PINNING_BIT_SPEC.store_atomic::<VM, u8>(obj, pinned as u8, None, SC);
    }
    fn run_thread(&self, tid: usize, r: &Round, out: &mut ThreadOut) {
        TID.with(|t| t.set(tid));
        let n = r.objs.len();
        out.st.clear();
        out.st.resize(n, 0xff);
        out.ret.clear();
        out.ret.resize(n, 0);
        out.panicked = None;
        let res = catch_unwind(AssertUnwindSafe(|| {
            let mut ctx = GCWorkerCopyContext::<VM>::new_non_copy();
            for i in 0..n {
                if r.gate_every != 0 && i % r.gate_every == 0 {
                    let g = &r.gate[i / r.gate_every];
                    g.fetch_add(1, Ordering::AcqRel);
                    let mut spins = 0u32;
                    while (g.load(Ordering::Acquire) as usize) < r.threads && spins < 2_000_000 {
                        std::hint::spin_loop();
                        spins += 1;
                        if spins % 512 == 0 {
                            std::thread::yield_now();
                        }
                    }
                    for _ in 0..r.skew[tid] {
                        std::hint::spin_loop();
                    }
                }
                let (st, ret) = self.trace(objref(r.objs[i]), r.plan[i], &mut ctx);
                out.st[i] = st;
                out.ret[i] = ret;
            }
            std::mem::forget(ctx);
        }));
        if let Err(e) = res {
            out.panicked = Some(
                e.downcast_ref::<String>()
                    .cloned()
                    .or_else(|| e.downcast_ref::<&str>().map(|s| s.to_string()))
                    .unwrap_or_else(|| "panic".to_string()),
            );
        }
    }
    fn final_state(&self, o: usize) -> (u8, usize, u8) {
        let obj = objref(o);
        let bits = mv::get_forwarding_status::<VM>(obj);
        let ptr = if bits != 0 { raw(mv::read_forwarding_pointer::<VM>(obj)) } else { 0 };
        let mark = VM::VMObjectModel::LOCAL_MARK_BIT_SPEC.load_atomic::<VM, u8>(obj, None, SC);
        (bits, ptr, mark)
    }
    fn map_side(&self, start: usize, bytes: usize) -> bool {
        let mut specs = vec![];
        for m in [
            *VM::VMObjectModel::LOCAL_FORWARDING_BITS_SPEC,
            *VM::VMObjectModel::LOCAL_MARK_BIT_SPEC,
            *VM::VMObjectModel::LOCAL_PINNING_BIT_SPEC,
        ] {
            if let mmtk::util::metadata::MetadataSpec::OnSide(s) = m {
                specs.push(s);
            }
        }
        if specs.is_empty() {
            return true;
        }
        mv::map_side_metadata(&specs, unsafe { Address::from_usize(start) }, bytes)
    }
}

// ---------------------------------------------------------------------------------------------
// Driver
// ---------------------------------------------------------------------------------------------

struct Arena {
    p: usize,
    bytes: usize,
}

impl Arena {
    fn new(bytes: usize) -> Option<Arena> {
        let p = unsafe {
            libc::mmap(
                std::ptr::null_mut(),
                bytes,
                libc::PROT_READ | libc::PROT_WRITE,
                libc::MAP_PRIVATE | libc::MAP_ANONYMOUS,
                -1,
                0,
            )
        };
        if p == libc::MAP_FAILED {
            None
        } else {
            Some(Arena { p: p as usize, bytes })
        }
    }
}

impl Drop for Arena {
    fn drop(&mut self) {
        unsafe {
            libc::munmap(self.p as *mut libc::c_void, self.bytes);
        }
    }
}

struct Cfg {
    threads: usize,
    rounds: u64,
    objs_per_round: usize,
    /// stop as soon as a violation was recorded (self-test)
    stop_on_violation: bool,
    /// only forwarding plans / only these plans
    plans: &'static [u8],
}

#[derive(Default)]
struct Stats {
    objects: u64,
    contended2: u64,
    spinners2: u64,
    saw_forwarded: u64,
    decline_rewon: u64,
    by_plan: [u64; 5],
}

fn hs(s: &str) -> u64 {
    s.bytes().fold(0x17, |a, b| mix(a, b as u64))
}

fn hexs(v: &[usize]) -> String {
    let mut s = String::from("[");
    for (i, x) in v.iter().enumerate() {
        if i > 0 {
            s.push(',');
        }
        s.push_str(&format!("{:#x}", x));
    }
    s.push(']');
    s
}

/// Run `cfg.rounds` rounds of `cfg.threads` tracers over one arena.  Returns false if it could not run.
fn run_config(
    sut: &dyn Sut,
    cfg: &Cfg,
    seed: u64,
    rng: &mut Rng,
    rep: &mut Report,
    stats: &mut Stats,
    hb: &Heartbeat,
) -> bool {
    let geo = sut.geo();
    let n = cfg.objs_per_round;
    let bytes = (n * geo.stride + geo.obj_off + 4096 + 4095) & !4095;
    let Some(arena) = Arena::new(bytes) else {
        rep.inconclusive("could not map the from-space arena");
        return false;
    };
    if !sut.map_side(arena.p, bytes) {
        rep.inconclusive("could not map side metadata for the from-space arena");
        return false;
    }
    let lo = arena.p + geo.obj_off;
    let objs: Vec<usize> = (0..n).map(|i| lo + i * geo.stride).collect();
    let cs = Box::new(CopyState {
        lo,
        stride: geo.stride,
        copies: (0..n).map(|_| AtomicU32::new(0)).collect(),
        first: (0..n).map(|_| AtomicUsize::new(0)).collect(),
        latest: (0..n).map(|_| AtomicUsize::new(0)).collect(),
        salt: AtomicU64::new(0),
        window_spin: AtomicU32::new(0),
    });
    COPY_STATE.store(&*cs as *const CopyState as *mut CopyState, Ordering::Release);

    let t = cfg.threads;
    let start = Barrier::new(t + 1);
    let end = Barrier::new(t + 1);
    let cur: Mutex<Option<Arc<Round>>> = Mutex::new(None);
    let outs: Vec<Mutex<ThreadOut>> = (0..t).map(|_| Mutex::new(ThreadOut::default())).collect();
    let sig_base = format!("fwd:{}", geo.name);
    let ctx_s = format!("seed={} layout={} protocol={} threads={}", seed, geo.name, sut.proto(), t);

    std::thread::scope(|s| {
        for tid in 0..t {
            let (start, end, cur, outs) = (&start, &end, &cur, &outs);
            s.spawn(move || loop {
                start.wait();
                let r = cur.lock().unwrap().clone();
                let Some(r) = r else { break };
                {
                    let mut out = outs[tid].lock().unwrap();
                    sut.run_thread(tid, &r, &mut out);
                }
                drop(r);
                end.wait();
            });
        }

        let mut sampled = false;
        let flood = Cell::new(0u32);
        let v0 = rep.violation_count;
        for round in 0..cfg.rounds {
            if cfg.stop_on_violation && rep.violation_count > 0 {
                break;
            }
            if rep.violation_count - v0 > 2000 {
                rep.count("configs_cut_short_after_2000_violations", 1);
                break;
            }
            hb.tick();
            // ---- plan the round ----
            let salt = rng.next();
            cs.salt.store(salt, SC);
            cs.window_spin.store(
                match rng.below(4) {
                    0 => 0,
                    1 => 50,
                    2 => 300,
                    _ => rng.below(1500) as u32,
                },
                SC,
            );
            let fp_on = rng.chance(1, 2);
            mv::arm_failpoint(mv::FP_FORWARD_WINDOW, if fp_on { 30 + rng.below(120) as u32 } else { 0 });
            mv::arm_failpoint(mv::FP_FORWARD_LOSER, if fp_on { rng.below(100) as u32 } else { 0 });
            let gate_every = match rng.below(8) {
                0 => 0,
                1 => 16,
                2 => 4,
                _ => 1,
            };
            let mut plan = vec![0u8; n];
            let mut junk = vec![0usize; n];
            for i in 0..n {
                let p = *rng.pick(cfg.plans);
                plan[i] = p;
                junk[i] = junk_word(salt, i);
                cs.copies[i].store(0, SC);
                cs.first[i].store(0, SC);
                cs.latest[i].store(0, SC);
                sut.reset(objs[i], junk[i], p == PLAN_IMMIX_MARKED, p == PLAN_IMMIX_PINNED);
            }
            let gates = if gate_every == 0 { 0 } else { n.div_ceil(gate_every) };
            let r = Arc::new(Round {
                objs: objs.clone(),
                plan: plan.clone(),
                threads: t,
                gate_every,
                gate: (0..gates).map(|_| AtomicU32::new(0)).collect(),
                skew: (0..t).map(|_| if rng.chance(1, 2) { 0 } else { rng.below(120) as u32 }).collect(),
            });
            *cur.lock().unwrap() = Some(r.clone());
            start.wait();
            end.wait();
            *cur.lock().unwrap() = None;

            // ---- quiescent: the oracle ----
            let outs_l: Vec<_> = outs.iter().map(|o| o.lock().unwrap()).collect();
            let fail = |rep: &mut Report, what: &str, plan: u8, detail: String| {
                rep.violation(
                    format!("{}:{}:{}", sig_base, PLAN_NAMES[plan as usize], what),
                    format!("{} round={} {}", ctx_s, round, detail),
                );
            };
            for (tid, o) in outs_l.iter().enumerate() {
                if let Some(p) = &o.panicked {
                    fail(rep, "tracer-panicked", 0, format!("tracer {} panicked: {}", tid, p));
                }
            }
            if outs_l.iter().any(|o| o.panicked.is_some()) {
                break;
            }
            for i in 0..n {
                let p = plan[i];
                let o = objs[i];
                let sts: Vec<u8> = outs_l.iter().map(|x| x.st[i]).collect();
                let rets: Vec<usize> = outs_l.iter().map(|x| x.ret[i]).collect();
                let copies = cs.copies[i].load(SC);
                let first = cs.first[i].load(SC);
                let (bits, ptr, mark) = sut.final_state(o);
                let winners = sts.iter().filter(|&&s| s == 0).count();
                let spinners = sts.iter().filter(|&&s| s == BEING_FORWARDED).count();
                let history = || {
                    if flood.get() > 60 {
                        return String::from("(detail omitted: many violations already reported)");
                    }
                    flood.set(flood.get() + 1);
                    format!(
                        "object#{} ({:#x}) pre-forwarding pointer word {:#x}; per tracer: forwarding bits seen by attempt_to_forward={:?} returned={}; copy calls={} first copy returned {:#x} latest {:#x}; final bits={:#b} pointer={:#x} mark={}",
                        i, o, junk[i], sts, hexs(&rets), copies, first, cs.latest[i].load(SC), bits, ptr, mark
                    )
                };
                stats.objects += 1;
                stats.by_plan[p as usize] += 1;
                if spinners >= 1 {
                    stats.contended2 += 1;
                }
                if spinners >= 2 {
                    stats.spinners2 += 1;
                }
                if sts.iter().any(|&s| s == FORWARDED) {
                    stats.saw_forwarded += 1;
                }
                if sts.iter().any(|&s| s != 0 && s != BEING_FORWARDED && s != FORWARDED) {
                    fail(rep, "invalid-forwarding-state", p, history());
                }
                if plan_forwards(p) {
                    if copies != 1 {
                        fail(rep, if copies == 0 { "never-copied" } else { "copied-more-than-once" }, p, history());
                    }
                    if winners != 1 {
                        fail(rep, "winners-not-1", p, format!("{} tracers saw NOT_TRIGGERED_YET; {}", winners, history()));
                    }
                    let mut distinct = rets.clone();
                    distinct.sort_unstable();
                    distinct.dedup();
                    if distinct.len() > 1 {
                        fail(rep, "tracers-disagree", p, history());
                    }
                    for &r in &rets {
                        if r == first && copies >= 1 {
                            continue;
                        }
                        let what = if r == o {
                            "returned-unmoved-object-although-forwarded"
                        } else if r == (junk[i] & FORWARDING_POINTER_MASK) || r == junk[i] {
                            "returned-stale-pointer-word"
                        } else if r & 7 != 0 && (r & !7) == first {
                            "returned-pointer-with-state-bits"
                        } else if copies > 1 {
                            "returned-reference-of-a-second-copy"
                        } else {
                            "returned-pointer-never-written-by-winner"
                        };
                        fail(rep, what, p, history());
                        break;
                    }
                    if bits != FORWARDED || (copies == 1 && ptr != first) {
                        fail(rep, "final-state-not-forwarded-to-winner-copy", p, history());
                    }
                } else {
                    if winners > 1 {
                        stats.decline_rewon += 1;
                    }
                    if copies != 0 {
                        fail(rep, "copied-although-declined", p, history());
                    }
                    if winners == 0 {
                        fail(rep, "winners-0", p, history());
                    }
                    if rets.iter().any(|&r| r != o) {
                        fail(rep, "returned-other-than-unmoved-object", p, history());
                    }
                    if bits != 0 {
                        fail(rep, "final-forwarding-bits-not-cleared", p, history());
                    }
                    if mark != 1 {
                        fail(rep, "final-not-marked", p, history());
                    }
                }
                // evaluation classes: layout x plan x threads x (contention class)
                let class = if spinners >= 2 { 2 } else if spinners == 1 { 1 } else { 0 };
                if spinners >= 1 || winners > 1 {
                    rep.eval(mix(mix(hs(geo.name), p as u64), mix(t as u64, mix(class, gate_every as u64))));
                } else {
                    rep.evaluations += 1;
                }
                if rep.want_sample() && !sampled && spinners >= 2 && round > 0 && (i % 97 == 3) && !cfg.stop_on_violation && t >= 3 {
                    sampled = true;
                    rep.sample(J::obj(vec![
                        ("layout", J::s(geo.name)),
                        ("plan", J::s(PLAN_NAMES[p as usize])),
                        ("threads", J::i(t as u64)),
                        ("states_seen", J::s(format!("{:?}", sts))),
                        ("returned", J::s(hexs(&rets))),
                        ("copy_calls", J::i(copies as u64)),
                        ("winner_copy", J::s(format!("{:#x}", first))),
                    ]));
                }
            }
        }
        *cur.lock().unwrap() = None;
        start.wait();
    });
    mv::arm_failpoint(mv::FP_FORWARD_WINDOW, 0);
    mv::arm_failpoint(mv::FP_FORWARD_LOSER, 0);
    COPY_STATE.store(std::ptr::null_mut(), Ordering::Release);
    drop(cs);
    true
}

const FORWARD_PLANS: &[u8] = &[PLAN_COPYSPACE, PLAN_IMMIX_FORWARD];
const ALL_PLANS: &[u8] = &[
    PLAN_COPYSPACE,
    PLAN_COPYSPACE,
    PLAN_IMMIX_FORWARD,
    PLAN_IMMIX_FORWARD,
    PLAN_IMMIX_MARKED,
    PLAN_IMMIX_PINNED,
    PLAN_IMMIX_EXHAUSTED,
];

fn real_suts() -> Vec<Box<dyn Sut>> {
    vec![
        Box::new(SutImpl::<VmW0, Real>::new(G_W0)),
        Box::new(SutImpl::<VmSep, Real>::new(G_SEP)),
        Box::new(SutImpl::<VmSide, Real>::new(G_SIDE)),
        Box::new(SutImpl::<VmW62, Real>::new(G_W62)),
        Box::new(SutImpl::<VmSepNeg, Real>::new(G_SEPNEG)),
        Box::new(SutImpl::<VmWNeg, Real>::new(G_WNEG)),
    ]
}

fn selftest(seed: u64, rng: &mut Rng, rep: &mut Report, threads: usize, hb: &Heartbeat) {
    let muts: Vec<Box<dyn Sut>> = vec![
        Box::new(SutImpl::<VmW0, MutLoadStore>::new(G_W0)),
        Box::new(SutImpl::<VmSep, MutLoadStore>::new(G_SEP)),
        Box::new(SutImpl::<VmSide, MutLoadStore>::new(G_SIDE)),
        Box::new(SutImpl::<VmW0, MutPublishEarly>::new(G_W0)),
        Box::new(SutImpl::<VmSep, MutPublishEarly>::new(G_SEP)),
        Box::new(SutImpl::<VmSide, MutPublishEarly>::new(G_SIDE)),
        Box::new(SutImpl::<VmW0, MutNoWait>::new(G_W0)),
        Box::new(SutImpl::<VmSepNeg, MutNoWait>::new(G_SEPNEG)),
        Box::new(SutImpl::<VmW0, MutNoMask>::new(G_W0)),
        Box::new(SutImpl::<VmW62, MutNoMask>::new(G_W62)),
    ];
    let mut caught = 0u64;
    let mut sigs: Vec<String> = vec![];
    for m in &muts {
        let mut scratch = Report::new("selftest");
        let mut st = Stats::default();
        let cfg = Cfg { threads, rounds: 400, objs_per_round: 512, stop_on_violation: true, plans: FORWARD_PLANS };
        if !run_config(&**m, &cfg, seed, rng, &mut scratch, &mut st, hb) {
            rep.inconclusive("self-test could not run");
            return;
        }
        if scratch.violation_count > 0 {
            caught += 1;
            sigs.push(format!("{}@{} -> {}", m.proto(), m.geo().name, scratch.violations[0].0));
        } else {
            rep.inconclusive(format!(
                "oracle self-test: mutant '{}' on layout {} was NOT flagged in {} contended objects",
                m.proto(),
                m.geo().name,
                st.objects
            ));
        }
    }
    rep.count("selftest_mutants_total", muts.len() as u64);
    rep.count("selftest_mutants_caught", caught);
    rep.note(format!("self-test (same driver and oracle, broken protocol step): {}", sigs.join("; ")));
}

pub fn run(args: &Args, rep: &mut Report) {
    let seed = args.seed();
    let mut rng = Rng::new(seed ^ 0xC17);
    let thorough = args.thorough();
    let ncpu = std::thread::available_parallelism().map(|n| n.get()).unwrap_or(2);
    let maxt = if thorough { ncpu.min(16) } else { ncpu.min(8) }.max(2);
    let case = args.str_or("case", "all");

    if catch_unwind(|| mv::initialize_side_metadata::<VmSide>()).is_err() {
        rep.inconclusive("initialize_side_metadata panicked (could not reserve the side metadata range)");
        return;
    }
    mv::seed_failpoints(seed ^ 0xC17);

    run_with_watchdog(rep, |rep, hb| {
        if case == "all" || case == "selftest" {
            hb.enter("fwd:selftest", || "self-test mutants".to_string());
            selftest(seed, &mut rng, rep, maxt.min(4), hb);
            hb.leave();
        }
        if case == "selftest" {
            return;
        }
        // thread counts per layout (at most `maxt`)
        let tcs: Vec<usize> = if thorough {
            vec![2, 3, 4, 6, 8, 12, 16]
        } else {
            vec![2, 3, 4, 8]
        };
        let only_layout = args.get("layout").map(|s| s.to_string());
        let rounds: u64 = args.u64_or("rounds", if thorough { 90 } else { 30 });
        let n = 1024;
        let mut stats = Stats::default();
        let suts = real_suts();
        for sut in suts.iter() {
            if let Some(l) = &only_layout {
                if sut.geo().name != l {
                    continue;
                }
            }
            for &t in tcs.iter() {
                let t = t.min(maxt);
                // many spinning threads are expensive on a loaded host: fewer rounds for >= 12 threads
                let rounds = if t >= 12 { rounds / 2 } else { rounds };
                let cfg = Cfg { threads: t, rounds, objs_per_round: n, stop_on_violation: false, plans: ALL_PLANS };
                let sig = format!("fwd:{}:tracer", sut.geo().name);
                hb.enter(&sig, || {
                    format!("seed={} layout={} threads={}: a tracer does not return (spinning in spin_and_get_forwarded_object / attempt_to_forward)", seed, sut.geo().name, t)
                });
                let before = (stats.objects, stats.spinners2);
                run_config(&**sut, &cfg, seed, &mut rng, rep, &mut stats, hb);
                hb.leave();
                rep.count(&format!("objects_2plus_spinners:{}", sut.geo().name), stats.spinners2 - before.1);
                rep.count(&format!("objects:threads={}", t), stats.objects - before.0);
            }
        }
        rep.count("objects_traced", stats.objects);
        rep.count("objects_with_a_spinning_contender", stats.contended2);
        rep.count("objects_with_2plus_spinning_contenders", stats.spinners2);
        rep.count("objects_where_a_tracer_saw_FORWARDED", stats.saw_forwarded);
        rep.count("declined_objects_won_again_after_clear", stats.decline_rewon);
        for p in 0..5 {
            rep.count(&format!("plan:{}", PLAN_NAMES[p]), stats.by_plan[p]);
        }
        rep.count("failpoint_forward_window_hits", mv::failpoint_hits(mv::FP_FORWARD_WINDOW));
        rep.count("failpoint_forward_loser_hits", mv::failpoint_hits(mv::FP_FORWARD_LOSER));
    });
    rep.note("the harness runs the trace_object bodies of CopySpace / ImmixSpace itself (attempt_to_forward -> spin_and_get_forwarded_object | forward_object | attempt_mark + clear_forwarding_bits); CopySpace::trace_object and ImmixSpace::trace_object_with_opportunistic_copy need a space and a GCWorker and are covered end-to-end by gcsim");
    rep.note("ObjectModel::copy is the harness' own (counts calls, returns a unique reference with bit 52 set); to-space memory is never touched");
    rep.note("a tracer that never returns is reported by the CPU-time watchdog as fwd:<layout>:tracer:does-not-return");
}
