//! C29: discontiguous chunk allocation keeps the `Map32` region map consistent.
//!
//! A private `Map32` (non-contiguous "compressed pointer" layout on this 64-bit host) is driven
//! through the `VMMap` trait with the call protocol of `CommonPageResource`
//! (`grow_discontiguous_space` / `release_discontiguous_chunks` / `release_all_chunks`):
//! `create_freelist` per space, `insert` for contiguous neighbours, `finalize_static_space_map`,
//! then histories of `allocate_contiguous_chunks(desc, n, head)`, `free_contiguous_chunks(region)`
//! (list heads, middles, tails, only elements) and `free_all_chunks(head)`, single-threaded.
//!
//! Model: `{chunk -> owner}` plus, per space, the ordered region list (new regions are linked at
//! the head).  After every operation: the new region is chunk-aligned, inside the discontiguous
//! range and disjoint from all allocated regions; the descriptor of every chunk of the whole heap
//! range (and around it) is the owner's while allocated and `UNINITIALIZED` otherwise;
//! the `get_next_contiguous_region` chain from each space's head equals the model list;
//! `get_contiguous_region_chunks/size` of every allocated region; available-chunk count ==
//! total - allocated.
//!
//! `free_contiguous_chunks_no_lock` calls `SFT_MAP.clear()`, and the global `SFT_MAP` is only
//! initialised by `MMTK::new`, so a (NoGC) MMTK instance is built first.
use crate::unitvm::HeaderVM;
use crate::wdog::{run_with_watchdog, Heartbeat};
use mmtk::util::heap::vm_layout::VMLayout;
use mmtk::util::Address;
use mmtk::verif::{FreeList, Map32, SpaceDescriptor, VMMap};
use std::panic::{catch_unwind, AssertUnwindSafe};
use vcommon::{mix, Args, Report, Rng, J};

const LOG_CHUNK: usize = 22;
const CHUNK: usize = 1 << LOG_CHUNK;
const HEAP_START: usize = 0x4000_0000;
const HEAP_END: usize = 0x1_0000_0000;

fn addr(x: usize) -> Address {
    unsafe { Address::from_usize(x) }
}
fn chunk_addr(c: usize) -> Address {
    addr(c << LOG_CHUNK)
}

struct Space {
    desc: SpaceDescriptor,
    /// what `CommonPageResource::head_discontiguous_region` would hold
    head: Address,
    /// model: regions (start chunk, chunks), newest first
    regions: Vec<(usize, usize)>,
    freelist: Box<dyn FreeList>,
}

struct Model {
    first: usize, // first discontiguous chunk index
    last: usize,  // last discontiguous chunk index (inclusive)
    /// owner per chunk index - lo_idx: None free, Some(space index); usize::MAX-k = contiguous neighbour k
    owner: Vec<Option<usize>>,
    lo_idx: usize,
    contiguous: Vec<(usize, usize, SpaceDescriptor)>, // (first chunk, last chunk excl, desc)
    allocated: usize,
}

impl Model {
    fn total(&self) -> usize {
        self.last + 1 - self.first
    }
    fn free_run_exists(&self, n: usize) -> bool {
        let mut run = 0;
        for c in self.first..=self.last {
            if self.owner[c - self.lo_idx].is_none() {
                run += 1;
                if run >= n {
                    return true;
                }
            } else {
                run = 0;
            }
        }
        false
    }
}

fn fmt_ops(log: &[String]) -> String {
    let skip = log.len().saturating_sub(30);
    let mut s = String::new();
    if skip > 0 {
        s.push_str(&format!("[{} earlier ops omitted] ", skip));
    }
    s.push_str(&log[skip..].join("; "));
    s
}

/// Full consistency check of the map against the model.  Returns false if a violation was found.
fn check_all(map: &Map32, m: &Model, spaces: &[Space], rng: &mut Rng, rep: &mut Report, opname: &str, log: &[String]) -> bool {
    let mut ok = true;
    // descriptors of every chunk in and around the heap range
    let lo = HEAP_START / CHUNK - 2;
    let hi = HEAP_END / CHUNK + 2;
    for c in lo..hi {
        let probe = chunk_addr(c) + rng.usize_below(CHUNK);
        let got = map.get_descriptor_for_address(probe);
        let mut want = SpaceDescriptor::UNINITIALIZED;
        let mut what = "free-or-outside";
        if c >= m.first && c <= m.last {
            if let Some(o) = m.owner[c - m.lo_idx] {
                want = spaces[o].desc;
                what = "allocated";
            }
        } else if let Some(k) = m.contiguous.iter().find(|k| c >= k.0 && c < k.1) {
            want = k.2;
            what = "contiguous-neighbour";
        }
        if got != want {
            if ok {
                rep.violation(
                    format!("map32:{}:descriptor-mismatch:{}", opname, what),
                    format!(
                        "chunk index {} ({}): descriptor {:?}, expected {:?} ({}); discontiguous chunks {}..={}; ops: {}",
                        c,
                        chunk_addr(c),
                        got,
                        want,
                        what,
                        m.first,
                        m.last,
                        fmt_ops(log)
                    ),
                );
            }
            ok = false;
        }
    }
    // region lists
    for (si, sp) in spaces.iter().enumerate() {
        let mut chain = vec![];
        let mut a = sp.head;
        let mut guard = 0;
        while !a.is_zero() && guard < 100_000 {
            chain.push(a.as_usize() >> LOG_CHUNK);
            a = map.get_next_contiguous_region(a);
            guard += 1;
        }
        let want: Vec<usize> = sp.regions.iter().map(|r| r.0).collect();
        if chain != want {
            rep.violation(
                format!("map32:{}:region-list-mismatch", opname),
                format!(
                    "space {}: chain from head {} = {:?}{}, model list (newest first) = {:?}; ops: {}",
                    si,
                    sp.head,
                    &chain[..chain.len().min(64)],
                    if guard >= 100_000 { " (cycle)" } else { "" },
                    want,
                    fmt_ops(log)
                ),
            );
            ok = false;
        }
        for &(start, n) in &sp.regions {
            let gc = map.get_contiguous_region_chunks(chunk_addr(start));
            let gs = map.get_contiguous_region_size(chunk_addr(start));
            if gc != n || gs != n << LOG_CHUNK {
                rep.violation(
                    format!("map32:{}:region-size-mismatch", opname),
                    format!(
                        "space {} region at chunk {}: get_contiguous_region_chunks={} size={:#x}, expected {} chunks; ops: {}",
                        si,
                        start,
                        gc,
                        gs,
                        n,
                        fmt_ops(log)
                    ),
                );
                ok = false;
            }
        }
    }
    let avail = map.get_available_discontiguous_chunks();
    if avail != m.total() - m.allocated {
        rep.violation(
            format!("map32:{}:available-chunks-mismatch", opname),
            format!(
                "get_available_discontiguous_chunks()={} expected {} - {} = {}; ops: {}",
                avail,
                m.total(),
                m.allocated,
                m.total() - m.allocated,
                fmt_ops(log)
            ),
        );
        ok = false;
    }
    ok
}

fn one_history(rng: &mut Rng, rep: &mut Report, hb: &Heartbeat, n_ops: usize) {
    rep.count("histories", 1);
    let map: Box<Map32> = Box::new(Map32::new());
    let style = rng.below(4); // 0 balanced, 1 grow-heavy (exhaustion), 2 churn, 3 few spaces with long lists of small regions
    let n_spaces = if style == 3 { 1 + rng.usize_below(2) } else { 2 + rng.usize_below(4) };
    // contiguous neighbours below/above the discontiguous range (as contiguous spaces would be)
    let below = *rng.pick(&[0usize, 0, 1, 5, 64]);
    let above = *rng.pick(&[0usize, 0, 1, 7, 32]);
    let first = HEAP_START / CHUNK + below;
    let last = HEAP_END / CHUNK - above - 1;
    let lo_idx = HEAP_START / CHUNK;
    let mut m = Model {
        first,
        last,
        owner: vec![None; HEAP_END / CHUNK - lo_idx],
        lo_idx,
        contiguous: vec![],
        allocated: 0,
    };
    let mut log: Vec<String> = vec![format!("layout: discontiguous chunks {}..={} ({} spaces)", first, last, n_spaces)];
    // boot: free lists for discontiguous spaces, inserts of contiguous ones, finalize
    let mut spaces: Vec<Space> = vec![];
    for _ in 0..n_spaces {
        let r = map.create_freelist(addr(HEAP_START));
        spaces.push(Space {
            desc: SpaceDescriptor::create_descriptor(),
            head: Address::ZERO,
            regions: vec![],
            freelist: r.free_list,
        });
    }
    rep.evaluations += 1;
    if map.get_chunk_consumer_count() != n_spaces {
        rep.violation(
            "map32:boot:chunk-consumer-count",
            format!("{} after {} create_freelist calls", map.get_chunk_consumer_count(), n_spaces),
        );
    }
    if below > 0 {
        let (s, e) = (addr(HEAP_START), chunk_addr(first));
        let d = SpaceDescriptor::create_descriptor_from_heap_range(s, e);
        map.insert(s, e - s, d);
        m.contiguous.push((HEAP_START / CHUNK, first, d));
    }
    if above > 0 {
        let (s, e) = (chunk_addr(last + 1), addr(HEAP_END));
        let d = SpaceDescriptor::create_descriptor_from_heap_range(s, e);
        map.insert(s, e - s, d);
        m.contiguous.push((last + 1, HEAP_END / CHUNK, d));
    }
    let mut cb_calls = vec![];
    // HeapMeta::get_discontig_end() is `heap_limit - 1`
    map.finalize_static_space_map(chunk_addr(first), chunk_addr(last + 1) - 1usize, &mut |a| cb_calls.push(a));
    rep.evaluations += 1;
    if cb_calls != vec![chunk_addr(first)] || !map.is_finalized() {
        rep.violation(
            "map32:boot:finalize-callback",
            format!("callback calls {:?}, is_finalized={}", cb_calls, map.is_finalized()),
        );
    }
    if !check_all(&map, &m, &spaces, rng, rep, "finalize", &log) {
        return;
    }

    for _ in 0..n_ops {
        let si = rng.usize_below(n_spaces);
        let roll = rng.below(100);
        let alloc_pct = match style {
            0 => 50,
            1 => 75,
            3 => 65,
            _ => 45,
        };
        let have_regions = !spaces[si].regions.is_empty();
        if roll < alloc_pct || (!have_regions && roll < 97) {
            // ---- allocate ------------------------------------------------------------------
            let n = match if style == 3 { rng.below(10) } else { rng.below(20) } {
                0..=7 => 1,
                8..=13 => 2 + rng.usize_below(4),
                14..=17 => 6 + rng.usize_below(27),
                18 => 33 + rng.usize_below(200),
                _ => {
                    // about as much as is left (may or may not fit)
                    let left = m.total() - m.allocated;
                    (left + rng.usize_below(3)).saturating_sub(rng.usize_below(3)).max(1)
                }
            };
            let head = spaces[si].head;
            let desc = spaces[si].desc;
            let with_fl = rng.chance(1, 2);
            log.push(format!("alloc(space {}, {} chunks, head={})", si, n, head));
            hb.enter("map32:alloc", || fmt_ops(&log));
            let r = {
                let sp = &mut spaces[si];
                let fl: Option<&mut dyn FreeList> = if with_fl { Some(sp.freelist.as_mut()) } else { None };
                catch_unwind(AssertUnwindSafe(|| unsafe { map.allocate_contiguous_chunks(desc, n, head, fl) }))
            };
            hb.leave();
            rep.count("op_alloc", 1);
            let rtn = match r {
                Ok(a) => a,
                Err(_) => {
                    rep.violation("map32:alloc:panic", format!("ops: {}", fmt_ops(&log)));
                    return;
                }
            };
            if rtn.is_zero() {
                rep.count("op_alloc_failed", 1);
                if m.free_run_exists(n) {
                    // not demanded by the property statement: count only
                    rep.count("alloc_failed_although_a_free_run_exists", 1);
                }
                rep.eval(mix(0xA110C0, mix((n > m.total() - m.allocated) as u64, have_regions as u64)));
                log.last_mut().unwrap().push_str(" -> 0");
            } else {
                let c = rtn.as_usize() >> LOG_CHUNK;
                log.last_mut().unwrap().push_str(&format!(" -> chunk {}", c));
                let mut bad = None;
                if rtn.as_usize() % CHUNK != 0 {
                    bad = Some("unaligned");
                } else if c < m.first || c + n - 1 > m.last {
                    bad = Some("outside-discontiguous-range");
                } else if (c..c + n).any(|x| m.owner[x - m.lo_idx].is_some()) {
                    bad = Some("overlaps-allocated-region");
                }
                if let Some(b) = bad {
                    rep.violation(
                        format!("map32:alloc:region-{}", b),
                        format!("returned {} for {} chunks; ops: {}", rtn, n, fmt_ops(&log)),
                    );
                    return;
                }
                for x in c..c + n {
                    m.owner[x - m.lo_idx] = Some(si);
                }
                m.allocated += n;
                let sp = &mut spaces[si];
                sp.regions.insert(0, (c, n));
                sp.head = rtn; // grow_discontiguous_space
                let frag = m.allocated < m.total() && !m.free_run_exists(m.total() - m.allocated);
                rep.eval(mix(
                    0xA110C,
                    mix(mix((n > 1) as u64, sp.regions.len().min(4) as u64), mix(frag as u64, with_fl as u64)),
                ));
            }
            if !check_all(&map, &m, &spaces, rng, rep, "alloc", &log) {
                return;
            }
        } else if roll < 97 {
            // ---- free one region -------------------------------------------------------------
            let len = spaces[si].regions.len();
            let (pos, posname) = match rng.below(4) {
                0 => (0, if len == 1 { "only" } else { "head" }),
                1 => (len - 1, if len == 1 { "only" } else { "tail" }),
                _ => {
                    let p = rng.usize_below(len);
                    (
                        p,
                        if len == 1 {
                            "only"
                        } else if p == 0 {
                            "head"
                        } else if p == len - 1 {
                            "tail"
                        } else {
                            "middle"
                        },
                    )
                }
            };
            let (c, n) = spaces[si].regions[pos];
            let chunk = chunk_addr(c);
            log.push(format!("free(space {}, region at chunk {} ({} chunks), list position {} of {} = {})", si, c, n, pos, len, posname));
            // release_discontiguous_chunks
            hb.enter(&format!("map32:free-{}", posname), || fmt_ops(&log));
            let r = catch_unwind(AssertUnwindSafe(|| {
                if chunk == spaces[si].head {
                    let nh = map.get_next_contiguous_region(chunk);
                    (Some(nh), unsafe { map.free_contiguous_chunks(chunk) })
                } else {
                    (None, unsafe { map.free_contiguous_chunks(chunk) })
                }
            }));
            hb.leave();
            rep.count(&format!("op_free_{}", posname), 1);
            let opname = format!("free-{}", posname);
            let (nh, freed) = match r {
                Ok(x) => x,
                Err(_) => {
                    rep.violation(format!("map32:{}:panic", opname), format!("ops: {}", fmt_ops(&log)));
                    return;
                }
            };
            if let Some(nh) = nh {
                spaces[si].head = nh;
            }
            if freed != n {
                rep.violation(
                    format!("map32:{}:freed-count", opname),
                    format!("free_contiguous_chunks returned {} expected {}; ops: {}", freed, n, fmt_ops(&log)),
                );
            }
            for x in c..c + n {
                m.owner[x - m.lo_idx] = None;
            }
            m.allocated -= n;
            spaces[si].regions.remove(pos);
            rep.eval(mix(0xF4EE, mix(mix(pos.min(3) as u64, (len - 1 - pos).min(3) as u64), (n > 1) as u64)));
            if !check_all(&map, &m, &spaces, rng, rep, &opname, &log) {
                return;
            }
        } else {
            // ---- free all regions of a space ---------------------------------------------------
            let head = spaces[si].head;
            let len = spaces[si].regions.len();
            log.push(format!("free_all(space {}, head={}, {} regions)", si, head, len));
            hb.enter("map32:free_all", || fmt_ops(&log));
            let r = catch_unwind(AssertUnwindSafe(|| map.free_all_chunks(head)));
            hb.leave();
            rep.count("op_free_all", 1);
            if r.is_err() {
                rep.violation("map32:free_all:panic", format!("ops: {}", fmt_ops(&log)));
                return;
            }
            spaces[si].head = Address::ZERO; // release_all_chunks
            let regs = std::mem::take(&mut spaces[si].regions);
            for (c, n) in regs {
                for x in c..c + n {
                    m.owner[x - m.lo_idx] = None;
                }
                m.allocated -= n;
            }
            rep.eval(mix(0xF4EEA11, len.min(4) as u64));
            if !check_all(&map, &m, &spaces, rng, rep, "free_all", &log) {
                return;
            }
        }
    }
    // epilogue: release everything; the map must be back to "all chunks available"
    for si in 0..n_spaces {
        let head = spaces[si].head;
        log.push(format!("free_all(space {}, head={}, {} regions)", si, head, spaces[si].regions.len()));
        hb.enter("map32:free_all", || fmt_ops(&log));
        let r = catch_unwind(AssertUnwindSafe(|| map.free_all_chunks(head)));
        hb.leave();
        if r.is_err() {
            rep.violation("map32:free_all:panic", format!("ops: {}", fmt_ops(&log)));
            return;
        }
        spaces[si].head = Address::ZERO;
        let regs = std::mem::take(&mut spaces[si].regions);
        for (c, n) in regs {
            for x in c..c + n {
                m.owner[x - m.lo_idx] = None;
            }
            m.allocated -= n;
        }
        rep.count("op_free_all", 1);
    }
    rep.evaluations += 1;
    if check_all(&map, &m, &spaces, rng, rep, "free_all-epilogue", &log) {
        // everything coalesced again? a request for the whole range is satisfiable in the model
        let total = m.total();
        let desc = spaces[0].desc;
        hb.enter("map32:alloc", || format!("whole-range request after freeing everything; {}", fmt_ops(&log)));
        let r = catch_unwind(AssertUnwindSafe(|| unsafe { map.allocate_contiguous_chunks(desc, total, Address::ZERO, None) }));
        hb.leave();
        match r {
            Err(_) => rep.violation("map32:alloc:panic", format!("whole-range request after freeing everything; ops: {}", fmt_ops(&log))),
            Ok(a) => {
                if a.is_zero() {
                    rep.count("alloc_failed_although_a_free_run_exists", 1);
                } else {
                    log.push(format!("alloc(space 0, {} chunks, head=0) -> chunk {}", total, a.as_usize() >> LOG_CHUNK));
                    let c = a.as_usize() >> LOG_CHUNK;
                    if c != m.first {
                        rep.violation(
                            "map32:alloc:region-outside-discontiguous-range",
                            format!("whole-range request returned chunk {}; ops: {}", c, fmt_ops(&log)),
                        );
                    } else {
                        for x in c..c + total {
                            m.owner[x - m.lo_idx] = Some(0);
                        }
                        m.allocated = total;
                        spaces[0].regions = vec![(c, total)];
                        spaces[0].head = a;
                        check_all(&map, &m, &spaces, rng, rep, "alloc-whole-range", &log);
                    }
                }
            }
        }
    }
    if rep.want_sample() {
        rep.sample(J::obj(vec![
            ("spaces", J::i(n_spaces as u64)),
            ("discontiguous_chunks", J::Arr(vec![J::i(first as u64), J::i(last as u64)])),
            ("last_ops", J::s(fmt_ops(&log[log.len().saturating_sub(6)..]))),
        ]));
    }
    // the child free lists point into the map: drop them first
    drop(spaces);
    drop(map);
}

pub fn run(args: &Args, rep: &mut Report) {
    let mut rng = Rng::new(args.seed() ^ 0xC29);
    // The layout must be set before anything reads vm_layout() (Map32::new, MMTK::new).
    mmtk::verif::set_vm_layout(VMLayout {
        log_address_space: 35,
        heap_start: addr(HEAP_START),
        heap_end: addr(HEAP_END),
        log_space_extent: 31,
        force_use_contiguous_spaces: false,
    });
    // SFT_MAP (used by Map32's free path) is initialised only by MMTK::new.
    let built = catch_unwind(|| {
        let mut builder = mmtk::MMTKBuilder::new_no_env_vars();
        builder.options.plan.set(mmtk::util::options::PlanSelector::NoGC);
        let m = mmtk::memory_manager::mmtk_init::<HeaderVM>(&builder);
        Box::leak(m);
    });
    if built.is_err() {
        rep.inconclusive("could not build an MMTK instance (needed to initialise SFT_MAP for Map32's free path)");
        return;
    }
    let prev = std::panic::take_hook();
    std::panic::set_hook(Box::new(|_| {}));
    let (histories, ops) = if args.thorough() { (12000, 400) } else { (600, 300) };
    run_with_watchdog(rep, |rep, hb| {
        for _ in 0..histories {
            let n = 20 + rng.usize_below(ops);
            one_history(&mut rng, rep, hb, n);
        }
    });
    std::panic::set_hook(prev);
    rep.note("a NoGC MMTK instance is built only to initialise the global SFT_MAP, which Map32::free_contiguous_chunks_no_lock clears; the Map32 under test is private");
    rep.note("free_all_chunks/alloc walk linked structures: a call that burns more than 60 s of process CPU time without returning is reported as '<op>:does-not-return' by the watchdog (units/src/wdog.rs)");
    rep.note("placement policy is not part of the property: any disjoint chunk-aligned region inside the discontiguous range is accepted; an allocation failure although a free run exists is only counted");
}
