//! C39: option setting is all-or-nothing and parsers match their grammar.
//!
//! * `Options::set_from_string(name, value)` returns true iff the value parses and passes the
//!   option's validation; on false no option changes; on true only the named option changes and
//!   holds the documented value.
//! * `Options::set_bulk_from_string` behaves like applying its pairs in order (up to and including
//!   the first failing pair).
//! * `GCTriggerSelector`, `NurserySize`, `AffinityKind` `FromStr` accept the documented grammar,
//!   compute the documented values and report overflow instead of wrapping.
//!
//! The reference parsers below are written from the doc comments in `src/util/options.rs` (and,
//! for options of std types, from std's documented `FromStr` grammar, which the doc of
//! `set_from_string` names as the parser).  A string the documentation does not classify
//! unambiguously gets the verdict `Unk`: its accept/reject outcome is not judged, but
//! all-or-nothing, "only the named option changes" and (where the doc fixes it) the value are.
use mmtk::util::options::{AffinityKind, GCTriggerSelector, NurserySize, Options};
use std::panic::{catch_unwind, AssertUnwindSafe};
use std::str::FromStr;
use vcommon::{mix, Args, Report, Rng, J};

// ---------------------------------------------------------------------------------------------
// Observation of all option fields through their public Deref
// ---------------------------------------------------------------------------------------------

const NAMES: [&str; 30] = [
    "plan",
    "threads",
    "use_short_stack_scans",
    "use_return_barrier",
    "eager_complete_sweep",
    "ignore_system_gc",
    "nursery",
    "full_heap_system_gc",
    "no_finalizer",
    "no_reference_types",
    "nursery_zeroing",
    "stress_factor",
    "analysis_factor",
    "precise_stress",
    "vm_space_start",
    "vm_space_size",
    "side_metadata_base_address",
    "work_perf_events",
    "phase_perf_events",
    "perf_exclude_kernel",
    "thread_affinity",
    "gc_trigger",
    "transparent_hugepages",
    "count_live_bytes_in_gc",
    "immix_always_defrag",
    "immix_defrag_every_block",
    "immix_defrag_headroom_percent",
    "concurrent_immix_disable_concurrent_marking",
    // two names that are not options
    "no_such_option",
    "Threads",
];
const N_REAL: usize = 28;

fn snap(o: &Options) -> Vec<String> {
    vec![
        format!("{:?}", *o.plan),
        format!("{:?}", *o.threads),
        format!("{:?}", *o.use_short_stack_scans),
        format!("{:?}", *o.use_return_barrier),
        format!("{:?}", *o.eager_complete_sweep),
        format!("{:?}", *o.ignore_system_gc),
        fmt_nursery(&o.nursery),
        format!("{:?}", *o.full_heap_system_gc),
        format!("{:?}", *o.no_finalizer),
        format!("{:?}", *o.no_reference_types),
        format!("{:?}", *o.nursery_zeroing),
        format!("{:?}", *o.stress_factor),
        format!("{:?}", *o.analysis_factor),
        format!("{:?}", *o.precise_stress),
        format!("{}", o.vm_space_start.as_usize()),
        format!("{:?}", *o.vm_space_size),
        format!("{}", o.side_metadata_base_address.as_usize()),
        format!("{:?}", *o.work_perf_events),
        format!("{:?}", *o.phase_perf_events),
        format!("{:?}", *o.perf_exclude_kernel),
        fmt_affinity(&o.thread_affinity),
        fmt_trigger(&o.gc_trigger),
        format!("{:?}", *o.transparent_hugepages),
        format!("{:?}", *o.count_live_bytes_in_gc),
        format!("{:?}", *o.immix_always_defrag),
        format!("{:?}", *o.immix_defrag_every_block),
        format!("{:?}", *o.immix_defrag_headroom_percent),
        format!("{:?}", *o.concurrent_immix_disable_concurrent_marking),
    ]
}

// Canonical renderings shared by the implementation's values and the reference's values.
fn fmt_nursery(n: &NurserySize) -> String {
    match *n {
        NurserySize::Bounded { min, max } => format!("Bounded({},{})", min, max),
        NurserySize::ProportionalBounded { min, max } => {
            format!("Proportional({:016x},{:016x})", min.to_bits(), max.to_bits())
        }
        NurserySize::Fixed(x) => format!("Fixed({})", x),
    }
}
fn fmt_trigger(t: &GCTriggerSelector) -> String {
    match *t {
        GCTriggerSelector::FixedHeapSize(x) => format!("Fixed({})", x),
        GCTriggerSelector::DynamicHeapSize(a, b) => format!("Dynamic({},{})", a, b),
        GCTriggerSelector::Delegated => "Delegated".to_string(),
    }
}
fn fmt_affinity(a: &AffinityKind) -> String {
    match a {
        AffinityKind::OsDefault => "OsDefault".to_string(),
        AffinityKind::RoundRobin(v) => format!("RoundRobin{:?}", v),
        AffinityKind::AllInSet(v) => format!("AllInSet{:?}", v),
    }
}

// ---------------------------------------------------------------------------------------------
// Reference verdicts
// ---------------------------------------------------------------------------------------------

/// Parse-level verdict of a reference parser.  Values are canonical renderings.
#[derive(Clone, Debug, PartialEq)]
enum P {
    /// The doc says the string is valid and denotes this value.
    Ok(String),
    /// The doc says the string is not valid (malformed, or its value is not representable).
    Err,
    /// The doc does not say; if the implementation accepts, the value (when given) is what the
    /// doc's arithmetic would make of it.
    Unk(&'static str, Option<String>),
}

/// Set-level verdict.
#[derive(Clone, Debug, PartialEq)]
enum V {
    Accept(String),
    Reject,
    Unk(&'static str),
}

static OVERFLOWS: std::sync::atomic::AtomicU64 = std::sync::atomic::AtomicU64::new(0);
fn overflow_seen() {
    OVERFLOWS.fetch_add(1, std::sync::atomic::Ordering::Relaxed);
}

/// ASCII decimal digits only -> value, None if not all digits / empty.  Saturates at u128::MAX.
fn digits(s: &str) -> Option<u128> {
    if s.is_empty() || !s.bytes().all(|b| b.is_ascii_digit()) {
        return None;
    }
    let mut v: u128 = 0;
    for b in s.bytes() {
        v = v.saturating_mul(10).saturating_add((b - b'0') as u128);
    }
    Some(v)
}

/// std's documented grammar of unsigned integer `FromStr`: optional '+', then one or more ASCII
/// digits; no whitespace; value must fit.
fn std_unsigned(s: &str, max: u128) -> Option<u128> {
    let body = s.strip_prefix('+').unwrap_or(s);
    match digits(body) {
        Some(v) if v <= max => Some(v),
        _ => None,
    }
}

const PLANS: [&str; 11] = [
    "NoGC",
    "SemiSpace",
    "GenCopy",
    "GenImmix",
    "MarkSweep",
    "PageProtect",
    "Immix",
    "MarkCompact",
    "Compressor",
    "StickyImmix",
    "ConcurrentImmix",
];
const ZEROING: [&str; 4] = ["Temporal", "Nontemporal", "Concurrent", "Adaptive"];

struct Env {
    /// cores below this index certainly exist for this process
    cpu_lo: u128,
    /// cores at or above this index certainly do not
    cpu_hi: u128,
}

fn env() -> Env {
    let mut counts: Vec<u128> = vec![];
    unsafe {
        let mut cs: libc::cpu_set_t = std::mem::zeroed();
        if libc::sched_getaffinity(0, std::mem::size_of::<libc::cpu_set_t>(), &mut cs) == 0 {
            counts.push(libc::CPU_COUNT(&cs) as u128);
        }
        for k in [libc::_SC_NPROCESSORS_ONLN, libc::_SC_NPROCESSORS_CONF] {
            let n = libc::sysconf(k);
            if n > 0 {
                counts.push(n as u128);
            }
        }
    }
    Env {
        cpu_lo: counts.iter().copied().min().unwrap_or(1).max(1),
        cpu_hi: counts.iter().copied().max().unwrap_or(1 << 16),
    }
}

fn verdict(env: &Env, idx: usize, val: &str) -> V {
    let name = NAMES[idx];
    let umax = usize::MAX as u128;
    let from_p = |p: P, valid: &dyn Fn(&str) -> Option<bool>| -> V {
        match p {
            P::Ok(v) => match valid(&v) {
                Some(true) => V::Accept(v),
                Some(false) => V::Reject,
                None => V::Unk("validation not documented for this value"),
            },
            P::Err => V::Reject,
            P::Unk(why, Some(v)) if valid(&v) == Some(false) => {
                let _ = why;
                V::Reject // whether or not it parses, it cannot pass validation
            }
            P::Unk(why, _) => V::Unk(why),
        }
    };
    match name {
        "plan" => {
            if PLANS.contains(&val) {
                V::Accept(val.to_string())
            } else if PLANS.iter().any(|p| p.eq_ignore_ascii_case(val)) {
                V::Unk("plan name in different case")
            } else {
                V::Reject
            }
        }
        "nursery_zeroing" => {
            if ZEROING.contains(&val) {
                V::Accept(val.to_string())
            } else if ZEROING.iter().any(|p| p.eq_ignore_ascii_case(val)) {
                V::Unk("enum name in different case")
            } else {
                V::Reject
            }
        }
        "threads" | "vm_space_size" => match std_unsigned(val, umax) {
            Some(0) | None => V::Reject,
            Some(v) => V::Accept(v.to_string()),
        },
        "immix_defrag_headroom_percent" => match std_unsigned(val, umax) {
            Some(v) if v <= 50 => V::Accept(v.to_string()),
            _ => V::Reject,
        },
        "stress_factor" | "analysis_factor" | "vm_space_start" | "side_metadata_base_address" => {
            match std_unsigned(val, umax) {
                Some(v) => V::Accept(v.to_string()),
                None => V::Reject,
            }
        }
        "use_short_stack_scans"
        | "use_return_barrier"
        | "eager_complete_sweep"
        | "ignore_system_gc"
        | "full_heap_system_gc"
        | "no_finalizer"
        | "no_reference_types"
        | "precise_stress"
        | "transparent_hugepages"
        | "count_live_bytes_in_gc"
        | "immix_always_defrag"
        | "immix_defrag_every_block"
        | "concurrent_immix_disable_concurrent_marking" => match val {
            // transparent_hugepages=true is valid on Linux, which is where the harness runs
            "true" | "false" => V::Accept(val.to_string()),
            _ => V::Reject,
        },
        // validators are `cfg!(feature = "perf_counter")`; the harness builds mmtk without it, and
        // the in-tree test test_phase_perf_events_option_without_feature documents the rejection
        "work_perf_events" | "phase_perf_events" | "perf_exclude_kernel" => V::Reject,
        "nursery" => from_p(ref_nursery(val), &|v| Some(nursery_valid(v))),
        "gc_trigger" => from_p(ref_trigger(val), &|v| Some(trigger_valid(v))),
        "thread_affinity" => from_p(ref_cpulist(val), &|v| affinity_valid(env, v)),
        _ => V::Reject, // not an option name
    }
}

// ---- nursery --------------------------------------------------------------------------------

const DEFAULT_MIN_NURSERY: u128 = 2 << 20;
const DEFAULT_MAX_NURSERY: u128 = (1 << 20) << 20;

enum Num<T> {
    Ok(T),
    Err,
    Unk(&'static str, Option<T>),
}

fn nursery_usize(s: &str, default: Option<u128>) -> Num<u128> {
    if s == "_" {
        return match default {
            Some(d) => Num::Ok(d),
            None => Num::Err, // Fixed has no default
        };
    }
    if let Some(v) = digits(s) {
        return if v <= usize::MAX as u128 {
            Num::Ok(v)
        } else {
            overflow_seen();
            Num::Err // overflow must be reported
        };
    }
    if let Some(rest) = s.strip_prefix('+') {
        if let Some(v) = digits(rest) {
            return if v <= usize::MAX as u128 {
                Num::Unk("explicit plus sign", Some(v))
            } else {
                Num::Err
            };
        }
    }
    if s.chars().any(|c| c.is_whitespace()) && digits(s.trim()).is_some() {
        return Num::Unk("whitespace around a number", None);
    }
    Num::Err
}

/// Plain decimals `d+` or `d+.d+` with at most 15 significant digits: value = int / 10^k, both
/// exactly representable, so one IEEE division gives the correctly rounded value.
fn nursery_f64(s: &str, default: f64) -> Num<f64> {
    if s == "_" {
        return Num::Ok(default);
    }
    let (ip, fp) = match s.split_once('.') {
        Some((i, f)) => (i, f),
        None => (s, ""),
    };
    let simple = digits(ip).is_some() && (fp.is_empty() != s.contains('.')) && (fp.is_empty() || digits(fp).is_some());
    if simple {
        let all = format!("{}{}", ip, fp);
        let sig = all.trim_start_matches('0');
        if sig.len() <= 15 && fp.len() <= 15 {
            let n: u64 = if sig.is_empty() { 0 } else { sig.parse().unwrap() };
            let mut p = 1f64;
            for _ in 0..fp.len() {
                p *= 10.0;
            }
            return Num::Ok(n as f64 / p);
        }
        return Num::Unk("decimal with more digits than the reference evaluates exactly", None);
    }
    // Things Rust's f64 parser would or might accept but the doc does not mention.
    let lower = s.to_ascii_lowercase();
    let body = lower.trim_start_matches(['+', '-']);
    if ["inf", "infinity", "nan"].contains(&body) {
        return Num::Unk("inf/nan spelling", None);
    }
    if !s.is_empty() && s.chars().all(|c| c.is_ascii_digit() || ".eE+-".contains(c)) {
        return Num::Unk("sign / exponent / bare-dot float syntax", None);
    }
    if s.chars().any(|c| c.is_whitespace()) {
        return Num::Unk("whitespace around a number", None);
    }
    Num::Err
}

fn ref_nursery(s: &str) -> P {
    let parts: Vec<&str> = s.split(':').collect();
    if parts.len() != 2 {
        return P::Err; // "Fixed:8192": exactly one colon
    }
    let (variant, rest) = (parts[0], parts[1]);
    let vals: Vec<&str> = rest.split(',').collect();
    let known = ["Fixed", "Bounded", "ProportionalBounded"];
    if !known.contains(&variant) {
        if known.iter().any(|k| k.eq_ignore_ascii_case(variant.trim())) {
            return P::Unk("variant name in different case or with whitespace", None);
        }
        return P::Err;
    }
    match variant {
        "Fixed" => {
            if vals.len() != 1 {
                return P::Err;
            }
            match nursery_usize(vals[0], None) {
                Num::Ok(v) => P::Ok(format!("Fixed({})", v)),
                Num::Err => P::Err,
                Num::Unk(w, v) => P::Unk(w, v.map(|v| format!("Fixed({})", v))),
            }
        }
        "Bounded" => {
            if vals.len() != 2 {
                return P::Err;
            }
            let a = nursery_usize(vals[0], Some(DEFAULT_MIN_NURSERY));
            let b = nursery_usize(vals[1], Some(DEFAULT_MAX_NURSERY));
            match (a, b) {
                (Num::Err, _) | (_, Num::Err) => P::Err,
                (Num::Ok(a), Num::Ok(b)) => P::Ok(format!("Bounded({},{})", a, b)),
                (Num::Unk(w, a), Num::Ok(b)) => P::Unk(w, a.map(|a| format!("Bounded({},{})", a, b))),
                (Num::Ok(a), Num::Unk(w, b)) => P::Unk(w, b.map(|b| format!("Bounded({},{})", a, b))),
                (Num::Unk(w, a), Num::Unk(_, b)) => P::Unk(
                    w,
                    match (a, b) {
                        (Some(a), Some(b)) => Some(format!("Bounded({},{})", a, b)),
                        _ => None,
                    },
                ),
            }
        }
        _ => {
            if vals.len() != 2 {
                return P::Err;
            }
            let a = nursery_f64(vals[0], 0.25);
            let b = nursery_f64(vals[1], 1.0);
            match (a, b) {
                (Num::Err, _) | (_, Num::Err) => P::Err,
                (Num::Ok(a), Num::Ok(b)) => P::Ok(fmt_nursery(&NurserySize::ProportionalBounded { min: a, max: b })),
                (Num::Unk(w, _), _) | (_, Num::Unk(w, _)) => P::Unk(w, None),
            }
        }
    }
}

fn nursery_valid(canon: &str) -> bool {
    // canonical rendering -> documented validity
    if let Some(r) = canon.strip_prefix("Bounded(") {
        let (a, b) = r.trim_end_matches(')').split_once(',').unwrap();
        a.parse::<u128>().unwrap() <= b.parse::<u128>().unwrap()
    } else if let Some(r) = canon.strip_prefix("Proportional(") {
        let (a, b) = r.trim_end_matches(')').split_once(',').unwrap();
        let a = f64::from_bits(u64::from_str_radix(a, 16).unwrap());
        let b = f64::from_bits(u64::from_str_radix(b, 16).unwrap());
        0.0 < a && a <= b && b <= 1.0
    } else {
        true
    }
}

// ---- GC trigger -----------------------------------------------------------------------------

/// "a number to represents bytes, or a number with the suffix K/k/M/m/G/g" (T/t is accepted by the
/// implementation and used by its tests but missing from that sentence).
fn ref_size(s: &str) -> Num<u128> {
    let umax = usize::MAX as u128;
    if let Some(v) = digits(s) {
        if v > umax {
            overflow_seen();
        }
        return if v <= umax { Num::Ok(v) } else { Num::Err };
    }
    if s.is_empty() {
        return Num::Err;
    }
    let (body, suffix) = s.split_at(s.len() - if s.is_char_boundary(s.len() - 1) { 1 } else { 0 });
    let shift = match suffix {
        "k" | "K" => 10,
        "m" | "M" => 20,
        "g" | "G" => 30,
        "t" | "T" => 40,
        _ => return Num::Err,
    };
    let n = match digits(body) {
        Some(n) => n,
        None => return Num::Err,
    };
    // n saturates at u128::MAX for absurdly long digit strings; any n >= 2^64 overflows anyway
    let prod = if n >= 1 << 64 { u128::MAX } else { n << shift };
    if prod > umax {
        overflow_seen();
        return Num::Err; // overflow must be reported, never wrapped
    }
    if shift == 40 {
        Num::Unk("T/t suffix is not in the parse_size doc sentence", Some(prod))
    } else {
        Num::Ok(prod)
    }
}

fn ref_trigger(s: &str) -> P {
    if s == "Delegated" {
        return P::Ok("Delegated".to_string());
    }
    if s.starts_with("Delegated") {
        return P::Unk("text after Delegated", Some("Delegated".to_string()));
    }
    if s.chars().any(|c| c.is_whitespace()) {
        let t: String = s.chars().filter(|c| !c.is_whitespace()).collect();
        if !matches!(ref_trigger(&t), P::Err) {
            return P::Unk("whitespace in an otherwise valid trigger", None);
        }
        return P::Err;
    }
    if let Some(r) = s.strip_prefix("FixedHeapSize:") {
        return match ref_size(r) {
            Num::Ok(v) => P::Ok(format!("Fixed({})", v)),
            Num::Err => P::Err,
            Num::Unk(w, v) => P::Unk(w, v.map(|v| format!("Fixed({})", v))),
        };
    }
    if let Some(r) = s.strip_prefix("DynamicHeapSize:") {
        let parts: Vec<&str> = r.split(',').collect();
        if parts.len() != 2 {
            return P::Err;
        }
        return match (ref_size(parts[0]), ref_size(parts[1])) {
            (Num::Err, _) | (_, Num::Err) => P::Err,
            (Num::Ok(a), Num::Ok(b)) => P::Ok(format!("Dynamic({},{})", a, b)),
            (Num::Unk(w, a), Num::Ok(b)) => P::Unk(w, a.map(|a| format!("Dynamic({},{})", a, b))),
            (Num::Ok(a), Num::Unk(w, b)) => P::Unk(w, b.map(|b| format!("Dynamic({},{})", a, b))),
            (Num::Unk(w, a), Num::Unk(_, b)) => P::Unk(
                w,
                match (a, b) {
                    (Some(a), Some(b)) => Some(format!("Dynamic({},{})", a, b)),
                    _ => None,
                },
            ),
        };
    }
    for k in ["FixedHeapSize", "DynamicHeapSize", "Delegated"] {
        if s.len() >= k.len() && s.is_char_boundary(k.len()) && s[..k.len()].eq_ignore_ascii_case(k) && !s.starts_with(k) {
            return P::Unk("trigger name in different case", None);
        }
    }
    P::Err
}

fn trigger_valid(canon: &str) -> bool {
    if let Some(r) = canon.strip_prefix("Fixed(") {
        r.trim_end_matches(')').parse::<u128>().unwrap() > 0
    } else if let Some(r) = canon.strip_prefix("Dynamic(") {
        let (a, b) = r.trim_end_matches(')').split_once(',').unwrap();
        a.parse::<u128>().unwrap() <= b.parse::<u128>().unwrap()
    } else {
        true
    }
}

// ---- CPU list -------------------------------------------------------------------------------

/// "numbers separated by commas, including ranges.  There should be no spaces between the cores in
/// the list.  Optionally can provide an affinity kind before the list of cores.  Performs
/// de-duplication ... sorted."  "0,5,8-11" = 0,5,8,9,10,11; "AllInSet:0,5".
fn ref_cpulist(s: &str) -> P {
    if s.is_empty() {
        return P::Unk("empty string", Some("OsDefault".to_string()));
    }
    let (kind, list) = match s.split_once(':') {
        Some((k, l)) => match k {
            "RoundRobin" | "AllInSet" => (k, l),
            _ => return P::Err, // unknown kind
        },
        None => ("RoundRobin", s),
    };
    if list.is_empty() {
        return P::Unk("kind with an empty core list", None);
    }
    let mut cores: Vec<u128> = vec![];
    let mut unk: Option<&'static str> = None;
    let core = |t: &str, unk: &mut Option<&'static str>| -> Option<u128> {
        if let Some(v) = digits(t) {
            if v > u16::MAX as u128 {
                overflow_seen();
            }
            return if v <= u16::MAX as u128 { Some(v) } else { None };
        }
        if let Some(v) = t.strip_prefix('+').and_then(digits) {
            if v <= u16::MAX as u128 {
                *unk = Some("explicit plus sign");
                return Some(v);
            }
        }
        None
    };
    for item in list.split(',') {
        let ends: Vec<&str> = item.split('-').collect();
        match ends.len() {
            1 => match core(ends[0], &mut unk) {
                Some(c) => cores.push(c),
                None => return P::Err,
            },
            2 => match (core(ends[0], &mut unk), core(ends[1], &mut unk)) {
                (Some(a), Some(b)) => {
                    if a > b {
                        return P::Err; // "Starting core id in range should be less than the end"
                    }
                    if a == b {
                        unk = Some("range whose ends are equal");
                    }
                    cores.extend(a..=b);
                }
                _ => return P::Err,
            },
            _ => return P::Err,
        }
    }
    cores.sort_unstable();
    cores.dedup();
    let canon = format!("{}{:?}", kind, cores);
    match unk {
        // a later item may still be malformed for every reading, which returned Err above
        Some(w) => P::Unk(w, if w == "range whose ends are equal" { None } else { Some(canon) }),
        None => P::Ok(canon),
    }
}

fn affinity_valid(env: &Env, canon: &str) -> Option<bool> {
    if canon == "OsDefault" {
        return Some(true);
    }
    let (kind, list) = canon.split_at(canon.find('[').unwrap());
    let cores: Vec<u128> = list
        .trim_matches(|c| c == '[' || c == ']')
        .split(", ")
        .filter(|t| !t.is_empty())
        .map(|t| t.parse().unwrap())
        .collect();
    let all_in = cores.iter().all(|c| *c < env.cpu_lo);
    let some_out = cores.iter().any(|c| *c >= env.cpu_hi);
    if all_in {
        Some(true)
    } else if kind == "AllInSet" {
        None // validate() doc: "true if ... the cores in the list do not exceed ..."; code only checks RoundRobin
    } else if some_out {
        Some(false)
    } else {
        None
    }
}

// ---------------------------------------------------------------------------------------------
// Input generation
// ---------------------------------------------------------------------------------------------

const BOUNDARY_NUMBERS: [&str; 34] = [
    "0", "1", "2", "7", "50", "51", "100", "255", "256", "1023", "1024", "4095", "4096", "65534",
    "65535", "65536", "65537", "2147483647", "2147483648", "4294967295", "4294967296",
    "9223372036854775807", "9223372036854775808", "18446744073709551614", "18446744073709551615",
    "18446744073709551616", "18446744073709551617", "28446744073709551615", "99999999999999999999",
    "340282366920938463463374607431768211455", "340282366920938463463374607431768211456",
    "0000000000000000000000000000000000000000000000000000000001", "007", "00",
];

fn gen_number(rng: &mut Rng) -> String {
    match rng.below(10) {
        0..=3 => rng.pick(&BOUNDARY_NUMBERS).to_string(),
        4 | 5 => rng.below(70000).to_string(),
        6 => rng.next().to_string(),
        7 => (rng.next() >> rng.below(64)).to_string(),
        8 => {
            // 2^k + d
            let k = rng.below(66) as u32;
            let d = rng.below(3) as i128 - 1;
            ((1i128 << k) + d).max(0).to_string()
        }
        _ => {
            let n = rng.range(1, 45);
            (0..n).map(|_| (b'0' + rng.below(10) as u8) as char).collect()
        }
    }
}

fn gen_size(rng: &mut Rng) -> String {
    let suffixes = ["", "", "k", "K", "m", "M", "g", "G", "t", "T"];
    let suf = *rng.pick(&suffixes);
    if rng.chance(1, 3) && !suf.is_empty() {
        // around the overflow threshold of the suffix
        let shift = match suf.to_ascii_lowercase().as_str() {
            "k" => 10,
            "m" => 20,
            "g" => 30,
            _ => 40,
        };
        let base: i128 = 1i128 << (64 - shift);
        let d = rng.below(5) as i128 - 2;
        return format!("{}{}", base + d, suf);
    }
    format!("{}{}", gen_number(rng), suf)
}

fn gen_trigger(rng: &mut Rng) -> String {
    match rng.below(8) {
        0 => "Delegated".to_string(),
        1..=3 => format!("FixedHeapSize:{}", gen_size(rng)),
        _ => {
            let a = gen_size(rng);
            let b = if rng.chance(1, 3) { a.clone() } else { gen_size(rng) };
            format!("DynamicHeapSize:{},{}", a, b)
        }
    }
}

fn gen_decimal(rng: &mut Rng) -> String {
    match rng.below(8) {
        0 => "_".to_string(),
        1 => rng.pick(&["0", "1", "0.0", "1.0", "0.25", "0.5", "1.00", "0.000", "1.0000001", "2", "0.999999999999999"]).to_string(),
        2 => rng.pick(&["inf", "nan", "-0.5", "+0.5", "1e-1", ".5", "5.", "1E0", "-0", "Infinity", "1e400"]).to_string(),
        _ => {
            let fd = rng.range(1, 12) as usize;
            let f: String = (0..fd).map(|_| (b'0' + rng.below(10) as u8) as char).collect();
            format!("{}.{}", if rng.chance(1, 6) { 1 } else { 0 }, f)
        }
    }
}

fn gen_nursery(rng: &mut Rng) -> String {
    let nb = |rng: &mut Rng| if rng.chance(1, 5) { "_".to_string() } else { gen_number(rng) };
    match rng.below(9) {
        0..=2 => format!("Fixed:{}", gen_number(rng)),
        3..=5 => {
            let a = nb(rng);
            let b = if rng.chance(1, 4) { a.clone() } else { nb(rng) };
            format!("Bounded:{},{}", a, b)
        }
        _ => {
            let a = gen_decimal(rng);
            let b = if rng.chance(1, 4) { a.clone() } else { gen_decimal(rng) };
            format!("ProportionalBounded:{},{}", a, b)
        }
    }
}

fn gen_core(rng: &mut Rng, env: &Env) -> u64 {
    match rng.below(6) {
        0 | 1 => rng.below(env.cpu_lo as u64),
        2 => rng.below(40),
        3 => *rng.pick(&[0u64, 1, 1023, 1024, 65534, 65535, 65536, 70000, 4294967296]),
        _ => rng.below(300),
    }
}

fn gen_cpulist(rng: &mut Rng, env: &Env) -> String {
    let n = rng.range(1, 6);
    let items: Vec<String> = (0..n)
        .map(|_| {
            if rng.chance(1, 3) {
                let a = gen_core(rng, env);
                let w = match rng.below(8) {
                    0 => 0,
                    1 => 1,
                    _ => rng.range(1, 40),
                };
                if rng.chance(1, 10) {
                    format!("{}-{}", a + w, a) // reversed
                } else {
                    format!("{}-{}", a, a + w)
                }
            } else {
                gen_core(rng, env).to_string()
            }
        })
        .collect();
    let list = items.join(",");
    match rng.below(6) {
        0 => format!("RoundRobin:{}", list),
        1 | 2 => format!("AllInSet:{}", list),
        _ => list,
    }
}

const ALPHABET: [&str; 44] = [
    "0", "1", "5", "9", ",", ",", "-", "-", ":", ":", ".", "_", "+", " ", "\t", "\n", "k", "K", "m", "G",
    "t", "T", "e", "E", "=", "x", "a", "Z", "\u{e9}", "\u{663}", "\u{212a}", "\u{ff10}", "\u{0}", "\u{a0}",
    ";", "/", "0x", "-1", "true", "Fixed", "Delegated", "AllInSet", "_", "",
];

fn mutate(s: &str, rng: &mut Rng) -> String {
    let chars: Vec<char> = s.chars().collect();
    let n = chars.len();
    let pos = if n == 0 { 0 } else { rng.usize_below(n + 1) };
    let mut out: Vec<char> = chars.clone();
    match rng.below(9) {
        0 if n > 0 => {
            out.remove(pos.min(n - 1));
        }
        1 | 2 => {
            let ins: Vec<char> = rng.pick(&ALPHABET).chars().collect();
            for (i, c) in ins.into_iter().enumerate() {
                out.insert(pos + i, c);
            }
        }
        3 if n > 0 => {
            let p = pos.min(n - 1);
            let rep: Vec<char> = rng.pick(&ALPHABET).chars().collect();
            out.splice(p..p + 1, rep);
        }
        4 if n > 0 => {
            out.truncate(pos);
        }
        5 if n > 0 => {
            let p = pos.min(n - 1);
            let c = out[p];
            out[p] = if c.is_ascii_uppercase() { c.to_ascii_lowercase() } else { c.to_ascii_uppercase() };
        }
        6 => {
            // whitespace at an end
            if rng.chance(1, 2) {
                out.insert(0, ' ');
            } else {
                out.push(*rng.pick(&[' ', '\n', '\t']));
            }
        }
        7 if n > 1 => {
            let a = rng.usize_below(n);
            let b = rng.usize_below(n);
            out.swap(a, b);
        }
        _ => {
            let extra: Vec<char> = rng.pick(&ALPHABET).chars().collect();
            out.extend(extra);
        }
    }
    out.into_iter().collect()
}

fn gen_value(rng: &mut Rng, env: &Env, idx: usize) -> (String, &'static str) {
    let name = NAMES[idx.min(N_REAL - 1)];
    let base = match name {
        "plan" => rng.pick(&PLANS).to_string(),
        "nursery_zeroing" => rng.pick(&ZEROING).to_string(),
        "nursery" => gen_nursery(rng),
        "gc_trigger" => gen_trigger(rng),
        "thread_affinity" => gen_cpulist(rng, env),
        "threads" | "vm_space_size" | "immix_defrag_headroom_percent" | "stress_factor" | "analysis_factor"
        | "vm_space_start" | "side_metadata_base_address" => {
            if rng.chance(1, 8) {
                format!("+{}", gen_number(rng))
            } else {
                gen_number(rng)
            }
        }
        "work_perf_events" | "phase_perf_events" => rng
            .pick(&["", "PERF_COUNT_HW_CPU_CYCLES,0,-1", "A,1,2;B,3,4", "A,1", "A,x,1"])
            .to_string(),
        _ => rng.pick(&["true", "false"]).to_string(),
    };
    match rng.below(10) {
        0..=4 => (base, "grammar"),
        5..=7 => (mutate(&base, rng), "mutated"),
        8 => {
            let m = mutate(&base, rng);
            (mutate(&m, rng), "mutated2")
        }
        _ => {
            // a value of some other option's type
            let other = rng.usize_below(N_REAL);
            (gen_value_plain(rng, env, other), "foreign")
        }
    }
}

fn gen_value_plain(rng: &mut Rng, env: &Env, idx: usize) -> String {
    match NAMES[idx] {
        "nursery" => gen_nursery(rng),
        "gc_trigger" => gen_trigger(rng),
        "thread_affinity" => gen_cpulist(rng, env),
        "plan" => rng.pick(&PLANS).to_string(),
        "threads" | "stress_factor" => gen_number(rng),
        _ => rng.pick(&["true", "false", "", "1", "TRUE", "yes"]).to_string(),
    }
}

/// The implementation expands ranges one core at a time with a sort per core; keep the monitor's
/// run time bounded by leaving out lists that span tens of thousands of cores.
fn range_too_wide(val: &str) -> bool {
    val.split(|c| c == ',' || c == ':').any(|item| {
        let ends: Vec<&str> = item.split('-').collect();
        if ends.len() != 2 {
            return false;
        }
        match (ends[0].trim_start_matches('+').parse::<u64>(), ends[1].trim_start_matches('+').parse::<u64>()) {
            (Ok(a), Ok(b)) => b > a && b - a > 2000 && b <= 65535,
            _ => false,
        }
    })
}

// ---------------------------------------------------------------------------------------------
// Checks
// ---------------------------------------------------------------------------------------------

fn shorten(s: &str) -> String {
    if s.chars().count() > 120 {
        let t: String = s.chars().take(120).collect();
        format!("{}...", t)
    } else {
        s.to_string()
    }
}

struct Unknowns {
    seen: std::collections::BTreeMap<(&'static str, &'static str, &'static str, bool), String>,
}

fn type_class(idx: usize) -> u64 {
    match NAMES[idx] {
        "nursery" => 1,
        "gc_trigger" => 2,
        "thread_affinity" => 3,
        "plan" | "nursery_zeroing" => 4,
        "threads" | "vm_space_size" | "immix_defrag_headroom_percent" => 5,
        "stress_factor" | "analysis_factor" | "vm_space_start" | "side_metadata_base_address" => 6,
        "work_perf_events" | "phase_perf_events" | "perf_exclude_kernel" => 7,
        "no_such_option" | "Threads" => 8,
        _ => 9,
    }
}

fn value_shape(val: &str) -> u64 {
    // coarse shape of the string: which character classes occur
    let mut m = 0u64;
    for c in val.chars() {
        m |= match c {
            '0'..='9' => 1,
            ',' => 2,
            '-' => 4,
            ':' => 8,
            '.' => 16,
            '_' => 32,
            '+' => 64,
            c if c.is_whitespace() => 128,
            c if c.is_ascii_alphabetic() => 256,
            c if !c.is_ascii() => 512,
            _ => 1024,
        };
    }
    m | ((val.len().min(40) as u64 / 10) << 12)
}

/// One `set_from_string` call against the reference.
fn check_set(rep: &mut Report, env: &Env, unk: &mut Unknowns, opts: &mut Options, idx: usize, val: &str, label: &'static str) {
    let name = NAMES[idx];
    let v = verdict(env, idx, val);
    let before = snap(opts);
    let r = catch_unwind(AssertUnwindSafe(|| opts.set_from_string(name, val)));
    let after = snap(opts);
    let vclass = match &v {
        V::Accept(_) => 0u64,
        V::Reject => 1,
        V::Unk(_) => 2,
    };
    let key = mix(mix(type_class(idx), vclass), mix(value_shape(val), label.len() as u64));
    let nontrivial = label != "grammar" || vclass != 0 || type_class(idx) <= 3;
    if nontrivial {
        rep.eval(key);
    } else {
        rep.evaluations += 1;
    }
    let r = match r {
        Ok(r) => r,
        Err(_) => {
            rep.violation(
                format!("set_from_string:panic:{}:{}", name, label),
                format!("set_from_string({:?}, {:?}) panicked", name, shorten(val)),
            );
            return;
        }
    };
    let changed: Vec<usize> = (0..N_REAL).filter(|i| before[*i] != after[*i]).collect();
    // all-or-nothing, whatever the verdict
    if !r && !changed.is_empty() {
        rep.violation(
            format!("set_from_string:false-but-changed:{}:{}", name, label),
            format!(
                "set_from_string({:?}, {:?}) = false but {} changed from {} to {}",
                name, shorten(val), NAMES[changed[0]], before[changed[0]], after[changed[0]]
            ),
        );
    }
    if r && changed.iter().any(|i| *i != idx) {
        let c = *changed.iter().find(|i| **i != idx).unwrap();
        rep.violation(
            format!("set_from_string:other-option-changed:{}:{}", name, label),
            format!(
                "set_from_string({:?}, {:?}) = true changed {} from {} to {}",
                name, shorten(val), NAMES[c], before[c], after[c]
            ),
        );
    }
    match v {
        V::Accept(want) => {
            rep.count("set_expected_accept", 1);
            if !r {
                rep.violation(
                    format!("set_from_string:rejected-valid:{}:{}", name, label),
                    format!("set_from_string({:?}, {:?}) = false; documented value {}", name, shorten(val), want),
                );
            } else if after[idx] != want {
                rep.violation(
                    format!("set_from_string:wrong-value:{}:{}", name, label),
                    format!("set_from_string({:?}, {:?}) stored {}, documented value {}", name, shorten(val), after[idx], want),
                );
            }
        }
        V::Reject => {
            rep.count("set_expected_reject", 1);
            if r {
                rep.violation(
                    format!("set_from_string:accepted-invalid:{}:{}", name, label),
                    format!("set_from_string({:?}, {:?}) = true (stored {}); the value is malformed, overflowing or fails validation", name, shorten(val), after[idx.min(N_REAL - 1)]),
                );
            }
        }
        V::Unk(why) => {
            rep.count(if r { "set_unclassified_accepted" } else { "set_unclassified_rejected" }, 1);
            unk.seen.entry((name, "set_from_string", why, r)).or_insert_with(|| shorten(val));
        }
    }
    if rep.want_sample() && label == "mutated" && r {
        rep.sample(J::obj(vec![
            ("name", J::s(name)),
            ("value", J::s(shorten(val))),
            ("result", J::Bool(r)),
            ("stored", J::s(after[idx.min(N_REAL - 1)].clone())),
        ]));
    }
}

/// The free-standing parser of the option's type against the reference parser.
fn check_from_str(rep: &mut Report, unk: &mut Unknowns, idx: usize, val: &str, label: &'static str) {
    let name = NAMES[idx];
    let (p, got): (P, std::thread::Result<Option<String>>) = match name {
        "nursery" => (
            ref_nursery(val),
            catch_unwind(|| NurserySize::from_str(val).ok().map(|x| fmt_nursery(&x))),
        ),
        "gc_trigger" => (
            ref_trigger(val),
            catch_unwind(|| GCTriggerSelector::from_str(val).ok().map(|x| fmt_trigger(&x))),
        ),
        "thread_affinity" => (
            ref_cpulist(val),
            catch_unwind(|| AffinityKind::from_str(val).ok().map(|x| fmt_affinity(&x))),
        ),
        _ => return,
    };
    let pclass = match &p {
        P::Ok(_) => 0u64,
        P::Err => 1,
        P::Unk(..) => 2,
    };
    rep.eval(mix(mix(0xF5, type_class(idx)), mix(pclass, value_shape(val))));
    rep.count(&format!("from_str_{}", name), 1);
    let got = match got {
        Ok(g) => g,
        Err(_) => {
            rep.violation(
                format!("from_str:panic:{}:{}", name, label),
                format!("<{} as FromStr>::from_str({:?}) panicked", name, shorten(val)),
            );
            return;
        }
    };
    match (p, got) {
        (P::Ok(want), Some(g)) => {
            rep.count("from_str_valid", 1);
            if g != want {
                rep.violation(
                    format!("from_str:wrong-value:{}:{}", name, label),
                    format!("{:?} parsed as {}, documented value {}", shorten(val), g, want),
                );
            }
        }
        (P::Ok(want), None) => rep.violation(
            format!("from_str:rejected-valid:{}:{}", name, label),
            format!("{:?} was rejected, documented value {}", shorten(val), want),
        ),
        (P::Err, Some(g)) => {
            let why = if val.chars().filter(|c| c.is_ascii_digit()).count() >= 17 { "overflow-or-malformed" } else { "malformed" };
            rep.violation(
                format!("from_str:accepted-invalid:{}:{}:{}", name, why, label),
                format!("{:?} parsed as {} but is malformed or not representable", shorten(val), g),
            );
        }
        (P::Err, None) => rep.count("from_str_invalid", 1),
        (P::Unk(why, want), g) => {
            rep.count("from_str_unclassified", 1);
            if let (Some(want), Some(g)) = (&want, &g) {
                if want != g {
                    rep.violation(
                        format!("from_str:wrong-value-unclassified:{}:{}", name, label),
                        format!("{:?} ({}) parsed as {}, the documented arithmetic gives {}", shorten(val), why, g, want),
                    );
                }
            }
            unk.seen.entry((name, "from_str", why, g.is_some())).or_insert_with(|| shorten(val));
        }
    }
}

fn with_stderr_silenced<T>(f: impl FnOnce() -> T) -> T {
    unsafe {
        let saved = libc::dup(2);
        let null = libc::open(b"/dev/null\0".as_ptr() as *const libc::c_char, libc::O_WRONLY);
        if saved >= 0 && null >= 0 {
            libc::dup2(null, 2);
        }
        let r = f();
        if saved >= 0 {
            libc::dup2(saved, 2);
            libc::close(saved);
        }
        if null >= 0 {
            libc::close(null);
        }
        r
    }
}

/// Bulk setting = applying the pairs in order up to and including the first failing pair.
fn check_bulk(rep: &mut Report, rng: &mut Rng, env: &Env, opts: &mut Options) {
    let n = rng.range(0, 6) as usize;
    let mut pairs: Vec<(usize, String)> = vec![];
    for _ in 0..n {
        let idx = rng.usize_below(N_REAL);
        let mut tries = 0;
        loop {
            let (val, _) = gen_value(rng, env, idx);
            tries += 1;
            // a pair is `key=value` delimited by white space or commas: values containing the
            // delimiters or '=' cannot be expressed in the bulk syntax
            let expressible = !val.is_empty()
                && !val.chars().any(|c| c == ',' || c == '=' || c.is_ascii_whitespace())
                && !range_too_wide(&val);
            if expressible {
                pairs.push((idx, val));
                break;
            }
            if tries > 20 {
                pairs.push((idx, "true".to_string()));
                break;
            }
        }
    }
    // assemble with random delimiters
    let seps = [" ", ",", "\t", "\n", "  ", ", ", " ,", ",,"];
    let mut s = String::new();
    if rng.chance(1, 5) {
        s.push_str(*rng.pick(&seps));
    }
    for (i, (idx, val)) in pairs.iter().enumerate() {
        if i > 0 {
            s.push_str(*rng.pick(&seps));
        }
        s.push_str(NAMES[*idx]);
        s.push('=');
        s.push_str(val);
    }
    if rng.chance(1, 5) {
        s.push_str(*rng.pick(&seps));
    }
    // model: the same pairs applied one by one to a copy
    let mut model = opts.clone();
    let mut first_fail: Option<usize> = None;
    for (i, (idx, val)) in pairs.iter().enumerate() {
        if !model.set_from_string(NAMES[*idx], val) {
            first_fail = Some(i);
            break;
        }
    }
    let want_ret = first_fail.is_none();
    let got = catch_unwind(AssertUnwindSafe(|| opts.set_bulk_from_string(&s)));
    let class = format!("pairs={}:fail={}", pairs.len().min(3), first_fail.map(|i| i.min(2) as i64).unwrap_or(-1));
    rep.eval(mix(0xB01C, mix(pairs.len() as u64, first_fail.map(|i| i as u64 + 1).unwrap_or(0))));
    rep.count(if want_ret { "bulk_all_succeed" } else { "bulk_with_failure" }, 1);
    let got = match got {
        Ok(g) => g,
        Err(_) => {
            rep.violation(
                format!("set_bulk_from_string:panic:{}", class),
                format!("set_bulk_from_string({:?}) panicked although every key is an option name", shorten(&s)),
            );
            *opts = model;
            return;
        }
    };
    if got != want_ret {
        rep.violation(
            format!("set_bulk_from_string:result:{}", class),
            format!("set_bulk_from_string({:?}) = {}, applying the pairs in order gives {}", shorten(&s), got, want_ret),
        );
    }
    let a = snap(opts);
    let m = snap(&model);
    // options named by pairs after the first failing one are not covered by the property
    let later: Vec<usize> = match first_fail {
        Some(k) => pairs[k + 1..].iter().map(|p| p.0).collect(),
        None => vec![],
    };
    for i in 0..N_REAL {
        if a[i] != m[i] && !later.contains(&i) {
            rep.violation(
                format!("set_bulk_from_string:state:{}", class),
                format!(
                    "after set_bulk_from_string({:?}) option {} is {}, applying the pairs in order gives {}",
                    shorten(&s), NAMES[i], a[i], m[i]
                ),
            );
            break;
        }
    }
    *opts = model;
}

fn fixed_cases() -> Vec<(usize, &'static str)> {
    let idx = |n: &str| NAMES.iter().position(|x| *x == n).unwrap();
    let (t, n, c) = (idx("gc_trigger"), idx("nursery"), idx("thread_affinity"));
    vec![
        (t, "FixedHeapSize:0"), (t, "FixedHeapSize:1"), (t, "FixedHeapSize:18446744073709551615"),
        (t, "FixedHeapSize:18446744073709551616"), (t, "FixedHeapSize:18014398509481983k"),
        (t, "FixedHeapSize:18014398509481984k"), (t, "FixedHeapSize:17592186044415M"),
        (t, "FixedHeapSize:17592186044416M"), (t, "FixedHeapSize:17179869183g"), (t, "FixedHeapSize:17179869184g"),
        (t, "FixedHeapSize:16777215t"), (t, "FixedHeapSize:16777216t"), (t, "FixedHeapSize:18446744073709551615k"),
        (t, "FixedHeapSize:18446744073709551616k"), (t, "FixedHeapSize:"), (t, "FixedHeapSize"), (t, "FixedHeapSize:-1"),
        (t, "FixedHeapSize:k"), (t, "FixedHeapSize:1kk"), (t, "FixedHeapSize:1 k"), (t, "FixedHeapSize:1b"),
        (t, "FixedHeapSize:\u{663}"), (t, "FixedHeapSize:\u{663}k"), (t, "FixedHeapSize:1\u{212a}"), (t, "FixedHeapSize:1\n"),
        (t, "DynamicHeapSize:1,1"), (t, "DynamicHeapSize:2,1"), (t, "DynamicHeapSize:1k,1023"), (t, "DynamicHeapSize:1,2,"),
        (t, "DynamicHeapSize:1"), (t, "DynamicHeapSize:,1"), (t, "DynamicHeapSize:0,0"), (t, "DynamicHeapSize:1;2"),
        (t, "Delegated"), (t, "delegated"), (t, "Delegated "), (t, "DelegatedFoo"), (t, "Delegated:1024"), (t, ""),
        (t, " Delegated"), (t, "FixedHeapSize:1\nDelegated"),
        (n, "Fixed:8192"), (n, "Fixed:0"), (n, "Fixed:18446744073709551615"), (n, "Fixed:18446744073709551616"),
        (n, "Fixed:_"), (n, "Fixed:1,2"), (n, "Fixed:1k"), (n, "Fixed:"), (n, "Fixed"), (n, "Fixed:1:2"), (n, ":1"),
        (n, "Bounded:1,2"), (n, "Bounded:2,1"), (n, "Bounded:_,_"), (n, "Bounded:_,1"), (n, "Bounded:2097153,_"),
        (n, "Bounded:1099511627777,_"), (n, "Bounded:1"), (n, "Bounded:1,2,3"), (n, "Bounded:18446744073709551616,_"),
        (n, "ProportionalBounded:0.2,1.0"), (n, "ProportionalBounded:0.1,_"), (n, "ProportionalBounded:_,_"),
        (n, "ProportionalBounded:0,1"), (n, "ProportionalBounded:0.5,0.25"), (n, "ProportionalBounded:0.5,1.5"),
        (n, "ProportionalBounded:nan,1"), (n, "ProportionalBounded:0.5,inf"), (n, "ProportionalBounded:-0.5,1"),
        (n, "ProportionalBounded:0.5"), (n, "Proportional:0.5,1"), (n, "ProportionalBounded:_,0.2"),
        (c, "0"), (c, "0,0,0"), (c, "0-0"), (c, "1-0"), (c, "0,"), (c, ",0"), (c, "0,,0"), (c, "0, 0"), (c, "0-"), (c, "-0"),
        (c, "0-1-2"), (c, "65535"), (c, "65536"), (c, "AllInSet:0"), (c, "AllInSet:65535"), (c, "AllInSet:65536"),
        (c, "RoundRobin:0"), (c, "RoundRobin:65535"), (c, "RoundRobin:"), (c, "AllIn:0"), (c, "allinset:0"),
        (c, "AllInSet:RoundRobin:0"), (c, "0:AllInSet"), (c, ""), (c, "+0"), (c, "00"), (c, "0x0"), (c, "65530-65535"),
    ]
}

pub fn run(args: &Args, rep: &mut Report) {
    let mut rng = Rng::new(args.seed() ^ 0xC39);
    let env = env();
    let mut unk = Unknowns { seen: Default::default() };
    let mut opts = match catch_unwind(Options::default) {
        Ok(o) => o,
        Err(_) => {
            rep.inconclusive("Options::default() panicked");
            return;
        }
    };
    // 0. fixed boundary cases
    for (idx, val) in fixed_cases() {
        check_set(rep, &env, &mut unk, &mut opts, idx, val, "fixed");
        check_from_str(rep, &mut unk, idx, val, "fixed");
    }
    // 1. single settings on an evolving Options value
    let n = if args.thorough() { 15_000_000 } else { 250_000 };
    let mut skipped_wide = 0u64;
    for i in 0..n {
        let idx = match rng.below(10) {
            0..=5 => *rng.pick(&[6usize, 21, 20]), // nursery, gc_trigger, thread_affinity
            6 => N_REAL + rng.usize_below(2),
            _ => rng.usize_below(N_REAL),
        };
        let (val, label) = gen_value(&mut rng, &env, idx);
        if range_too_wide(&val) {
            skipped_wide += 1;
            continue;
        }
        check_set(rep, &env, &mut unk, &mut opts, idx, &val, label);
        check_from_str(rep, &mut unk, idx, &val, label);
        if i % 5000 == 4999 {
            // restart from defaults now and then
            opts = Options::default();
        }
    }
    rep.count("single_settings", n);
    rep.count("skipped_wide_ranges", skipped_wide);
    // 2. bulk
    let n = if args.thorough() { 2_000_000 } else { 50_000 };
    with_stderr_silenced(|| {
        for i in 0..n {
            check_bulk(rep, &mut rng, &env, &mut opts);
            if i % 2000 == 1999 {
                opts = Options::default();
            }
        }
        // the documented examples
        let mut o = Options::default();
        let ok = o.set_bulk_from_string("threads=1 stress_factor=4096") && *o.threads == 1 && *o.stress_factor == 4096;
        let mut o2 = Options::default();
        let ok2 = o2.set_bulk_from_string("threads=1,stress_factor=4096") && *o2.threads == 1 && *o2.stress_factor == 4096;
        let mut o3 = Options::default();
        let ok3 = o3.set_bulk_from_string("");
        if !(ok && ok2 && ok3) {
            rep.violation("set_bulk_from_string:doc-example", format!("documented examples: space {} comma {} empty {}", ok, ok2, ok3));
        }
    });
    rep.count("bulk_strings", n);
    rep.count("reference_overflow_rejections", OVERFLOWS.load(std::sync::atomic::Ordering::Relaxed));
    // notes on what the documentation leaves open
    let mut notes = 0;
    for ((name, level, why, accepted), example) in unk.seen.iter() {
        if notes < 60 {
            rep.note(format!(
                "unclassified ({} / {}): {} e.g. {:?} -> implementation {}",
                name, level, why, example, if *accepted { "accepts" } else { "rejects" }
            ));
            notes += 1;
        }
    }
    rep.note(format!(
        "cores < {} are taken as present, cores >= {} as absent (RoundRobin validation); AllInSet with absent cores is unclassified (validate() only checks RoundRobin, its doc says 'the cores in the list')",
        env.cpu_lo, env.cpu_hi
    ));
    rep.note("bulk strings only use option names as keys (an unknown key panics by documented design) and values free of ',', '=', white space (not expressible in the bulk syntax, e.g. nursery=Bounded:1,2 or thread_affinity=0,1)");
    rep.note("perf options are expected to be rejected for every value: mmtk is built without the perf_counter feature");
}
