//! C35: mark-sweep size classes fit every request.
//!
//! For every request `(size, align)` that `FreeListAllocator::alloc` admits
//! (`size <= MAX_BIN_SIZE` (== `MI_LARGE_OBJ_SIZE_MAX`), `VM::MIN_ALIGNMENT <= align <=
//! VM::MAX_ALIGNMENT`, `size` a multiple of `VM::MIN_ALIGNMENT` as `get_maximum_aligned_size`
//! requires) the bin chosen by the real `mi_bin::<VM>` is checked against the real size-class
//! table (`BlockList::size` of a fresh set of block lists):
//!
//! * `1 <= bin <= MAX_BIN`,
//! * `bin_size(bin) >= get_maximum_aligned_size::<VM>(size, align)` (the worst-case footprint the
//!   allocator may need inside the cell to place an aligned object; also `>= size`),
//! * `mi_bin` is monotone (non-decreasing) in `size` for a fixed alignment and in `align` for a
//!   fixed size, and the table itself is strictly increasing from bin 1 on.
//!
//! Tightness (smallest fitting bin) is deliberately NOT demanded.
//! The "fresh block free list" half of the property needs a live MarkSweep instance and is
//! checked by the GC-simulation engine, not here.
use crate::unitvm::SideVM;
use mmtk::verif::ms;
use mmtk::vm::VMBinding;
use std::panic::{catch_unwind, AssertUnwindSafe};
use vcommon::{mix, Args, Report, J};

/// A trimmed copy of `define_unit_vm!` (all metadata on the side) with configurable alignment
/// limits.  No GC can run with these types; they only parameterise `mi_bin::<VM>`.
macro_rules! define_align_vm {
    ($name:ident, min: $min:expr, max: $max:expr) => {
        #[derive(Default)]
        pub struct $name;

        impl mmtk::vm::VMBinding for $name {
            type VMObjectModel = $name;
            type VMScanning = $name;
            type VMCollection = $name;
            type VMActivePlan = $name;
            type VMReferenceGlue = $name;
            type VMSlot = mmtk::vm::slot::SimpleSlot;
            type VMMemorySlice = mmtk::vm::slot::UnimplementedMemorySlice;
            const MIN_ALIGNMENT: usize = $min;
            const MAX_ALIGNMENT: usize = $max;
        }

        impl mmtk::vm::ObjectModel<$name> for $name {
            const GLOBAL_LOG_BIT_SPEC: mmtk::vm::VMGlobalLogBitSpec =
                mmtk::vm::VMGlobalLogBitSpec::side_first();
            const LOCAL_FORWARDING_POINTER_SPEC: mmtk::vm::VMLocalForwardingPointerSpec =
                mmtk::vm::VMLocalForwardingPointerSpec::side_first();
            const LOCAL_FORWARDING_BITS_SPEC: mmtk::vm::VMLocalForwardingBitsSpec =
                mmtk::vm::VMLocalForwardingBitsSpec::side_after(
                    Self::LOCAL_FORWARDING_POINTER_SPEC.as_spec(),
                );
            const LOCAL_MARK_BIT_SPEC: mmtk::vm::VMLocalMarkBitSpec =
                mmtk::vm::VMLocalMarkBitSpec::side_after(Self::LOCAL_FORWARDING_BITS_SPEC.as_spec());
            const LOCAL_PINNING_BIT_SPEC: mmtk::vm::VMLocalPinningBitSpec =
                mmtk::vm::VMLocalPinningBitSpec::side_after(Self::LOCAL_MARK_BIT_SPEC.as_spec());
            const LOCAL_LOS_MARK_NURSERY_SPEC: mmtk::vm::VMLocalLOSMarkNurserySpec =
                mmtk::vm::VMLocalLOSMarkNurserySpec::side_after(
                    Self::LOCAL_PINNING_BIT_SPEC.as_spec(),
                );
            const OBJECT_REF_OFFSET_LOWER_BOUND: isize = 0;

            fn copy(
                _from: mmtk::util::ObjectReference,
                _semantics: mmtk::util::copy::CopySemantics,
                _copy_context: &mut mmtk::util::copy::GCWorkerCopyContext<$name>,
            ) -> mmtk::util::ObjectReference {
                unimplemented!()
            }
            fn copy_to(
                _from: mmtk::util::ObjectReference,
                _to: mmtk::util::ObjectReference,
                _region: mmtk::util::Address,
            ) -> mmtk::util::Address {
                unimplemented!()
            }
            fn get_current_size(_object: mmtk::util::ObjectReference) -> usize {
                unimplemented!()
            }
            fn get_size_when_copied(_object: mmtk::util::ObjectReference) -> usize {
                unimplemented!()
            }
            fn get_align_when_copied(_object: mmtk::util::ObjectReference) -> usize {
                unimplemented!()
            }
            fn get_align_offset_when_copied(_object: mmtk::util::ObjectReference) -> usize {
                unimplemented!()
            }
            fn get_reference_when_copied_to(
                _from: mmtk::util::ObjectReference,
                _to: mmtk::util::Address,
            ) -> mmtk::util::ObjectReference {
                unimplemented!()
            }
            fn get_type_descriptor(_reference: mmtk::util::ObjectReference) -> &'static [i8] {
                unimplemented!()
            }
            fn ref_to_object_start(object: mmtk::util::ObjectReference) -> mmtk::util::Address {
                object.to_raw_address()
            }
            fn ref_to_header(object: mmtk::util::ObjectReference) -> mmtk::util::Address {
                object.to_raw_address()
            }
            fn dump_object(_object: mmtk::util::ObjectReference) {}
        }

        impl mmtk::vm::Scanning<$name> for $name {
            fn scan_object<SV: mmtk::vm::SlotVisitor<mmtk::vm::slot::SimpleSlot>>(
                _tls: mmtk::util::VMWorkerThread,
                _object: mmtk::util::ObjectReference,
                _slot_visitor: &mut SV,
            ) {
                unimplemented!()
            }
            fn notify_initial_thread_scan_complete(
                _partial_scan: bool,
                _tls: mmtk::util::VMWorkerThread,
            ) {
                unimplemented!()
            }
            fn scan_roots_in_mutator_thread(
                _tls: mmtk::util::VMWorkerThread,
                _mutator: &'static mut mmtk::Mutator<$name>,
                _factory: impl mmtk::vm::RootsWorkFactory<mmtk::vm::slot::SimpleSlot>,
            ) {
                unimplemented!()
            }
            fn scan_vm_specific_roots(
                _tls: mmtk::util::VMWorkerThread,
                _factory: impl mmtk::vm::RootsWorkFactory<mmtk::vm::slot::SimpleSlot>,
            ) {
                unimplemented!()
            }
            fn supports_return_barrier() -> bool {
                false
            }
            fn prepare_for_roots_re_scanning() {
                unimplemented!()
            }
        }

        impl mmtk::vm::Collection<$name> for $name {
            fn stop_all_mutators<F>(_tls: mmtk::util::VMWorkerThread, _mutator_visitor: F)
            where
                F: FnMut(&'static mut mmtk::Mutator<$name>),
            {
                unimplemented!()
            }
            fn resume_mutators(_tls: mmtk::util::VMWorkerThread) {
                unimplemented!()
            }
            fn block_for_gc(_tls: mmtk::util::VMMutatorThread) {
                unimplemented!()
            }
            fn spawn_gc_thread(_tls: mmtk::util::VMThread, _ctx: mmtk::vm::GCThreadContext<$name>) {
                unimplemented!()
            }
        }

        impl mmtk::vm::ActivePlan<$name> for $name {
            fn number_of_mutators() -> usize {
                0
            }
            fn is_mutator(_tls: mmtk::util::VMThread) -> bool {
                false
            }
            fn mutator(_tls: mmtk::util::VMMutatorThread) -> &'static mut mmtk::Mutator<$name> {
                unimplemented!()
            }
            fn mutators<'a>() -> Box<dyn Iterator<Item = &'a mut mmtk::Mutator<$name>> + 'a> {
                Box::new(std::iter::empty())
            }
        }

        impl mmtk::vm::ReferenceGlue<$name> for $name {
            type FinalizableType = mmtk::util::ObjectReference;
            fn clear_referent(_new_reference: mmtk::util::ObjectReference) {
                unimplemented!()
            }
            fn get_referent(
                _object: mmtk::util::ObjectReference,
            ) -> Option<mmtk::util::ObjectReference> {
                unimplemented!()
            }
            fn set_referent(
                _reff: mmtk::util::ObjectReference,
                _referent: mmtk::util::ObjectReference,
            ) {
                unimplemented!()
            }
            fn enqueue_references(
                _references: &[mmtk::util::ObjectReference],
                _tls: mmtk::util::VMWorkerThread,
            ) {
                unimplemented!()
            }
        }
    };
}

// The default alignment limits of `VMBinding` (4 / 8).
define_align_vm!(Align4To8VM, min: 4, max: 8);
// No alignment padding at all (MAX_ALIGNMENT <= MIN_ALIGNMENT branch of get_maximum_aligned_size).
define_align_vm!(Align8To8VM, min: 8, max: 8);
// Word-aligned objects with double-word alignment requests (OpenJDK/JikesRVM like).
define_align_vm!(Align8To16VM, min: 8, max: 16);

/// Reference for `mmtk::util::alloc::allocator::get_maximum_aligned_size::<VM>`:
/// the worst-case number of bytes needed to place `size` bytes at an `align`-aligned address in
/// a region whose start is only known to be `MIN_ALIGNMENT`-aligned.
fn get_maximum_aligned_size<VM: VMBinding>(size: usize, align: usize) -> usize {
    if VM::MAX_ALIGNMENT <= VM::MIN_ALIGNMENT || align <= VM::MIN_ALIGNMENT {
        size
    } else {
        size + align - VM::MIN_ALIGNMENT
    }
}

/// Largest padding `align_up(cell, align) - cell` over the cells `block_start + k * cell_size` of
/// a (block-aligned) block; only used to enrich violation details.
fn worst_padding(cell_size: usize, align: usize) -> usize {
    let n = (ms::block_bytes() / cell_size).max(1);
    (0..n).map(|k| (align - (k * cell_size) % align) % align).max().unwrap_or(0)
}

/// Checks of the size-class table itself.  Returns the table.
fn check_table(rep: &mut Report) -> Vec<usize> {
    let bins = ms::bin_sizes();
    rep.evaluations += 1;
    if bins.len() != ms::MAX_BIN + 1 {
        rep.violation(
            "ms:table:len",
            format!("bin table has {} entries, MAX_BIN={}", bins.len(), ms::MAX_BIN),
        );
    }
    if bins.last().copied() != Some(ms::MAX_BIN_SIZE) {
        rep.violation(
            "ms:table:last-bin-size",
            format!("last bin size {:?} != MAX_BIN_SIZE {}", bins.last(), ms::MAX_BIN_SIZE),
        );
    }
    if ms::MI_LARGE_OBJ_SIZE_MAX > ms::MAX_BIN_SIZE || ms::MI_LARGE_OBJ_SIZE_MAX > ms::block_bytes() {
        rep.violation(
            "ms:table:large-obj-size-max",
            format!(
                "MI_LARGE_OBJ_SIZE_MAX={} MAX_BIN_SIZE={} block_bytes={}",
                ms::MI_LARGE_OBJ_SIZE_MAX,
                ms::MAX_BIN_SIZE,
                ms::block_bytes()
            ),
        );
    }
    // strictly increasing from bin 1 on (bin 0 is the reserved empty bin)
    for b in 2..bins.len() {
        rep.evaluations += 1;
        if bins[b] <= bins[b - 1] {
            rep.violation(
                "ms:table:not-increasing",
                format!("bin {} size {} <= bin {} size {}", b, bins[b], b - 1, bins[b - 1]),
            );
        }
    }
    for (b, &s) in bins.iter().enumerate().skip(1) {
        rep.evaluations += 1;
        // A cell must fit a block (otherwise a fresh block has an empty free list), and cells are
        // word multiples.
        if s == 0 || s % std::mem::size_of::<usize>() != 0 || s > ms::block_bytes() {
            rep.violation(
                "ms:table:cell-size",
                format!("bin {} cell size {} (block bytes {})", b, s, ms::block_bytes()),
            );
        }
    }
    bins
}

/// The largest gap the real `align_allocation_no_fill::<VM>` inserts in front of an object that
/// must be `align`-aligned (at any legal allocation offset), over every region start that is
/// only known to be `MIN_ALIGNMENT`-aligned.  `size + this` is what an allocation of `size` bytes
/// can need.
fn worst_real_alignment_gap<VM: VMBinding>(align: usize) -> usize {
    let min = VM::MIN_ALIGNMENT;
    // any non-zero, generously aligned address; the no-fill variant never touches the memory
    let base = unsafe { mmtk::util::Address::from_usize(0x4000_0000) };
    let mut worst = 0usize;
    let mut r = 0usize;
    while r < align.max(min) {
        let mut off = 0usize;
        while off < align.max(min) {
            let region = base + r;
            let res = mmtk::verif::align_allocation_no_fill::<VM>(region, align, off);
            worst = worst.max(res - region);
            off += min;
        }
        r += min;
    }
    worst
}

fn run_vm<VM: VMBinding>(vmname: &str, vmid: u64, bins: &[usize], rep: &mut Report) {
    let min = VM::MIN_ALIGNMENT;
    let max = VM::MAX_ALIGNMENT;
    let limit = ms::MI_LARGE_OBJ_SIZE_MAX.min(ms::MAX_BIN_SIZE);
    let mut aligns = vec![];
    let mut a = min;
    while a <= max {
        aligns.push(a);
        a <<= 1;
    }
    // prev bin per align (monotone in size), updated as size grows
    let mut prev_bin: Vec<Option<(usize, usize)>> = vec![None; aligns.len()];
    let mut core = 0u64;
    let mut edge = 0u64;
    let mut out_of_range = 0u64;
    let mut reported_oob: std::collections::HashSet<usize> = Default::default();
    // what the real allocator's alignment code can insert in front of an object, per align
    let gaps: Vec<usize> = aligns.iter().map(|&a| worst_real_alignment_gap::<VM>(a)).collect();
    for (&a, &g) in aligns.iter().zip(gaps.iter()) {
        rep.evaluations += 1;
        // my closed-form reference must describe the real alignment code exactly
        if get_maximum_aligned_size::<VM>(0, a) != g {
            // my reference is off (not a verdict about mmtk-core; the per-request check below
            // compares the real get_maximum_aligned_size with the real gap)
            rep.inconclusive(format!(
                "vm={} align={}: real align_allocation inserts up to {} bytes, reference formula says {}",
                vmname, a, g, get_maximum_aligned_size::<VM>(0, a)
            ));
        }
    }
    let mut real_agrees = 0u64;
    let mut real_larger = 0u64;
    let mut real_smaller = 0u64;
    let mut size = 0usize;
    while size <= limit {
        let mut prev_in_align: Option<(usize, usize)> = None;
        for (ai, &align) in aligns.iter().enumerate() {
            let aligned = get_maximum_aligned_size::<VM>(size, align);
            // cross-check with the real (now re-exported) get_maximum_aligned_size: it must never
            // be smaller than what an allocation of this size/align can need
            let real = mmtk::verif::get_maximum_aligned_size::<VM>(size, align);
            let need = size + gaps[ai];
            if real < need {
                real_smaller += 1;
                if real_smaller == 1 {
                    rep.violation(
                        "ms:aligned-size-reference-mismatch",
                        format!(
                            "vm={} size={} align={}: real get_maximum_aligned_size = {} but align_allocation can need {} (reference formula {})",
                            vmname, size, align, real, need, aligned
                        ),
                    );
                } else {
                    rep.violation_count += 1;
                }
            } else if real != aligned {
                real_larger += 1;
            } else {
                real_agrees += 1;
            }
            // `mi_bin_from_size` has the internal `debug_assert!(wsize <= MI_LARGE_OBJ_WSIZE_MAX)` on
            // the *aligned* size.  Requests whose raw size is admitted by the allocator
            // (`size <= MAX_BIN_SIZE`, plan constraint `max_non_los_default_alloc_bytes ==
            // MI_LARGE_OBJ_SIZE_MAX`) but whose aligned size exceeds the largest cell are the
            // "edge" class (aligned size larger than the largest cell); they get their own
            // violation signature.
            let is_edge = aligned > ms::MAX_BIN_SIZE;
            let got = catch_unwind(AssertUnwindSafe(|| ms::mi_bin::<VM>(size, align)));
            let bin = match got {
                Ok(b) => b,
                Err(_) => {
                    rep.evaluations += 1;
                    rep.violation(
                        format!("ms:mi_bin:panic:{}", if is_edge { "edge" } else { "core" }),
                        format!("vm={} size={} align={} aligned={}", vmname, size, align, aligned),
                    );
                    continue;
                }
            };
            let cls = if is_edge { "edge-aligned-size-over-max" } else { "core" };
            // class key: vm x align x bin x position of the aligned size inside the bin's range
            let pos = if bin >= 1 && bin <= ms::MAX_BIN {
                if aligned == bins[bin] {
                    2 // exactly fills the cell
                } else if bin > 1 && aligned == bins[bin - 1] + min.max(1) {
                    1 // first size of the bin (one alignment step above the previous cell)
                } else {
                    0
                }
            } else {
                3
            };
            let key = mix(mix(vmid, align as u64), mix(bin as u64, mix(pos, is_edge as u64)));
            // non-trivial: alignment padding matters or the size is at a bin boundary
            if aligned != size || pos != 0 {
                rep.eval(key);
            } else {
                rep.evaluations += 1;
            }
            if is_edge {
                edge += 1;
            } else {
                core += 1;
            }
            if rep.want_sample() && pos == 2 && align > min && size > 4000 {
                rep.sample(J::obj(vec![
                    ("vm", J::s(vmname)),
                    ("size", J::i(size)),
                    ("align", J::i(align)),
                    ("aligned", J::i(aligned)),
                    ("bin", J::i(bin)),
                    ("bin_size", J::i(bins[bin])),
                ]));
            }
            if bin == 0 || bin > ms::MAX_BIN {
                out_of_range += 1;
                // one report per (vm, align) is enough; the rest is counted
                if !reported_oob.insert(align) {
                    continue;
                }
                rep.violation(
                    format!("ms:bin-out-of-range:{}", cls),
                    format!(
                        "vm={} (MIN_ALIGNMENT={}, MAX_ALIGNMENT={}) size={} align={} aligned_size={} -> bin {} (MAX_BIN={}, MAX_BIN_SIZE={})",
                        vmname, min, max, size, align, aligned, bin, ms::MAX_BIN, ms::MAX_BIN_SIZE
                    ),
                );
                continue;
            }
            if bins[bin] < aligned || bins[bin] < size {
                rep.violation(
                    format!("ms:bin-too-small:{}", cls),
                    format!(
                        "vm={} size={} align={} aligned_size={} -> bin {} of cell size {} (worst-case padding over the actual cell addresses of a block of this bin, offset 0: {} bytes)",
                        vmname, size, align, aligned, bin, bins[bin],
                        worst_padding(bins[bin], align)
                    ),
                );
            }
            if let Some((psize, pbin)) = prev_bin[ai] {
                if pbin > bin {
                    rep.violation(
                        format!("ms:not-monotone-in-size:{}", cls),
                        format!(
                            "vm={} align={}: size {} -> bin {}, but larger size {} -> bin {}",
                            vmname, align, psize, pbin, size, bin
                        ),
                    );
                }
            }
            prev_bin[ai] = Some((size, bin));
            if let Some((palign, pbin)) = prev_in_align {
                if pbin > bin {
                    rep.violation(
                        format!("ms:not-monotone-in-align:{}", cls),
                        format!(
                            "vm={} size={}: align {} -> bin {}, but larger align {} -> bin {}",
                            vmname, size, palign, pbin, align, bin
                        ),
                    );
                }
            }
            prev_in_align = Some((align, bin));
        }
        size += min.max(1);
    }
    rep.count(&format!("requests_core_{}", vmname), core);
    rep.count(&format!("requests_edge_{}", vmname), edge);
    rep.count("requests_with_bin_out_of_range", out_of_range);
    rep.count("aligned_size_real_equals_reference", real_agrees);
    rep.count("aligned_size_real_larger_than_reference", real_larger);
    rep.count("aligned_size_real_smaller_than_needed", real_smaller);
    rep.count("requests_core", core);
    rep.count("requests_edge_aligned_size_over_max", edge);
    rep.count("aligns_covered", aligns.len() as u64);
}

pub fn run(_args: &Args, rep: &mut Report) {
    let prev_hook = std::panic::take_hook();
    std::panic::set_hook(Box::new(|_| {}));
    let bins = check_table(rep);
    if bins.len() == ms::MAX_BIN + 1 {
        run_vm::<SideVM>("min4max64", 1, &bins, rep);
        run_vm::<Align4To8VM>("min4max8", 2, &bins, rep);
        run_vm::<Align8To8VM>("min8max8", 3, &bins, rep);
        run_vm::<Align8To16VM>("min8max16", 4, &bins, rep);
    }
    std::panic::set_hook(prev_hook);
    rep.count("bins", bins.len() as u64);
    rep.note("exhaustive: every size 0..=MI_LARGE_OBJ_SIZE_MAX that is a multiple of VM::MIN_ALIGNMENT (precondition of get_maximum_aligned_size) x every power-of-two align in MIN_ALIGNMENT..=MAX_ALIGNMENT, for 4 VM alignment configurations; both tiers identical");
    rep.note("tightness of the chosen bin is not required and not checked");
    rep.note("aligned size: own reference (size if MAX_ALIGNMENT <= MIN_ALIGNMENT or align <= MIN_ALIGNMENT, else size + align - MIN_ALIGNMENT), validated per (VM, align) against the largest gap the real align_allocation_no_fill inserts over all MIN_ALIGNMENT-aligned region starts and offsets, and cross-checked for every request against the real mmtk::verif::get_maximum_aligned_size (smaller than needed = violation, larger = counted only)");
    rep.note("class 'edge-aligned-size-over-max': raw size <= MAX_BIN_SIZE (admitted by FreeListAllocator::alloc and by MarkSweep's max_non_los_default_alloc_bytes) but get_maximum_aligned_size(size, align) > MAX_BIN_SIZE (the largest cell), i.e. beyond mi_bin_from_size's internal debug_assert on the aligned size; reported under separate signatures (suffix :edge-aligned-size-over-max)");
    rep.note("the 'fresh block free list' part of C35 (disjoint, cell-size-strided cells inside the block) needs a live MarkSweep instance and is NOT checked by this unit monitor");
}
