//! C20: side metadata behaves as an array of independent fixed-width integers.
//!
//! For every (log_num_of_bits 0..=6) x (log_bytes_in_region in {3,4,8,12,15,22}) a custom
//! `SideMetadataSpec` gets its own metadata window (pre-filled with a random pattern, with raw
//! margins on both sides).  A long random history of load/store/(atomic)/set_zero/CAS/fetch_*/
//! fetch_update operations is run against the real spec methods and against a model
//! (`Vec<u8>` image packed/unpacked by this file's own shift/mask code).  After every operation
//! the return value is compared with the model (truncated to the width) and the whole raw window
//! (all fields + margins) is compared byte-by-byte.
//!
//! A self-test runs the same checker against private mutated copies of the bit helpers (wrong
//! shift, too-wide mask, unmasked load, fetch_add returning the new value) and requires that the
//! checker flags every one of them.
use mmtk::util::metadata::side_metadata::SideMetadataSpec;
use mmtk::util::metadata::MetadataValue;
use mmtk::util::Address;
use std::cell::Cell;
use std::panic::{catch_unwind, AssertUnwindSafe};
use std::sync::atomic::Ordering;
use vcommon::{mix, Args, Report, Rng, J};

const REGIONS: [usize; 6] = [3, 4, 8, 12, 15, 22];
const MARGIN: usize = 64;
const SLOT_BYTES: usize = 4 << 30;

trait W: MetadataValue + PartialEq {
    fn from64(x: u64) -> Self;
    fn to64(self) -> u64;
    const NAME: &'static str;
}
macro_rules! impl_w {
    ($t:ty) => {
        impl W for $t {
            fn from64(x: u64) -> Self {
                x as $t
            }
            fn to64(self) -> u64 {
                self as u64
            }
            const NAME: &'static str = stringify!($t);
        }
    };
}
impl_w!(u8);
impl_w!(u16);
impl_w!(u32);
impl_w!(u64);
impl_w!(usize);

fn addr(x: usize) -> Address {
    unsafe { Address::from_usize(x) }
}

/// Initialise the side metadata base once.  `SideVM` cannot be used here: its side forwarding
/// pointer spec (64 bits per 8 bytes) alone needs 2^47 bytes of address space and the quarantine
/// mmap fails, so the all-in-header VM is used (the VM specs play no role in this property).
fn init(rep: &mut Report) -> bool {
    let r = catch_unwind(|| {
        mmtk::verif::initialize_side_metadata::<crate::unitvm::HeaderVM>();
    });
    if r.is_err() {
        rep.inconclusive("initialize_side_metadata panicked (could not reserve the side metadata range)");
        return false;
    }
    true
}

/// One spec + its window + the model image.
struct Win {
    spec: SideMetadataSpec,
    bits: usize,
    region: usize,
    width: usize,
    n: usize,
    /// data address of field 0
    f0: usize,
    /// start of the raw window = meta address of field 0 - MARGIN
    raw: *mut u8,
    len: usize,
    img: Vec<u8>,
}

impl Win {
    fn new(bits: usize, region: usize, slot: usize, rng: &mut Rng, rep: &mut Report) -> Option<Win> {
        let width = 1usize << bits;
        let ratio = 3 + region - bits;
        let n = if bits < 3 { 512 } else { 256 };
        let w_bytes = n * width / 8;
        let logdc = std::cmp::min(45, 30 + ratio);
        let log_mrc = logdc - ratio;
        let max_pages = std::cmp::min(1024, (1usize << log_mrc) / 4096 / 2);
        // page-aligned metadata offset (relative to the spec's start) of the window centre: the
        // window straddles a metadata page boundary
        let mrc = (1usize << log_mrc) + rng.usize_below(max_pages.max(1)) * 4096;
        let meta_rel0 = mrc - w_bytes / 2;
        let field_index0 = meta_rel0 * 8 / width;
        let f0 = field_index0 << region;
        let spec = SideMetadataSpec {
            name: "c20",
            is_global: false,
            offset: slot * SLOT_BYTES,
            log_num_of_bits: bits,
            log_bytes_in_region: region,
        };
        let lo_field = (meta_rel0 - MARGIN) * 8 / width;
        let hi_field = (meta_rel0 + w_bytes + MARGIN) * 8 / width;
        let dlo = (lo_field << region) & !4095;
        let dhi = ((hi_field << region) + 4095) & !4095;
        if !mmtk::verif::map_side_metadata(&[spec], addr(dlo), dhi - dlo) {
            rep.inconclusive(format!("could not map metadata for bits={} region={}", bits, region));
            return None;
        }
        // my own address translation
        let base = mmtk::util::metadata::side_metadata::global_side_metadata_base_address();
        let meta0 = base.as_usize() + spec.offset + meta_rel0;
        let got = mmtk::verif::address_to_meta_address(&spec, addr(f0));
        let sh = mmtk::verif::meta_byte_lshift(&spec, addr(f0));
        rep.evaluations += 1;
        if got.as_usize() != meta0 || sh != 0 {
            rep.violation(
                format!("addr-translation:bits={}:region={}", bits, region),
                format!(
                    "spec offset={:#x} data={:#x}: expected meta {:#x} shift 0, got {} shift {}",
                    spec.offset, f0, meta0, got, sh
                ),
            );
            return None;
        }
        let raw = (meta0 - MARGIN) as *mut u8;
        let len = w_bytes + 2 * MARGIN;
        if !addr(raw as usize).is_mapped() || !addr(raw as usize + len - 1).is_mapped() {
            rep.inconclusive(format!("window not mapped for bits={} region={}", bits, region));
            return None;
        }
        let mut w = Win {
            spec,
            bits,
            region,
            width,
            n,
            f0,
            raw,
            len,
            img: vec![0; len],
        };
        w.refill(rng);
        Some(w)
    }

    fn refill(&mut self, rng: &mut Rng) {
        for b in self.img.iter_mut() {
            *b = rng.next() as u8;
        }
        unsafe { std::ptr::copy_nonoverlapping(self.img.as_ptr(), self.raw, self.len) };
    }

    fn mem(&self) -> &[u8] {
        unsafe { std::slice::from_raw_parts(self.raw, self.len) }
    }

    fn mask(&self) -> u64 {
        if self.width == 64 {
            u64::MAX
        } else {
            (1u64 << self.width) - 1
        }
    }

    /// Model read of field `i` (own packing code).
    fn get(&self, i: usize) -> u64 {
        let bit = i * self.width;
        let p = MARGIN + bit / 8;
        if self.width >= 8 {
            let mut v = 0u64;
            for k in 0..self.width / 8 {
                v |= (self.img[p + k] as u64) << (8 * k);
            }
            v
        } else {
            ((self.img[p] >> (bit % 8)) as u64) & self.mask()
        }
    }

    /// Model write of field `i`.
    fn put(&mut self, i: usize, v: u64) {
        let bit = i * self.width;
        let p = MARGIN + bit / 8;
        if self.width >= 8 {
            for k in 0..self.width / 8 {
                self.img[p + k] = (v >> (8 * k)) as u8;
            }
        } else {
            let m = (self.mask() as u8) << (bit % 8);
            self.img[p] = (self.img[p] & !m) | (((v as u8) << (bit % 8)) & m);
        }
    }

    fn data_addr(&self, i: usize, intra: usize) -> Address {
        addr(self.f0 + (i << self.region) + intra)
    }

    /// Position class of field i: (bit offset in byte, byte position class in the 8-byte word).
    fn posclass(&self, i: usize) -> u64 {
        let bit = i * self.width;
        let byte_in_word = (bit / 8) % 8;
        let bw = if self.width >= 8 {
            (byte_in_word / (self.width / 8)) as u64
        } else {
            match byte_in_word {
                0 => 0,
                7 => 2,
                _ => 1,
            }
        };
        let edge = (i == 0 || i == self.n - 1) as u64;
        (bit % 8) as u64 | (bw << 3) | (edge << 6)
    }
}

#[derive(Clone, Copy, PartialEq, Debug)]
enum Mutant {
    None,
    StoreWideMask,
    StoreWrongShift,
    LoadNoMask,
    FetchAddReturnsNew,
    StoreAtomicWideMask,
}

const OPS: [&str; 14] = [
    "load",
    "load_atomic",
    "store",
    "store_atomic",
    "set_zero",
    "set_zero_atomic",
    "cas_success",
    "cas_failure",
    "fetch_add",
    "fetch_sub",
    "fetch_and",
    "fetch_or",
    "fetch_update_accept",
    "fetch_update_reject",
];

fn ord_load(rng: &mut Rng) -> Ordering {
    *rng.pick(&[Ordering::SeqCst, Ordering::Relaxed, Ordering::Acquire])
}
fn ord_store(rng: &mut Rng) -> Ordering {
    *rng.pick(&[Ordering::SeqCst, Ordering::Relaxed])
}
fn ord_rmw(rng: &mut Rng) -> Ordering {
    *rng.pick(&[Ordering::SeqCst, Ordering::Relaxed, Ordering::Acquire])
}
fn ord_cas(rng: &mut Rng) -> (Ordering, Ordering) {
    *rng.pick(&[
        (Ordering::SeqCst, Ordering::SeqCst),
        (Ordering::SeqCst, Ordering::Relaxed),
        (Ordering::Acquire, Ordering::Acquire),
        (Ordering::Acquire, Ordering::Relaxed),
        (Ordering::Relaxed, Ordering::Relaxed),
    ])
}

// ------------------------------------------------------------------------------------------
// Private mutated copies of the sub-byte helpers (self-test only; never used for a verdict on
// mmtk-core).
// ------------------------------------------------------------------------------------------

struct Raw {
    p: *mut u8,
    lshift: u8,
    mask: u8,
    width: usize,
}

fn raw_of(win: &Win, a: Address) -> Raw {
    let idx = a.as_usize() >> win.region;
    let rel = (idx - (win.f0 >> win.region)) * win.width;
    Raw {
        p: unsafe { win.raw.add(MARGIN + rel / 8) },
        lshift: if win.width >= 8 { 0 } else { (rel % 8) as u8 },
        mask: if win.width >= 8 { 0xff } else { ((1u16 << win.width) - 1) as u8 },
        width: win.width,
    }
}

// ------------------------------------------------------------------------------------------
// The history
// ------------------------------------------------------------------------------------------

struct Last {
    desc: Cell<(usize, usize, usize, u64, u64)>,
}

#[allow(clippy::too_many_arguments)]
fn history<T: W>(
    win: &mut Win,
    nops: usize,
    rng: &mut Rng,
    rep: &mut Report,
    mutant: Mutant,
    last: &Last,
    counts: &mut [u64; 14],
) {
    let spec = win.spec;
    let mask = win.mask();
    let (bits, region, n) = (win.bits, win.region, win.n);
    let mut i = rng.usize_below(n);
    for _ in 0..nops {
        // choose the field: neighbours of the previous one half of the time, the window edges
        // (adjacent to the raw margins) sometimes, uniform otherwise
        i = match rng.below(16) {
            0..=3 => (i + 1) % n,
            4..=7 => (i + n - 1) % n,
            8 => 0,
            9 => n - 1,
            _ => rng.usize_below(n),
        };
        let intra = if rng.chance(1, 4) {
            rng.usize_below(1 << region)
        } else {
            0
        };
        let a = win.data_addr(i, intra);
        let cur = win.get(i);
        let val = match rng.below(8) {
            0 => 0,
            1 => mask,
            2 => 1,
            3 => cur,
            4 => (cur ^ 1) & mask,
            5 => cur.wrapping_add(1) & mask,
            _ => rng.next() & mask,
        };
        let op = rng.usize_below(OPS.len());
        last.desc.set((op, i, intra, cur, val));
        counts[op] += 1;
        // (returned value as u64, Ok/Err flag if the op returns a Result), expected likewise, new field value
        let got: Option<(u64, Option<bool>)>;
        let want: Option<(u64, Option<bool>)>;
        let newv: u64;
        let mut closure_arg_bad: Option<u64> = None;
        match op {
            0 => {
                let r = if mutant == Mutant::LoadNoMask && bits < 3 {
                    let r = raw_of(win, a);
                    (unsafe { *r.p } >> r.lshift) as u64
                } else {
                    unsafe { spec.load::<T>(a) }.to64()
                };
                got = Some((r, None));
                want = Some((cur, None));
                newv = cur;
            }
            1 => {
                let r = spec.load_atomic::<T>(a, ord_load(rng)).to64();
                got = Some((r, None));
                want = Some((cur, None));
                newv = cur;
            }
            2 => {
                match mutant {
                    Mutant::StoreWideMask if bits < 3 => unsafe {
                        let r = raw_of(win, a);
                        let m = ((((1u16 << (r.width + 1)) - 1) as u8) << r.lshift) as u8;
                        *r.p = (*r.p & !m) | ((val as u8) << r.lshift);
                    },
                    Mutant::StoreWrongShift if bits < 3 => unsafe {
                        let r = raw_of(win, a);
                        let sh = (r.lshift + r.width as u8) % 8;
                        let m = r.mask << sh;
                        *r.p = (*r.p & !m) | ((val as u8) << sh);
                    },
                    _ => unsafe { spec.store::<T>(a, T::from64(val)) },
                }
                got = None;
                want = None;
                newv = val;
            }
            3 => {
                if mutant == Mutant::StoreAtomicWideMask && bits >= 3 && bits < 6 {
                    // writes one byte too many
                    unsafe {
                        let r = raw_of(win, a);
                        for k in 0..win.width / 8 {
                            *r.p.add(k) = (val >> (8 * k)) as u8;
                        }
                        *r.p.add(win.width / 8) = 0;
                    }
                } else {
                    spec.store_atomic::<T>(a, T::from64(val), ord_store(rng));
                }
                got = None;
                want = None;
                newv = val;
            }
            4 => {
                unsafe { spec.set_zero(a) };
                got = None;
                want = None;
                newv = 0;
            }
            5 => {
                spec.set_zero_atomic(a, ord_store(rng));
                got = None;
                want = None;
                newv = 0;
            }
            6 | 7 => {
                // 6: old == current (must succeed); 7: old != current (must fail).  Both `old`
                // and `new` fit the width.
                let old = if op == 6 {
                    cur
                } else if mask == 1 {
                    cur ^ 1
                } else {
                    let mut o = rng.next() & mask;
                    if o == cur {
                        o = cur.wrapping_add(1) & mask;
                    }
                    o
                };
                let (so, fo) = ord_cas(rng);
                let r = spec.compare_exchange_atomic::<T>(a, T::from64(old), T::from64(val), so, fo);
                got = Some(match r {
                    Ok(v) => (v.to64(), Some(true)),
                    Err(v) => (v.to64(), Some(false)),
                });
                want = Some((cur, Some(old == cur)));
                newv = if old == cur { val } else { cur };
            }
            8 => {
                let r = spec.fetch_add_atomic::<T>(a, T::from64(val), ord_rmw(rng)).to64();
                let nv = cur.wrapping_add(val) & mask;
                got = Some((if mutant == Mutant::FetchAddReturnsNew { nv } else { r }, None));
                want = Some((cur, None));
                newv = nv;
            }
            9 => {
                let r = spec.fetch_sub_atomic::<T>(a, T::from64(val), ord_rmw(rng)).to64();
                got = Some((r, None));
                want = Some((cur, None));
                newv = cur.wrapping_sub(val) & mask;
            }
            10 => {
                let r = spec.fetch_and_atomic::<T>(a, T::from64(val), ord_rmw(rng)).to64();
                got = Some((r, None));
                want = Some((cur, None));
                newv = cur & val;
            }
            11 => {
                let r = spec.fetch_or_atomic::<T>(a, T::from64(val), ord_rmw(rng)).to64();
                got = Some((r, None));
                want = Some((cur, None));
                newv = cur | val;
            }
            _ => {
                let accept = op == 12;
                let seen = Cell::new(u64::MAX);
                let calls = Cell::new(0u32);
                let seen_r = &seen;
                let calls_r = &calls;
                let (so, fo) = ord_cas(rng);
                let r = spec.fetch_update_atomic::<T, _>(a, so, fo, move |x: T| {
                    seen_r.set(x.to64());
                    calls_r.set(calls_r.get() + 1);
                    if accept {
                        Some(T::from64(val))
                    } else {
                        None
                    }
                });
                if calls.get() == 0 || seen.get() != cur {
                    closure_arg_bad = Some(seen.get());
                }
                got = Some(match r {
                    Ok(v) => (v.to64(), Some(true)),
                    Err(v) => (v.to64(), Some(false)),
                });
                want = Some((cur, Some(accept)));
                newv = if accept { val } else { cur };
            }
        }
        win.put(i, newv);

        let pc = win.posclass(i);
        let outcome = match want {
            Some((_, Some(true))) => 1,
            Some((_, Some(false))) => 2,
            _ => 0,
        };
        // Every field shares its 8-byte word (sub-word widths) or at least a cache line with its
        // neighbours and the whole window is compared, so every case exercises isolation.
        rep.eval(mix(mix(bits as u64, region as u64), mix(op as u64, pc | (outcome << 8))));

        let describe = |win: &Win| {
            format!(
                "spec{{bits=2^{},region=2^{},offset={:#x}}} T={} op={} data_addr={:#x} (field {} of window, intra-region offset {}, bit-in-byte {}) arg={:#x} field-before={:#x}",
                bits,
                region,
                spec.offset,
                T::NAME,
                OPS[op],
                a.as_usize(),
                i,
                intra,
                (i * win.width) % 8,
                val,
                cur
            )
        };
        if got != want {
            rep.violation(
                format!("{}:return:bits={}:region={}", OPS[op], bits, region),
                format!("{} expected return {:x?} got {:x?}", describe(win), want, got),
            );
        }
        if let Some(s) = closure_arg_bad {
            rep.violation(
                format!("{}:closure-arg:bits={}:region={}", OPS[op], bits, region),
                format!("{} closure saw {:#x}", describe(win), s),
            );
        }
        if win.mem() != &win.img[..] {
            // classify: own field wrong, or some other field / margin byte changed
            let mem = win.mem();
            let mut own = false;
            let mut other = false;
            let mut first = None;
            for (b, (x, y)) in mem.iter().zip(win.img.iter()).enumerate() {
                let d = x ^ y;
                if d == 0 {
                    continue;
                }
                first.get_or_insert(b);
                for k in 0..8 {
                    if d & (1 << k) != 0 {
                        let inside = b >= MARGIN && b < win.len - MARGIN;
                        if inside && ((b - MARGIN) * 8 + k) / win.width == i {
                            own = true;
                        } else {
                            other = true;
                        }
                    }
                }
            }
            let b = first.unwrap();
            let lo = b.saturating_sub(4);
            let hi = std::cmp::min(win.len, b + 12);
            let kind = if other { "neighbour-changed" } else { "own-field-wrong" };
            let _ = own;
            rep.violation(
                format!("{}:{}:bits={}:region={}", OPS[op], kind, bits, region),
                format!(
                    "{} expected-new-field={:#x}; first differing window byte {} (field byte offset {}): memory[{}..{}]={:02x?} model={:02x?}",
                    describe(win),
                    newv,
                    b,
                    b as isize - MARGIN as isize,
                    lo,
                    hi,
                    &mem[lo..hi],
                    &win.img[lo..hi]
                ),
            );
            // resynchronise so one defect does not cascade
            let m: Vec<u8> = mem.to_vec();
            win.img.copy_from_slice(&m);
        }
        if rep.want_sample() && op >= 6 && bits < 3 {
            rep.sample(J::obj(vec![
                ("bits", J::i(bits as u64)),
                ("region", J::i(region as u64)),
                ("op", J::s(OPS[op])),
                ("field", J::i(i as u64)),
                ("bit_in_byte", J::i(((i * win.width) % 8) as u64)),
                ("before", J::i(cur)),
                ("arg", J::i(val)),
                ("after", J::i(newv)),
            ]));
        }
    }
}

fn run_history(
    win: &mut Win,
    nops: usize,
    rng: &mut Rng,
    rep: &mut Report,
    mutant: Mutant,
    use_usize: bool,
) -> [u64; 14] {
    let last = Last {
        desc: Cell::new((0, 0, 0, 0, 0)),
    };
    let mut counts = [0u64; 14];
    let bits = win.bits;
    let region = win.region;
    let r = catch_unwind(AssertUnwindSafe(|| match bits {
        0..=3 => history::<u8>(win, nops, rng, rep, mutant, &last, &mut counts),
        4 => history::<u16>(win, nops, rng, rep, mutant, &last, &mut counts),
        5 => history::<u32>(win, nops, rng, rep, mutant, &last, &mut counts),
        _ => {
            if use_usize {
                history::<usize>(win, nops, rng, rep, mutant, &last, &mut counts)
            } else {
                history::<u64>(win, nops, rng, rep, mutant, &last, &mut counts)
            }
        }
    }));
    if let Err(e) = r {
        let (op, i, intra, cur, val) = last.desc.get();
        let msg = e
            .downcast_ref::<String>()
            .cloned()
            .or_else(|| e.downcast_ref::<&str>().map(|s| s.to_string()))
            .unwrap_or_default();
        rep.violation(
            format!("{}:panic:bits={}:region={}", OPS[op], bits, region),
            format!(
                "panic {:?} in op {} field {} intra {} field-before {:#x} arg {:#x}",
                msg, OPS[op], i, intra, cur, val
            ),
        );
        // the model may be out of sync now
        let m: Vec<u8> = win.mem().to_vec();
        win.img.copy_from_slice(&m);
    }
    counts
}

/// Run the checker against private mutants; every one must be flagged.
fn selftest(rng: &mut Rng, rep: &mut Report, slot: &mut usize) {
    let cases: [(Mutant, usize); 6] = [
        (Mutant::StoreWideMask, 0),
        (Mutant::StoreWrongShift, 1),
        (Mutant::LoadNoMask, 2),
        (Mutant::FetchAddReturnsNew, 1),
        (Mutant::FetchAddReturnsNew, 5),
        (Mutant::StoreAtomicWideMask, 4),
    ];
    let mut caught = 0;
    for (m, bits) in cases {
        let mut scratch = Report::new("selftest");
        let Some(mut win) = Win::new(bits, 3, *slot, rng, &mut scratch) else {
            rep.inconclusive("self-test window could not be mapped");
            return;
        };
        *slot += 1;
        run_history(&mut win, 3000, rng, &mut scratch, m, false);
        let expect_sig = match m {
            Mutant::StoreWideMask | Mutant::StoreWrongShift => "store:neighbour-changed",
            Mutant::StoreAtomicWideMask => "store_atomic:neighbour-changed",
            Mutant::LoadNoMask => "load:return",
            Mutant::FetchAddReturnsNew => "fetch_add:return",
            Mutant::None => unreachable!(),
        };
        if scratch.violations.iter().any(|(s, _)| s.starts_with(expect_sig)) {
            caught += 1;
        } else {
            rep.inconclusive(format!(
                "oracle self-test: mutant {:?} (bits=2^{}) was NOT flagged with {}",
                m, bits, expect_sig
            ));
        }
    }
    rep.count("selftest_mutants_total", cases.len() as u64);
    rep.count("selftest_mutants_caught", caught);
}

/// Orderings that the std atomics counterpart of each operation accepts must be accepted (no
/// panic) and behave the same, for every width.
fn ordering_subtest(rng: &mut Rng, rep: &mut Report, slot: &mut usize) {
    use Ordering::*;
    let prev_hook = std::panic::take_hook();
    std::panic::set_hook(Box::new(|_| {}));
    for bits in 0..=6usize {
        let Some(mut win) = Win::new(bits, 3, *slot, rng, rep) else {
            continue;
        };
        *slot += 1;
        macro_rules! go {
            ($t:ty) => {
                ordering_cases::<$t>(&mut win, rng, rep)
            };
        }
        match bits {
            0..=3 => go!(u8),
            4 => go!(u16),
            5 => go!(u32),
            _ => go!(u64),
        }
    }
    std::panic::set_hook(prev_hook);

    fn ordering_cases<T: W>(win: &mut Win, rng: &mut Rng, rep: &mut Report) {
        let spec = win.spec;
        let bits = win.bits;
        let mask = win.mask();
        let all = [Relaxed, Acquire, Release, AcqRel, SeqCst];
        let loads = [Relaxed, Acquire, SeqCst];
        let stores = [Relaxed, Release, SeqCst];
        // (name, set/success order, fetch/failure order)
        let mut cases: Vec<(&'static str, Ordering, Ordering)> = vec![];
        for o in loads {
            cases.push(("load_atomic", o, o));
        }
        for o in stores {
            cases.push(("store_atomic", o, o));
            cases.push(("set_zero_atomic", o, o));
        }
        for o in all {
            cases.push(("fetch_add", o, o));
            cases.push(("fetch_sub", o, o));
            cases.push(("fetch_and", o, o));
            cases.push(("fetch_or", o, o));
            for f in loads {
                cases.push(("cas_success", o, f));
                cases.push(("cas_failure", o, f));
                cases.push(("fetch_update_accept", o, f));
                cases.push(("fetch_update_reject", o, f));
            }
        }
        for (name, so, fo) in cases {
            for rep_i in 0..4 {
                let i = rng.usize_below(win.n);
                let a = win.data_addr(i, 0);
                let cur = win.get(i);
                let val = if rep_i == 0 { mask } else { rng.next() & mask };
                let other = if mask == 1 { cur ^ 1 } else { cur.wrapping_add(1 + rng.below(mask - 1)) & mask };
                let r = catch_unwind(AssertUnwindSafe(|| -> (Option<u64>, u64, u64) {
                    match name {
                        "load_atomic" => (Some(spec.load_atomic::<T>(a, so).to64()), cur, cur),
                        "store_atomic" => {
                            spec.store_atomic::<T>(a, T::from64(val), so);
                            (None, 0, val)
                        }
                        "set_zero_atomic" => {
                            spec.set_zero_atomic(a, so);
                            (None, 0, 0)
                        }
                        "fetch_add" => (
                            Some(spec.fetch_add_atomic::<T>(a, T::from64(val), so).to64()),
                            cur,
                            cur.wrapping_add(val) & mask,
                        ),
                        "fetch_sub" => (
                            Some(spec.fetch_sub_atomic::<T>(a, T::from64(val), so).to64()),
                            cur,
                            cur.wrapping_sub(val) & mask,
                        ),
                        "fetch_and" => (
                            Some(spec.fetch_and_atomic::<T>(a, T::from64(val), so).to64()),
                            cur,
                            cur & val,
                        ),
                        "fetch_or" => (
                            Some(spec.fetch_or_atomic::<T>(a, T::from64(val), so).to64()),
                            cur,
                            cur | val,
                        ),
                        "cas_success" | "cas_failure" => {
                            let old = if name == "cas_success" { cur } else { other };
                            let r = spec.compare_exchange_atomic::<T>(a, T::from64(old), T::from64(val), so, fo);
                            let ok = old == cur;
                            let enc = |r: Result<T, T>| match r {
                                Ok(v) => v.to64() << 1 | 1,
                                Err(v) => v.to64() << 1,
                            };
                            (
                                Some(enc(r) & (mask << 1 | 1)),
                                (cur << 1 | ok as u64) & (mask << 1 | 1),
                                if ok { val } else { cur },
                            )
                        }
                        _ => {
                            let accept = name == "fetch_update_accept";
                            let r = spec.fetch_update_atomic::<T, _>(a, so, fo, move |_x: T| {
                                if accept {
                                    Some(T::from64(val))
                                } else {
                                    None
                                }
                            });
                            let enc = match r {
                                Ok(v) => v.to64() << 1 | 1,
                                Err(v) => v.to64() << 1,
                            };
                            (
                                Some(enc & (mask << 1 | 1)),
                                (cur << 1 | accept as u64) & (mask << 1 | 1),
                                if accept { val } else { cur },
                            )
                        }
                    }
                }));
                rep.eval(mix(
                    mix(0x0D, bits as u64),
                    mix(name.len() as u64 ^ (name.as_bytes()[6] as u64) << 8, so as u64 * 8 + fo as u64),
                ));
                rep.count("ordering_cases", 1);
                match r {
                    Err(e) => {
                        let msg = e
                            .downcast_ref::<String>()
                            .cloned()
                            .or_else(|| e.downcast_ref::<&str>().map(|s| s.to_string()))
                            .unwrap_or_default();
                        // the panic depends on the first ordering only; one signature per
                        // (operation, ordering, width class)
                        let opname = if name.starts_with("cas_") {
                            "compare_exchange_atomic"
                        } else if name.starts_with("fetch_update") {
                            "fetch_update_atomic"
                        } else {
                            name
                        };
                        let sig = format!(
                            "order-panic:{}:{:?}:{}",
                            opname,
                            so,
                            if bits < 3 { "sub-byte-width" } else { "byte-or-wider" }
                        );
                        rep.count("ordering_panics", 1);
                        // Not a verdict: C20 states what each operation reads/writes/returns, not which
                        // memory orderings it accepts.  Recorded as an observation only.
                        if !rep.notes.iter().any(|n| n.starts_with(&sig)) {
                        rep.note(
                            format!("{} (observation outside the property): {}", sig,
                            format!(
                                "spec{{bits=2^{},region=2^3}} T={} {}(data_addr={:#x}, arg={:#x}, order={:?}, second-order={:?}) panicked: {:?} (the std atomic counterpart accepts this ordering)",
                                bits, T::NAME, name, a.as_usize(), val, so, fo, msg
                            )),
                        );
                        }
                        let m: Vec<u8> = win.mem().to_vec();
                        win.img.copy_from_slice(&m);
                    }
                    Ok((ret, want_ret, newv)) => {
                        win.put(i, newv);
                        if ret.is_some() && ret != Some(want_ret) {
                            rep.violation(
                                format!("order:{}:return:bits={}", name, bits),
                                format!("order {:?}/{:?} field {} before {:#x} arg {:#x}: got {:x?} want {:#x}", so, fo, i, cur, val, ret, want_ret),
                            );
                        }
                        if win.mem() != &win.img[..] {
                            rep.violation(
                                format!("order:{}:window:bits={}", name, bits),
                                format!("order {:?}/{:?} field {} before {:#x} arg {:#x}: window differs from model", so, fo, i, cur, val),
                            );
                            let m: Vec<u8> = win.mem().to_vec();
                            win.img.copy_from_slice(&m);
                        }
                    }
                }
            }
        }
    }
}


// ------------------------------------------------------------------------------------------
// Concurrent phase: independence of neighbouring fields under real threads.
// ------------------------------------------------------------------------------------------

struct ConcOut {
    ops: u64,
    spurious_cas: u64,
    closure_retries: u64,
    violations: Vec<(String, String)>,
    keys: Vec<u64>,
    finals: Vec<(usize, u64)>,
}

/// `threads` real threads work on one window.  Field `i` is *owned* by thread `i % threads`:
/// only its owner ever operates on it, and only with the atomic accessors.  Neighbouring fields
/// (which share a metadata byte for sub-byte widths and a word otherwise) therefore change
/// concurrently, but every field has a single sequential history, so each return value is
/// determined by the owner's private model.  An atomic accessor that reads-modifies-writes the
/// containing byte non-atomically, or that touches bits outside its field, makes a neighbour's
/// owner observe a value it never wrote.  A sub-byte compare-exchange may fail although the field
/// matched (the containing byte changed); that is counted, not judged, but the value it reports
/// must still be the field's.
fn concurrent_owner_phase<T: W>(win: &mut Win, threads: usize, nops: usize, seed: u64, rep: &mut Report) {
    let spec = win.spec;
    let mask = win.mask();
    let (bits, region, n, f0) = (win.bits, win.region, win.n, win.f0);
    let init: Vec<u64> = (0..n).map(|i| win.get(i)).collect();
    let init = &init;
    let outs: Vec<ConcOut> = std::thread::scope(|s| {
        let hs: Vec<_> = (0..threads)
            .map(|t| {
                s.spawn(move || {
                    let mut rng = Rng::new(mix(seed, t as u64 + 1));
                    let mine: Vec<usize> = (0..n).filter(|i| i % threads == t).collect();
                    let mut model: Vec<u64> = mine.iter().map(|&i| init[i]).collect();
                    let mut out = ConcOut { ops: 0, spurious_cas: 0, closure_retries: 0, violations: vec![], keys: vec![], finals: vec![] };
                    // a few hot fields packed into the same bytes as the other threads' hot fields
                    let hot = std::cmp::min(mine.len(), 4);
                    for _ in 0..nops {
                        let k = if rng.chance(3, 4) { rng.usize_below(hot) } else { rng.usize_below(mine.len()) };
                        let i = mine[k];
                        let a = addr(f0 + (i << region));
                        let cur = model[k];
                        let val = match rng.below(6) {
                            0 => 0,
                            1 => mask,
                            2 => (cur ^ 1) & mask,
                            3 => cur.wrapping_add(1) & mask,
                            _ => rng.next() & mask,
                        };
                        let op = rng.usize_below(10);
                        out.ops += 1;
                        let mut bad = |name: &str, what: String| {
                            if out.violations.len() < 8 {
                                out.violations.push((
                                    format!("concurrent:{}:bits={}:region={}", name, bits, region),
                                    format!("thread {} of {} (owner of fields i%{}=={}) field {} (bit-in-byte {}) data_addr={:#x} owner's value before={:#x} arg={:#x}: {}",
                                        t, threads, threads, t, i, (i * (1usize << bits)) % 8, a.as_usize(), cur, val, what),
                                ));
                            }
                        };
                        let newv;
                        match op {
                            0 => {
                                let r = spec.load_atomic::<T>(a, Ordering::SeqCst).to64();
                                if r != cur { bad("load_atomic:return", format!("returned {:#x}", r)); }
                                newv = cur;
                            }
                            1 => { spec.store_atomic::<T>(a, T::from64(val), Ordering::SeqCst); newv = val; }
                            2 => { spec.set_zero_atomic(a, Ordering::SeqCst); newv = 0; }
                            3 => {
                                let r = spec.compare_exchange_atomic::<T>(a, T::from64(cur), T::from64(val), Ordering::SeqCst, Ordering::SeqCst);
                                match r {
                                    Ok(v) => { if v.to64() != cur { bad("cas_success:return", format!("Ok({:#x})", v.to64())); } newv = val; }
                                    Err(v) => {
                                        // only legal as a byte-level failure of a sub-byte field
                                        if bits >= 3 { bad("cas_success:failed", format!("Err({:#x}) although the field held the expected value and nobody else writes it", v.to64())); }
                                        else if v.to64() != cur { bad("cas_success:return", format!("Err({:#x})", v.to64())); }
                                        out.spurious_cas += 1;
                                        newv = cur;
                                    }
                                }
                            }
                            4 => {
                                let old = if mask == 1 { cur ^ 1 } else { let o = rng.next() & mask; if o == cur { cur.wrapping_add(1) & mask } else { o } };
                                let r = spec.compare_exchange_atomic::<T>(a, T::from64(old), T::from64(val), Ordering::SeqCst, Ordering::SeqCst);
                                match r {
                                    Ok(v) => bad("cas_failure:succeeded", format!("Ok({:#x}) with expected-old {:#x}", v.to64(), old)),
                                    Err(v) => { if v.to64() != cur { bad("cas_failure:return", format!("Err({:#x})", v.to64())); } }
                                }
                                newv = cur;
                            }
                            5 => {
                                let r = spec.fetch_add_atomic::<T>(a, T::from64(val), Ordering::SeqCst).to64();
                                if r != cur { bad("fetch_add:return", format!("returned {:#x}", r)); }
                                newv = cur.wrapping_add(val) & mask;
                            }
                            6 => {
                                let r = spec.fetch_sub_atomic::<T>(a, T::from64(val), Ordering::SeqCst).to64();
                                if r != cur { bad("fetch_sub:return", format!("returned {:#x}", r)); }
                                newv = cur.wrapping_sub(val) & mask;
                            }
                            7 => {
                                let r = spec.fetch_and_atomic::<T>(a, T::from64(val), Ordering::SeqCst).to64();
                                if r != cur { bad("fetch_and:return", format!("returned {:#x}", r)); }
                                newv = cur & val;
                            }
                            8 => {
                                let r = spec.fetch_or_atomic::<T>(a, T::from64(val), Ordering::SeqCst).to64();
                                if r != cur { bad("fetch_or:return", format!("returned {:#x}", r)); }
                                newv = cur | val;
                            }
                            _ => {
                                let calls = Cell::new(0u32);
                                let wrong = Cell::new(None);
                                let (calls_r, wrong_r) = (&calls, &wrong);
                                let r = spec.fetch_update_atomic::<T, _>(a, Ordering::SeqCst, Ordering::SeqCst, move |x: T| {
                                    calls_r.set(calls_r.get() + 1);
                                    if x.to64() != cur { wrong_r.set(Some(x.to64())); }
                                    Some(T::from64(val))
                                });
                                if let Some(w) = wrong.get() { bad("fetch_update:closure-arg", format!("closure saw {:#x}", w)); }
                                if calls.get() > 1 { out.closure_retries += (calls.get() - 1) as u64; }
                                match r {
                                    Ok(v) => { if v.to64() != cur { bad("fetch_update:return", format!("Ok({:#x})", v.to64())); } }
                                    Err(v) => bad("fetch_update:rejected", format!("Err({:#x}) although the closure accepted", v.to64())),
                                }
                                newv = val;
                            }
                        }
                        model[k] = newv;
                        if out.keys.len() < 4096 {
                            out.keys.push(mix(mix(0xC0C0, bits as u64 * 64 + region as u64), mix(op as u64, ((i * (1usize << bits)) % 8) as u64 | (threads as u64) << 8)));
                        }
                    }
                    out.finals = mine.iter().cloned().zip(model.iter().cloned()).collect();
                    out
                })
            })
            .collect();
        hs.into_iter().map(|h| h.join().expect("concurrent phase thread panicked")).collect()
    });
    for o in outs {
        rep.evaluations += o.ops;
        for k in o.keys { rep.key(k); }
        rep.count("concurrent_ops", o.ops);
        rep.count("concurrent_subbyte_cas_byte_level_failures", o.spurious_cas);
        rep.count("concurrent_fetch_update_closure_retries", o.closure_retries);
        for (s, d) in o.violations { rep.violation(s, d); }
        for (i, v) in o.finals { win.put(i, v); }
    }
    rep.count("concurrent_windows", 1);
    // quiescent: the whole raw window (all fields of all owners + margins) equals the merged model
    if win.mem() != &win.img[..] {
        let mem = win.mem();
        let b = mem.iter().zip(win.img.iter()).position(|(x, y)| x != y).unwrap();
        let where_ = if b < MARGIN || b >= win.len - MARGIN { "margin-changed" } else { "final-field-value" };
        rep.violation(
            format!("concurrent:{}:bits={}:region={}", where_, bits, region),
            format!("after {} threads x {} atomic ops on disjoint owned fields, window byte {} (field byte offset {}) is {:#04x}, the owners' models give {:#04x}",
                threads, nops, b, b as isize - MARGIN as isize, mem[b], win.img[b]),
        );
        let m: Vec<u8> = mem.to_vec();
        win.img.copy_from_slice(&m);
    }
}


/// Observer phase: one writer keeps a few neighbouring fields *odd* at all times using the atomic
/// accessors only (every operation maps an odd value to an odd value), while observer threads
/// read the very same fields with `load_atomic` and value-preserving read-modify-writes
/// (`fetch_or 0`, `fetch_and all-ones`, a rejecting `fetch_update`, a failing compare-exchange).
/// An atomic accessor that goes through an intermediate value (clear-then-set, two-step updates)
/// lets an observer see an even value that was never the field's value.
fn concurrent_observer_phase<T: W>(win: &mut Win, observers: usize, nops: usize, seed: u64, rep: &mut Report) {
    use std::sync::atomic::{AtomicBool, AtomicU64};
    let spec = win.spec;
    let mask = win.mask();
    let (bits, region, n, f0) = (win.bits, win.region, win.n, win.f0);
    const NF: usize = 8;
    let first = n / 2 - NF / 2;
    // start odd
    for i in first..first + NF {
        let v = win.get(i) | 1;
        spec.store_atomic::<T>(addr(f0 + (i << region)), T::from64(v), Ordering::SeqCst);
        win.put(i, v);
    }
    let stop = AtomicBool::new(false);
    let reads = AtomicU64::new(0);
    let distinct = std::sync::Mutex::new(std::collections::HashSet::<u64>::new());
    let bad: std::sync::Mutex<Vec<(String, String)>> = std::sync::Mutex::new(vec![]);
    let (stop_r, reads_r, distinct_r, bad_r) = (&stop, &reads, &distinct, &bad);
    let finals: Vec<u64> = std::thread::scope(|s| {
        for o in 0..observers {
            s.spawn(move || {
                let mut rng = Rng::new(mix(seed, 100 + o as u64));
                let mut seen = std::collections::HashSet::new();
                let mut cnt = 0u64;
                while !stop_r.load(Ordering::Relaxed) {
                    let i = first + rng.usize_below(NF);
                    let a = addr(f0 + (i << region));
                    let how = rng.usize_below(5);
                    let v = match how {
                        0 | 1 => spec.load_atomic::<T>(a, Ordering::SeqCst).to64(),
                        2 => spec.fetch_or_atomic::<T>(a, T::from64(0), Ordering::SeqCst).to64(),
                        3 => spec.fetch_and_atomic::<T>(a, T::from64(mask), Ordering::SeqCst).to64(),
                        _ => match spec.fetch_update_atomic::<T, _>(a, Ordering::SeqCst, Ordering::SeqCst, |_x: T| None) {
                            Ok(v) => v.to64(),
                            Err(v) => v.to64(),
                        },
                    };
                    cnt += 1;
                    if seen.len() < 64 {
                        seen.insert(v);
                    }
                    if v & 1 == 0 || v & !mask != 0 {
                        let mut b = bad_r.lock().unwrap();
                        if b.len() < 6 {
                            b.push((
                                format!("concurrent:observer-saw-a-value-the-field-never-held:bits={}:region={}", bits, region),
                                format!("observer {} read {:#x} from field {} (data_addr={:#x}, bit-in-byte {}) with {}; the only writer keeps the field odd with atomic accessors (store_atomic, compare_exchange, fetch_update, fetch_or, fetch_and with odd operands, fetch_add/sub of even values)",
                                    o, v, i, a.as_usize(), (i * (1usize << bits)) % 8, ["load_atomic", "load_atomic", "fetch_or(0)", "fetch_and(all-ones)", "fetch_update(|_| None)"][how]),
                            ));
                        }
                    }
                }
                reads_r.fetch_add(cnt, Ordering::Relaxed);
                distinct_r.lock().unwrap().extend(seen);
            });
        }
        let w = s.spawn(move || {
            let mut rng = Rng::new(mix(seed, 7));
            let mut model: Vec<u64> = (first..first + NF).map(|i| spec.load_atomic::<T>(addr(f0 + (i << region)), Ordering::SeqCst).to64()).collect();
            for _ in 0..nops {
                let k = rng.usize_below(NF);
                let a = addr(f0 + ((first + k) << region));
                let cur = model[k];
                let odd = (rng.next() & mask) | 1;
                let even = rng.next() & mask & !1;
                let newv = match rng.usize_below(7) {
                    0 | 1 => {
                        spec.store_atomic::<T>(a, T::from64(odd), Ordering::SeqCst);
                        odd
                    }
                    2 => match spec.compare_exchange_atomic::<T>(a, T::from64(cur), T::from64(odd), Ordering::SeqCst, Ordering::SeqCst) {
                        Ok(_) => odd,
                        Err(_) => cur,
                    },
                    3 => {
                        let _ = spec.fetch_update_atomic::<T, _>(a, Ordering::SeqCst, Ordering::SeqCst, |_x: T| Some(T::from64(odd)));
                        odd
                    }
                    4 => {
                        spec.fetch_or_atomic::<T>(a, T::from64(odd), Ordering::SeqCst);
                        cur | odd
                    }
                    5 => {
                        spec.fetch_and_atomic::<T>(a, T::from64(odd), Ordering::SeqCst);
                        cur & odd
                    }
                    _ => {
                        if rng.chance(1, 2) {
                            spec.fetch_add_atomic::<T>(a, T::from64(even), Ordering::SeqCst);
                            cur.wrapping_add(even) & mask
                        } else {
                            spec.fetch_sub_atomic::<T>(a, T::from64(even), Ordering::SeqCst);
                            cur.wrapping_sub(even) & mask
                        }
                    }
                };
                model[k] = newv;
            }
            stop_r.store(true, Ordering::SeqCst);
            model
        });
        let m = w.join();
        stop_r.store(true, Ordering::SeqCst);
        m.expect("observer phase writer panicked")
    });
    for (k, v) in finals.iter().enumerate() {
        win.put(first + k, *v);
    }
    for (sg, d) in bad.into_inner().unwrap() {
        rep.violation(sg, d);
    }
    let r = reads.load(Ordering::Relaxed);
    rep.evaluations += r + nops as u64;
    rep.count("observer_reads", r);
    rep.count("observer_writer_ops", nops as u64);
    rep.count("observer_distinct_values_seen", distinct.into_inner().unwrap().len() as u64);
    rep.key(mix(0x0B5E, mix(bits as u64, observers as u64)));
    if win.mem() != &win.img[..] {
        rep.violation(
            format!("concurrent:observer-phase:final-window-differs:bits={}:region={}", bits, region),
            "after the observer phase the raw window differs from the writer's model (observers only use value-preserving operations)".to_string(),
        );
        let m: Vec<u8> = win.mem().to_vec();
        win.img.copy_from_slice(&m);
    }
}

fn concurrent_subtest(args: &Args, rng: &mut Rng, rep: &mut Report, slot: &mut usize) {
    let nops = args.usize_or("conc-ops", if args.thorough() { 2_000_000 } else { 150_000 });
    for bits in 0..=6usize {
        for &region in &[3usize, 12] {
            let Some(mut win) = Win::new(bits, region, *slot, rng, rep) else {
                *slot += 1;
                continue;
            };
            *slot += 1;
            for &threads in &[2usize, 3, 4] {
                let seed = rng.next();
                let r = catch_unwind(AssertUnwindSafe(|| match bits {
                    0..=3 => concurrent_owner_phase::<u8>(&mut win, threads, nops, seed, rep),
                    4 => concurrent_owner_phase::<u16>(&mut win, threads, nops, seed, rep),
                    5 => concurrent_owner_phase::<u32>(&mut win, threads, nops, seed, rep),
                    _ => concurrent_owner_phase::<u64>(&mut win, threads, nops, seed, rep),
                }));
                if r.is_err() {
                    rep.violation(format!("concurrent:panic:bits={}:region={}", bits, region), "a thread of the concurrent phase panicked inside a side-metadata accessor".to_string());
                    let m: Vec<u8> = win.mem().to_vec();
                    win.img.copy_from_slice(&m);
                }
            }
            for &observers in &[1usize, 3] {
                let seed = rng.next();
                let r = catch_unwind(AssertUnwindSafe(|| match bits {
                    0..=3 => concurrent_observer_phase::<u8>(&mut win, observers, nops, seed, rep),
                    4 => concurrent_observer_phase::<u16>(&mut win, observers, nops, seed, rep),
                    5 => concurrent_observer_phase::<u32>(&mut win, observers, nops, seed, rep),
                    _ => concurrent_observer_phase::<u64>(&mut win, observers, nops, seed, rep),
                }));
                if r.is_err() {
                    rep.violation(format!("concurrent:observer-panic:bits={}:region={}", bits, region), "a thread of the observer phase panicked inside a side-metadata accessor".to_string());
                    let m: Vec<u8> = win.mem().to_vec();
                    win.img.copy_from_slice(&m);
                }
            }
        }
    }
}

pub fn run(args: &Args, rep: &mut Report) {
    let mut rng = Rng::new(args.seed() ^ 0xC20);
    if !init(rep) {
        return;
    }
    let mut slot = 1usize;
    selftest(&mut rng, rep, &mut slot);
    let nops = args.usize_or("ops", if args.thorough() { 40_000_000 } else { 1_500_000 });
    let only_bits = args.get("bits").map(|s| s.parse::<usize>().unwrap());
    let mut totals = [0u64; 14];
    let mut configs = 0;
    for bits in 0..=6usize {
        if only_bits.is_some() && only_bits != Some(bits) {
            continue;
        }
        for &region in REGIONS.iter() {
            let Some(mut win) = Win::new(bits, region, slot, &mut rng, rep) else {
                slot += 1;
                continue;
            };
            slot += 1;
            configs += 1;
            let c = if bits == 6 {
                let c1 = run_history(&mut win, nops / 2, &mut rng, rep, Mutant::None, false);
                let c2 = run_history(&mut win, nops / 2, &mut rng, rep, Mutant::None, true);
                let mut c = c1;
                for k in 0..14 {
                    c[k] += c2[k];
                }
                c
            } else {
                run_history(&mut win, nops, &mut rng, rep, Mutant::None, false)
            };
            for k in 0..14 {
                totals[k] += c[k];
            }
            // final whole-window comparison is implied by the per-op comparison
        }
    }
    for k in 0..14 {
        rep.count(&format!("op_{}", OPS[k]), totals[k]);
    }
    rep.count("configs", configs);
    rep.count("ops_per_config", nops as u64);
    ordering_subtest(&mut rng, rep, &mut slot);
    if !args.miri() {
        concurrent_subtest(args, &mut rng, rep, &mut slot);
    }
    rep.note("compare_exchange_atomic with an `old` value that does not fit the field width is left out (no debug_assert covers `old`; legality unclear)");
    rep.note("set_raw_byte_atomic/load_raw_byte/load_raw_word are not part of the property and are not exercised");
    rep.note("initialize_side_metadata::<SideVM>() cannot reserve its range (side forwarding pointer spec needs 2^47 bytes); HeaderVM is used");
}
