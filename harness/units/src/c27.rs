//! C27: a raw-memory free list can grow to its configured maximum.
//!
//! Every case runs in a child process (`units C27 --case <params>`): the list is built the way
//! `Map64::create_parent_freelist` builds it (chunk-aligned `base` inside a quarantined PROT_NONE
//! range, `limit = base + size_in_pages(units, heads)` pages, `MmapStrategy::RAW_MEMORY_FREELIST`),
//! grown by `grow_freelist` in steps that respect the grain contract of `grow_list_by_blocks`
//! (every cumulative size is <= grain, or the old and the new size are multiples of the grain)
//! until `units` is reached, and then completely allocated.
//!
//! Expected: every `grow_freelist` up to the maximum returns true and does not panic; after every
//! step nothing at/after `limit` has become accessible (/proc/self/maps: the guard range behind
//! `limit` is still PROT_NONE) ; every unit of the grown capacity is handed out by `alloc`
//! exactly once.
use crate::rawarena::{Arena, PAGE};
use mmtk::util::os::MmapStrategy;
use mmtk::verif::{FreeList, RawMemoryFreeList, FREELIST_FAILURE};
use std::io::Write;
use vcommon::{mix, Args, Report, Rng, J};

#[derive(Clone, Debug)]
struct Case {
    units: i32,
    heads: i32,
    /// 0 = RawMemoryFreeList::default_block_size
    ppb: i32,
    /// 0 = `units` (what Map64::create_freelist passes: one grain covers the whole list)
    grain: i32,
    /// "one" | "fine" | "rand"
    steps: String,
    /// allocate everything after every step ("each") or only at the end ("end")
    alloc: String,
    /// allocation size used to take everything: 1 or the grain
    asz: i32,
    seed: u64,
}

impl Case {
    fn encode(&self) -> String {
        format!(
            "units={},heads={},ppb={},grain={},steps={},alloc={},asz={},seed={}",
            self.units, self.heads, self.ppb, self.grain, self.steps, self.alloc, self.asz, self.seed
        )
    }
    fn decode(s: &str) -> Option<Case> {
        let mut c = Case {
            units: 0,
            heads: 1,
            ppb: 0,
            grain: 0,
            steps: "one".into(),
            alloc: "end".into(),
            asz: 1,
            seed: 1,
        };
        for kv in s.split(',') {
            let (k, v) = kv.split_once('=')?;
            match k {
                "units" => c.units = v.parse().ok()?,
                "heads" => c.heads = v.parse().ok()?,
                "ppb" => c.ppb = v.parse().ok()?,
                "grain" => c.grain = v.parse().ok()?,
                "steps" => c.steps = v.to_string(),
                "alloc" => c.alloc = v.to_string(),
                "asz" => c.asz = v.parse().ok()?,
                "seed" => c.seed = v.parse().ok()?,
                _ => return None,
            }
        }
        if c.units <= 0 {
            return None;
        }
        Some(c)
    }
    fn pages(&self) -> i32 {
        RawMemoryFreeList::size_in_pages(self.units, self.heads)
    }
    fn eff_ppb(&self) -> i32 {
        if self.ppb == 0 {
            RawMemoryFreeList::default_block_size(self.units, self.heads)
        } else {
            self.ppb
        }
    }
    fn eff_grain(&self) -> i32 {
        if self.grain == 0 {
            self.units
        } else {
            self.grain
        }
    }
    fn multiple(&self) -> bool {
        self.pages() % self.eff_ppb() == 0
    }
    fn class(&self) -> &'static str {
        if self.multiple() {
            "table-pages-multiple-of-block-pages"
        } else {
            "table-pages-not-multiple-of-block-pages"
        }
    }
    /// cumulative sizes after each grow step (strictly increasing, last == units)
    fn targets(&self) -> Vec<i32> {
        let g = self.eff_grain();
        let mut rng = Rng::new(self.seed ^ 0xC27 ^ (self.units as u64) << 20);
        let mut t = vec![];
        if g >= self.units {
            match self.steps.as_str() {
                "one" => t.push(self.units),
                "fine" => {
                    let k = 8.min(self.units);
                    for i in 1..=k {
                        let v = (self.units as i64 * i as i64 / k as i64) as i32;
                        if t.last().map(|&l| v > l).unwrap_or(v > 0) {
                            t.push(v);
                        }
                    }
                }
                _ => {
                    let mut cur = 0;
                    while cur < self.units {
                        let rem = self.units - cur;
                        let step = 1 + rng.below((rem as u64).min(1 + self.units as u64 / 3)) as i32;
                        cur += step.min(rem);
                        t.push(cur);
                    }
                }
            }
        } else {
            assert!(self.units % g == 0, "harness: units must be a multiple of the grain");
            let n = self.units / g;
            match self.steps.as_str() {
                "one" => t.push(self.units),
                "fine" => {
                    // one grain per step (coarser if that would be more than 1024 steps)
                    let per = 1.max((n + 1023) / 1024);
                    let mut cur = 0;
                    while cur < n {
                        cur = (cur + per).min(n);
                        t.push(cur * g);
                    }
                }
                _ => {
                    let mut cur = 0;
                    while cur < n {
                        let rem = n - cur;
                        let step = 1 + rng.below((rem as u64).min(1 + n as u64 / 3)) as i32;
                        cur += step.min(rem);
                        t.push(cur * g);
                    }
                }
            }
        }
        if t.last() != Some(&self.units) {
            t.push(self.units);
        }
        t
    }
}

// ------------------------------------------------------------------------------------------------
// child
// ------------------------------------------------------------------------------------------------

fn out(line: String) {
    let o = std::io::stdout();
    let mut l = o.lock();
    let _ = writeln!(l, "{}", line);
    let _ = l.flush();
}

fn child(case_str: &str, rep: &mut Report) {
    let Some(c) = Case::decode(case_str) else {
        out(format!("C27-INCONCLUSIVE bad case string {:?}", case_str));
        rep.inconclusive("bad case string");
        return;
    };
    let pages = c.pages() as usize;
    let ppb = c.eff_ppb();
    let guard_pages = (2 * ppb as usize).max(64);
    let Some(arena) = Arena::reserve((pages + guard_pages) * PAGE) else {
        out("C27-INCONCLUSIVE cannot reserve address range".to_string());
        rep.inconclusive("cannot reserve address range");
        return;
    };
    let base = arena.base_addr();
    let limit = arena.addr(pages * PAGE);
    let guard_end = arena.base + (pages + guard_pages) * PAGE;
    // the quarantined guard must be inaccessible to begin with
    match Arena::accessible_bytes(arena.base, guard_end) {
        Some((0, _)) => {}
        other => {
            out(format!("C27-INCONCLUSIVE quarantine not clean: {:?}", other));
            rep.inconclusive("quarantine not clean");
            return;
        }
    }
    let mut l = RawMemoryFreeList::new(
        base,
        limit,
        ppb,
        c.units,
        c.eff_grain(),
        c.heads,
        MmapStrategy::RAW_MEMORY_FREELIST,
    );
    let targets = c.targets();
    out(format!(
        "C27-START units={} heads={} table_pages={} pages_per_block={} grain={} steps={} base={:#x} limit={:#x}",
        c.units, c.heads, pages, ppb, c.eff_grain(), targets.len(), arena.base, arena.base + pages * PAGE
    ));
    let mut taken = vec![false; c.units as usize];
    let mut taken_units: i64 = 0;
    let mut fails = 0;
    let mut cur = 0i32;
    let take_all = |l: &mut RawMemoryFreeList, taken: &mut Vec<bool>, taken_units: &mut i64, cur: i32, fails: &mut i32, step_i: usize| {
        let asz = if c.asz > 1 { c.asz } else { 1 };
        let mut n = 0i64;
        loop {
            let u = l.alloc(asz);
            if u == FREELIST_FAILURE {
                break;
            }
            n += 1;
            if u < 0 || u + asz > cur {
                out(format!("C27-FAIL kind=alloc step={} alloc({}) returned unit {} outside the grown capacity {}", step_i, asz, u, cur));
                *fails += 1;
                break;
            }
            let sz = l.size(u);
            if sz != asz {
                out(format!("C27-FAIL kind=alloc step={} size({})={} after alloc({})", step_i, u, sz, asz));
                *fails += 1;
            }
            for x in u..u + asz {
                if taken[x as usize] {
                    out(format!("C27-FAIL kind=alloc step={} unit {} handed out twice (alloc({}) returned {})", step_i, x, asz, u));
                    *fails += 1;
                    return;
                }
                taken[x as usize] = true;
            }
            *taken_units += asz as i64;
            if n > cur as i64 + 1 {
                break;
            }
        }
        if *taken_units != cur as i64 {
            let missing = (0..cur as usize).find(|&x| !taken[x]);
            out(format!(
                "C27-FAIL kind=alloc step={} after growing to {} units only {} units could be allocated with alloc({}); e.g. unit {:?} never handed out",
                step_i, cur, *taken_units, asz, missing
            ));
            *fails += 1;
        }
    };
    for (i, &t) in targets.iter().enumerate() {
        let step = t - cur;
        out(format!("C27-STEP i={} grow_freelist({}) current_units={} -> {}", i, step, cur, t));
        let ok = l.grow_freelist(step);
        if !ok {
            out(format!("C27-FAIL kind=returned-false step={} grow_freelist({}) from {} units returned false although {} <= max {}", i, step, cur, t, c.units));
            fails += 1;
            break;
        }
        cur = t;
        match Arena::accessible_bytes(arena.base + pages * PAGE, guard_end) {
            Some((0, _)) => {}
            Some((n, first)) => {
                out(format!(
                    "C27-FAIL kind=beyond-limit step={} {} bytes at/after limit became accessible, first range {:x?} (limit {:#x})",
                    i, n, first, arena.base + pages * PAGE
                ));
                fails += 1;
                break;
            }
            None => {
                out("C27-INCONCLUSIVE cannot read /proc/self/maps".to_string());
                rep.inconclusive("cannot read /proc/self/maps");
                return;
            }
        }
        if c.alloc == "each" {
            take_all(&mut l, &mut taken, &mut taken_units, cur, &mut fails, i);
        }
    }
    if fails == 0 {
        if c.alloc != "each" {
            take_all(&mut l, &mut taken, &mut taken_units, cur, &mut fails, targets.len());
        }
        // growing beyond the maximum must be refused (and must not map anything)
        let over = l.grow_freelist(1);
        if over {
            out("C27-FAIL kind=over-max grow_freelist(1) beyond max_units returned true".to_string());
            fails += 1;
        }
    }
    let mapped = Arena::accessible_bytes(arena.base, arena.base + pages * PAGE).map(|x| x.0).unwrap_or(0);
    out(format!(
        "C27-DONE fails={} grows={} units_allocated={} table_bytes_mapped={}",
        fails,
        targets.len(),
        taken_units,
        mapped
    ));
    std::mem::forget(l);
}

// ------------------------------------------------------------------------------------------------
// parent
// ------------------------------------------------------------------------------------------------

fn cases(args: &Args) -> Vec<Case> {
    let thorough = args.thorough();
    let mut rng = Rng::new(args.seed() ^ 0xC27);
    let mut v = vec![];
    // unit counts: (units + heads + 1) * 8 bytes of table; 512 units per page.
    //   5, 300: one page; 510 (heads 1): exactly one page; 511: 2 pages; 8190: exactly 16 pages;
    //   8191: 17 pages; 10000: 20 pages; 16382: exactly 32; 20000: 40; 65534: exactly 128;
    //   100000: 196; 262142: exactly 512; 1000000: 1954.
    let mut unit_counts: Vec<i32> = vec![5, 300, 510, 511, 1023, 4094, 8190, 8191, 10000, 16382, 20000, 65534, 100000, 262142];
    if thorough {
        unit_counts.extend([1, 2, 509, 1022, 1534, 4096, 8189, 12286, 16383, 24574, 32766, 50000, 131070, 1000000, 4194302]);
        for _ in 0..10 {
            unit_counts.push(1 + rng.below(300_000) as i32);
        }
    } else {
        for _ in 0..4 {
            unit_counts.push(1 + rng.below(120_000) as i32);
        }
    }
    let ppbs: [i32; 4] = [0, 1, 2, 16];
    for &units in &unit_counts {
        for &heads in &[1i32, 2, 7] {
            if heads != 1 && !thorough && units % 3 != 0 {
                // quick tier: other head counts only for a third of the sizes
                continue;
            }
            for &ppb in &ppbs {
                // grain = units (Map64::create_freelist), arbitrary steps
                let variants: &[(&str, &str)] = if thorough {
                    &[("one", "end"), ("fine", "each"), ("rand", "end"), ("rand", "each")]
                } else {
                    &[("one", "end"), ("rand", "each")]
                };
                for &(steps, alloc) in variants {
                    v.push(Case { units, heads, ppb, grain: 0, steps: steps.into(), alloc: alloc.into(), asz: 1, seed: rng.next() >> 1 });
                }
                // grain < units (Map64::create_parent_freelist with a region-sized grain): units must
                // be a multiple of the grain -> round the unit count down to a multiple.
                for &g in &[2i32, 64, 1024] {
                    if units < 2 * g {
                        continue;
                    }
                    if !thorough && !(g == 64 || (g == 1024 && ppb == 0)) {
                        continue;
                    }
                    let u = units / g * g;
                    let steps = *rng.pick(&["one", "fine", "rand"]);
                    let alloc = *rng.pick(&["end", "each"]);
                    let asz = if rng.chance(1, 2) { 1 } else { g };
                    v.push(Case { units: u, heads, ppb, grain: g, steps: steps.into(), alloc: alloc.into(), asz, seed: rng.next() >> 1 });
                }
            }
        }
    }
    // default block size first: the first violation kept per signature is then the configuration
    // mmtk-core itself uses (Map64 passes default_block_size).
    v.sort_by_key(|c| (c.ppb != 0, c.heads != 1));
    v
}

fn bucket(n: i32) -> u64 {
    (32 - (n.max(1) as u32).leading_zeros()) as u64 / 2
}

pub fn run(args: &Args, rep: &mut Report) {
    if let Some(case) = args.get("case") {
        child(case, rep);
        return;
    }
    let exe = match std::env::current_exe() {
        Ok(e) => e,
        Err(e) => {
            rep.inconclusive(format!("current_exe: {}", e));
            return;
        }
    };
    let all = cases(args);
    rep.count("cases", all.len() as u64);
    for c in &all {
        let enc = c.encode();
        let outp = std::process::Command::new(&exe)
            .arg("C27")
            .arg("--case")
            .arg(&enc)
            .env("RUST_BACKTRACE", "0")
            .output();
        let outp = match outp {
            Ok(o) => o,
            Err(e) => {
                rep.inconclusive(format!("spawn failed: {}", e));
                continue;
            }
        };
        let stdout = String::from_utf8_lossy(&outp.stdout).to_string();
        let stderr = String::from_utf8_lossy(&outp.stderr).to_string();
        let pages = c.pages();
        let ppb = c.eff_ppb();
        let blocks_needed = (pages + ppb - 1) / ppb;
        let class = c.class();
        let shape = format!(
            "units={} heads={} grain={} table_pages={} pages_per_block={}{} (table_pages % pages_per_block = {}, blocks needed {})",
            c.units, c.heads, c.eff_grain(), pages, ppb, if c.ppb == 0 { "(default)" } else { "" }, pages % ppb, blocks_needed
        );
        let nontrivial = blocks_needed >= 2 || !c.multiple();
        let key = [
            c.multiple() as u64,
            match c.ppb { 0 => 0, 1 => 1, 2 => 2, _ => 3 },
            c.heads as u64,
            (c.grain != 0) as u64 * bucket(c.eff_grain()),
            c.steps.len() as u64 + c.steps.as_bytes()[0] as u64,
            (c.alloc == "each") as u64,
            (c.asz > 1) as u64,
            bucket(blocks_needed),
        ]
        .iter()
        .fold(0xC27u64, |h, &x| mix(h, x));
        if nontrivial {
            rep.eval(key);
        } else {
            rep.evaluations += 1;
        }
        rep.count(if c.multiple() { "cases_table_multiple_of_block" } else { "cases_table_not_multiple_of_block" }, 1);
        rep.count(&format!("cases_ppb_{}", if c.ppb == 0 { "default".to_string() } else { c.ppb.to_string() }), 1);
        if blocks_needed >= 2 {
            rep.count("cases_multi_block", 1);
        }
        let last_step = stdout.lines().filter(|l| l.starts_with("C27-STEP")).last().unwrap_or("").to_string();
        let n_steps = stdout.lines().filter(|l| l.starts_with("C27-STEP")).count();
        rep.count("grow_calls", n_steps as u64);
        if let Some(l) = stdout.lines().find(|l| l.starts_with("C27-INCONCLUSIVE")) {
            rep.inconclusive(format!("{}: {}", enc, l));
            continue;
        }
        let done = stdout.lines().find(|l| l.starts_with("C27-DONE"));
        for l in stdout.lines().filter(|l| l.starts_with("C27-FAIL")) {
            let kind = l.split_whitespace().find_map(|w| w.strip_prefix("kind=")).unwrap_or("other");
            rep.violation(
                format!("rawfl-{}:{}", kind, class),
                format!("case[{}] {} :: {}", enc, shape, l),
            );
        }
        if done.is_some() && outp.status.success() {
            rep.count("cases_completed", 1);
            if let Some(d) = done {
                if let Some(n) = d.split_whitespace().find_map(|w| w.strip_prefix("units_allocated=")) {
                    rep.count("units_allocated", n.parse().unwrap_or(0));
                }
            }
            if rep.want_sample() && nontrivial {
                rep.sample(J::obj(vec![
                    ("case", J::s(enc.clone())),
                    ("table_pages", J::i(pages)),
                    ("pages_per_block", J::i(ppb)),
                    ("grow_calls", J::i(n_steps as u64)),
                    ("result", J::s(done.unwrap_or("").to_string())),
                ]));
            }
            continue;
        }
        // the child died
        let panic_at = stderr
            .lines()
            .position(|l| l.contains("panicked at"))
            .map(|i| stderr.lines().skip(i).take(3).collect::<Vec<_>>().join(" | "));
        let internal = panic_at
            .as_ref()
            .map(|p| p.contains("raw_memory_freelist.rs") || p.contains("/repo/src/") || p.contains("src/util/"))
            .unwrap_or(false);
        if internal {
            rep.count("cases_child_panicked_in_mmtk", 1);
            if c.ppb == 0 {
                rep.count("cases_child_panicked_in_mmtk_default_block_size", 1);
            }
            rep.violation(
                format!("rawfl-grow:{}", class),
                format!(
                    "case[{}] {} :: child {} during a legal grow sequence; last call: [{}]; panic: {}",
                    enc,
                    shape,
                    outp.status,
                    last_step,
                    panic_at.unwrap_or_default()
                ),
            );
        } else {
            let tail: String = stderr.lines().rev().take(4).collect::<Vec<_>>().join(" | ");
            rep.inconclusive(format!(
                "case[{}] child ended with {} without an mmtk-internal panic; last step [{}]; stderr tail: {}",
                enc, outp.status, last_step, tail
            ));
        }
    }
    rep.note("each case runs in a child process (units C27 --case <params>); grain contract respected: grain >= units with arbitrary steps, or units and every cumulative size multiples of the grain; limit = base + size_in_pages(units, heads) pages exactly as Map64::create_parent_freelist; guard range behind limit checked in /proc/self/maps after every grow");
}
