//! A quarantined (PROT_NONE, no-reserve) address range in which `RawMemoryFreeList`s can be built
//! the way `Map64::create_parent_freelist` builds them: the list maps its own table pages with
//! `MmapStrategy::RAW_MEMORY_FREELIST` (MAP_FIXED over the quarantined range), it does not use the
//! global `MMAPPER`, so no `MMTK` instance is needed.
#![allow(dead_code)]
use mmtk::util::Address;

pub const PAGE: usize = 4096;
pub const CHUNK: usize = 4 << 20;

pub struct Arena {
    raw: usize,
    raw_len: usize,
    /// chunk-aligned start (what Map64 passes as `start`)
    pub base: usize,
    /// usable bytes from `base`
    pub len: usize,
}

impl Arena {
    pub fn reserve(len: usize) -> Option<Arena> {
        let raw_len = len + CHUNK;
        let p = unsafe {
            libc::mmap(
                std::ptr::null_mut(),
                raw_len,
                libc::PROT_NONE,
                libc::MAP_PRIVATE | libc::MAP_ANONYMOUS | libc::MAP_NORESERVE,
                -1,
                0,
            )
        };
        if p == libc::MAP_FAILED {
            return None;
        }
        let raw = p as usize;
        let base = (raw + CHUNK - 1) & !(CHUNK - 1);
        Some(Arena { raw, raw_len, base, len })
    }
    pub fn base_addr(&self) -> Address {
        unsafe { Address::from_usize(self.base) }
    }
    pub fn addr(&self, off: usize) -> Address {
        unsafe { Address::from_usize(self.base + off) }
    }
    /// Put the whole range back into the quarantined state (drops table pages of a finished list).
    pub fn reset(&self) -> bool {
        let p = unsafe {
            libc::mmap(
                self.base as *mut libc::c_void,
                self.len,
                libc::PROT_NONE,
                libc::MAP_PRIVATE | libc::MAP_ANONYMOUS | libc::MAP_NORESERVE | libc::MAP_FIXED,
                -1,
                0,
            )
        };
        p != libc::MAP_FAILED
    }
    /// Bytes in `[from, to)` (absolute addresses) that are mapped with any access permission,
    /// i.e. that are no longer quarantined.  `None` if /proc/self/maps cannot be read.
    pub fn accessible_bytes(from: usize, to: usize) -> Option<(usize, Option<(usize, usize)>)> {
        let maps = std::fs::read_to_string("/proc/self/maps").ok()?;
        let mut total = 0usize;
        let mut first = None;
        for line in maps.lines() {
            let mut it = line.split_whitespace();
            let range = it.next()?;
            let perms = it.next()?;
            let (s, e) = range.split_once('-')?;
            let s = usize::from_str_radix(s, 16).ok()?;
            let e = usize::from_str_radix(e, 16).ok()?;
            if e <= from || s >= to {
                continue;
            }
            if perms.starts_with("---") {
                continue;
            }
            let (a, b) = (s.max(from), e.min(to));
            total += b - a;
            if first.is_none() {
                first = Some((a, b));
            }
        }
        Some((total, first))
    }
    /// Bytes in `[from, to)` that are not covered by any mapping at all.
    pub fn unmapped_bytes(from: usize, to: usize) -> Option<usize> {
        let maps = std::fs::read_to_string("/proc/self/maps").ok()?;
        let mut covered = 0usize;
        for line in maps.lines() {
            let range = line.split_whitespace().next()?;
            let (s, e) = range.split_once('-')?;
            let s = usize::from_str_radix(s, 16).ok()?;
            let e = usize::from_str_radix(e, 16).ok()?;
            if e <= from || s >= to {
                continue;
            }
            covered += e.min(to) - s.max(from);
        }
        Some((to - from) - covered)
    }
}

impl Drop for Arena {
    fn drop(&mut self) {
        unsafe {
            libc::munmap(self.raw as *mut libc::c_void, self.raw_len);
        }
    }
}
