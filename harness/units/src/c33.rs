//! C33: alignment and size arithmetic meet their specifications.
//!
//! Part A (pure arithmetic): `raw_align_up/down`, `raw_is_aligned`, `rshift_align_up`,
//! `bytes_to_pages_up`, `pages_to_bytes`, `bytes_to_chunks_up`, chunk/page helpers and the
//! `Address` alignment methods are compared with the mathematical definition evaluated in u128
//! (division / multiplication, no bit tricks) over a boundary lattice and PRNG inputs.  Inputs for
//! which the rounded-up value does not fit a `usize` ("overflowing inputs") are excluded from the
//! verdict as the property says; what the implementation returns for them is only counted.
//!
//! Part B (`align_allocation*`): `mmtk::util::alloc::allocator` is `pub(crate)` and `verif.rs`
//! does not re-export it, so the functions are driven through the real allocators of a real
//! (never collecting) SemiSpace `MMTK<HeaderVM>` instance: the bump allocator
//! (`align_allocation_no_fill(cursor, ..)` + gap fill) and the large object allocator
//! (`align_allocation(cell, ..)`, which fills the gap itself).  Expected: the result is the least
//! address >= region with `(result + offset) % align == 0`, `[region, result)` is filled with
//! `VM::ALIGNMENT_VALUE`, and nothing else is written.
//!
//! Part C (`get_maximum_aligned_size`): bounds the padded size of every observed allocation, and
//! is observed through `verif::ms::mi_bin::<VM>(size, align)` (= bin of the maximum aligned size).
//!
//! Part D (cargo feature `alloc_hook`, off): direct calls, for when verif.rs re-exports them.
use crate::unitvm::HeaderVM;
use mmtk::util::alloc::BumpAllocator;
use mmtk::util::constants::{BYTES_IN_ADDRESS, BYTES_IN_PAGE, LOG_BYTES_IN_PAGE};
use mmtk::util::conversions as cv;
use mmtk::util::heap::vm_layout::{BYTES_IN_CHUNK, LOG_BYTES_IN_CHUNK};
use mmtk::util::Address;
use mmtk::vm::VMBinding;
use mmtk::AllocationSemantics;
use std::panic::{catch_unwind, AssertUnwindSafe};
use vcommon::{mix, Args, Report, Rng, J};

const UMAX: u128 = usize::MAX as u128;
const BITS: u32 = usize::BITS;

fn a(x: usize) -> Address {
    unsafe { Address::from_usize(x) }
}

// ---------------------------------------------------------------------------------------------
// mathematical definitions (u128)
// ---------------------------------------------------------------------------------------------

/// least multiple of `g` that is >= `v`
fn m_round_up(v: u128, g: u128) -> u128 {
    let q = v / g;
    if q * g == v {
        v
    } else {
        (q + 1) * g
    }
}
/// greatest multiple of `g` that is <= `v`
fn m_round_down(v: u128, g: u128) -> u128 {
    (v / g) * g
}
/// ceil(v / g)
fn m_div_up(v: u128, g: u128) -> u128 {
    v / g + if v % g != 0 { 1 } else { 0 }
}

fn rem_class(v: u128, g: u128) -> u64 {
    let r = v % g;
    if r == 0 {
        0
    } else if r == 1 {
        1
    } else if r == g - 1 {
        2
    } else {
        3
    }
}
fn mag_class(v: u128, g: u128) -> u64 {
    if v == 0 {
        0
    } else if v < g {
        1
    } else if v <= UMAX - g {
        // bit-length bucket
        2 + ((128 - v.leading_zeros()) as u64) / 8
    } else {
        20
    }
}

struct Arith<'r> {
    rep: &'r mut Report,
    overflow_excluded: u64,
    overflow_wrapped_observed: u64,
    nontrivial: u64,
    trivial: u64,
}

impl<'r> Arith<'r> {
    fn bad(&mut self, func: &str, class: String, detail: String) {
        self.rep
            .violation(format!("arith:{}:{}", func, class), detail);
    }

    fn account(&mut self, fid: u64, v: u128, g: u128, log_g: u32) {
        let rc = rem_class(v, g);
        let mc = mag_class(v, g);
        if rc != 0 || mc == 20 || mc <= 1 {
            self.nontrivial += 1;
            self.rep.eval(mix(mix(fid, log_g as u64), mix(rc, mc)));
        } else {
            self.trivial += 1;
            self.rep.evaluations += 1;
        }
    }

    /// Everything that takes (value, power-of-two alignment).
    fn val_align(&mut self, v: usize, log: u32) {
        let g: u128 = 1u128 << log;
        let al: usize = 1usize << log;
        let vv = v as u128;
        // raw_align_down
        let want = m_round_down(vv, g);
        let got = cv::raw_align_down(v, al) as u128;
        self.account(1, vv, g, log);
        if got != want {
            self.bad(
                "raw_align_down",
                format!("rem={}", rem_class(vv, g)),
                format!("raw_align_down({:#x}, {:#x}) = {:#x}, want {:#x}", v, al, got, want),
            );
        }
        let got = a(v).align_down(al).as_usize() as u128;
        if got != want {
            self.bad(
                "Address::align_down",
                format!("rem={}", rem_class(vv, g)),
                format!("Address({:#x}).align_down({:#x}) = {:#x}, want {:#x}", v, al, got, want),
            );
        }
        // is aligned
        let want_al = vv % g == 0;
        self.account(2, vv, g, log);
        if cv::raw_is_aligned(v, al) != want_al {
            self.bad(
                "raw_is_aligned",
                format!("rem={}", rem_class(vv, g)),
                format!("raw_is_aligned({:#x}, {:#x}) = {}, want {}", v, al, !want_al, want_al),
            );
        }
        if a(v).is_aligned_to(al) != want_al {
            self.bad(
                "Address::is_aligned_to",
                format!("rem={}", rem_class(vv, g)),
                format!("Address({:#x}).is_aligned_to({:#x}) = {}, want {}", v, al, !want_al, want_al),
            );
        }
        // raw_align_up
        let want = m_round_up(vv, g);
        if want > UMAX {
            self.overflow_excluded += 1;
            if cv::raw_align_up(v, al) as u128 != want {
                self.overflow_wrapped_observed += 1;
            }
        } else {
            self.account(3, vv, g, log);
            let got = cv::raw_align_up(v, al) as u128;
            if got != want {
                self.bad(
                    "raw_align_up",
                    format!("rem={}", rem_class(vv, g)),
                    format!("raw_align_up({:#x}, {:#x}) = {:#x}, want {:#x}", v, al, got, want),
                );
            }
            let got = a(v).align_up(al).as_usize() as u128;
            if got != want {
                self.bad(
                    "Address::align_up",
                    format!("rem={}", rem_class(vv, g)),
                    format!("Address({:#x}).align_up({:#x}) = {:#x}, want {:#x}", v, al, got, want),
                );
            }
            // rshift_align_up(num, bits): "dividing num by 2^bits, rounding up"; bits < usize::BITS.
            // (same exclusion: the rounded-up dividend must fit.)
            self.account(4, vv, g, log);
            let want_q = m_div_up(vv, g);
            let got = cv::rshift_align_up(v, log as usize) as u128;
            if got != want_q {
                self.bad(
                    "rshift_align_up",
                    format!("rem={}", rem_class(vv, g)),
                    format!("rshift_align_up({:#x}, {}) = {:#x}, want {:#x}", v, log, got, want_q),
                );
            }
        }
    }

    /// Fixed-granule helpers (page, chunk, word).
    fn fixed(&mut self, v: usize) {
        let vv = v as u128;
        let page = BYTES_IN_PAGE as u128;
        let chunk = BYTES_IN_CHUNK as u128;
        // bytes_to_pages_up
        if m_round_up(vv, page) <= UMAX {
            self.account(10, vv, page, LOG_BYTES_IN_PAGE as u32);
            let want = m_div_up(vv, page);
            let got = cv::bytes_to_pages_up(v) as u128;
            if got != want {
                self.bad(
                    "bytes_to_pages_up",
                    format!("rem={}", rem_class(vv, page)),
                    format!("bytes_to_pages_up({:#x}) = {:#x}, want {:#x}", v, got, want),
                );
            }
        } else {
            self.overflow_excluded += 1;
            if cv::bytes_to_pages_up(v) as u128 != m_div_up(vv, page) {
                self.overflow_wrapped_observed += 1;
            }
        }
        // bytes_to_chunks_up
        if m_round_up(vv, chunk) <= UMAX {
            self.account(11, vv, chunk, LOG_BYTES_IN_CHUNK as u32);
            let want = m_div_up(vv, chunk);
            let got = cv::bytes_to_chunks_up(v) as u128;
            if got != want {
                self.bad(
                    "bytes_to_chunks_up",
                    format!("rem={}", rem_class(vv, chunk)),
                    format!("bytes_to_chunks_up({:#x}) = {:#x}, want {:#x}", v, got, want),
                );
            }
            let want = m_round_up(vv, chunk);
            let got = cv::chunk_align_up(a(v)).as_usize() as u128;
            if got != want {
                self.bad(
                    "chunk_align_up",
                    format!("rem={}", rem_class(vv, chunk)),
                    format!("chunk_align_up({:#x}) = {:#x}, want {:#x}", v, got, want),
                );
            }
        } else {
            self.overflow_excluded += 1;
            if cv::bytes_to_chunks_up(v) as u128 != m_div_up(vv, chunk) {
                self.overflow_wrapped_observed += 1;
            }
        }
        // round-down family: always representable
        self.account(12, vv, chunk, LOG_BYTES_IN_CHUNK as u32);
        let want = m_round_down(vv, chunk);
        let got = cv::chunk_align_down(a(v)).as_usize() as u128;
        if got != want {
            self.bad(
                "chunk_align_down",
                format!("rem={}", rem_class(vv, chunk)),
                format!("chunk_align_down({:#x}) = {:#x}, want {:#x}", v, got, want),
            );
        }
        let want = vv / chunk;
        let got = cv::address_to_chunk_index(a(v)) as u128;
        let got2 = a(v).chunk_index() as u128;
        if got != want || got2 != want {
            self.bad(
                "address_to_chunk_index",
                format!("rem={}", rem_class(vv, chunk)),
                format!(
                    "address_to_chunk_index({:#x}) = {:#x}, Address::chunk_index = {:#x}, want {:#x}",
                    v, got, got2, want
                ),
            );
        }
        self.account(13, vv, page, LOG_BYTES_IN_PAGE as u32);
        let want = m_round_down(vv, page);
        let got = cv::page_align_down(a(v)).as_usize() as u128;
        if got != want {
            self.bad(
                "page_align_down",
                format!("rem={}", rem_class(vv, page)),
                format!("page_align_down({:#x}) = {:#x}, want {:#x}", v, got, want),
            );
        }
        if cv::is_page_aligned(a(v)) != (vv % page == 0) {
            self.bad(
                "is_page_aligned",
                format!("rem={}", rem_class(vv, page)),
                format!("is_page_aligned({:#x}) = {}", v, cv::is_page_aligned(a(v))),
            );
        }
        let word = BYTES_IN_ADDRESS as u128;
        if cv::is_address_aligned(a(v)) != (vv % word == 0) {
            self.bad(
                "is_address_aligned",
                format!("rem={}", rem_class(vv, word)),
                format!("is_address_aligned({:#x}) = {}", v, cv::is_address_aligned(a(v))),
            );
        }
        // multiplications: only when the product fits
        if vv * page <= UMAX {
            self.account(14, vv, page, LOG_BYTES_IN_PAGE as u32);
            let got = cv::pages_to_bytes(v) as u128;
            if got != vv * page {
                self.bad(
                    "pages_to_bytes",
                    "value".to_string(),
                    format!("pages_to_bytes({:#x}) = {:#x}, want {:#x}", v, got, vv * page),
                );
            }
        } else {
            self.overflow_excluded += 1;
        }
        if vv * chunk <= UMAX {
            self.account(15, vv, chunk, LOG_BYTES_IN_CHUNK as u32);
            let got = cv::chunk_index_to_address(v).as_usize() as u128;
            if got != vv * chunk {
                self.bad(
                    "chunk_index_to_address",
                    "value".to_string(),
                    format!("chunk_index_to_address({:#x}) = {:#x}, want {:#x}", v, got, vv * chunk),
                );
            }
        } else {
            self.overflow_excluded += 1;
        }
    }
}

/// Boundary values: 0, 1, 2, 2^k-1, 2^k, 2^k+1, usize::MAX-d.
fn lattice() -> Vec<usize> {
    let mut v: Vec<usize> = vec![0, 1, 2, 3];
    for k in 1..BITS {
        let p = 1usize << k;
        v.push(p - 1);
        v.push(p);
        v.push(p + 1);
        // 1.5 * 2^k and neighbours
        v.push(p + (p >> 1));
        v.push((p + (p >> 1)).wrapping_sub(1));
    }
    for d in [0usize, 1, 2, 3, 7, 8, 4094, 4095, 4096, 4097, (1 << 22) - 1, 1 << 22, (1 << 22) + 1] {
        v.push(usize::MAX - d);
    }
    v.sort_unstable();
    v.dedup();
    v
}

fn rand_usize(rng: &mut Rng) -> usize {
    // random bit width, then random bits; sometimes snapped near a multiple of a power of two
    let w = rng.range(0, 64) as u32;
    let mut x = if w == 0 { 0 } else { rng.next() >> (64 - w) } as usize;
    match rng.below(8) {
        0 => {
            let k = rng.below(64) as u32;
            x = (x >> k) << k;
        }
        1 => {
            let k = rng.below(64) as u32;
            x = ((x >> k) << k).wrapping_add(1);
        }
        2 => {
            let k = rng.below(64) as u32;
            x = ((x >> k) << k).wrapping_sub(1);
        }
        3 => x = usize::MAX - (x >> rng.range(1, 63) as u32),
        _ => {}
    }
    x
}

fn part_a(args: &Args, rep: &mut Report, rng: &mut Rng) {
    let mut ar = Arith {
        rep,
        overflow_excluded: 0,
        overflow_wrapped_observed: 0,
        nontrivial: 0,
        trivial: 0,
    };
    let lat = lattice();
    let mut n_lat = 0u64;
    for &v in &lat {
        for log in 0..BITS {
            ar.val_align(v, log);
            n_lat += 1;
        }
        ar.fixed(v);
    }
    // for each alignment: q*align + {-1,0,1} for small and maximal q
    for log in 0..BITS {
        let g = 1u128 << log;
        let qmax = UMAX / g;
        for q in [0u128, 1, 2, 3, qmax / 2, qmax.saturating_sub(1), qmax] {
            for d in [-1i128, 0, 1] {
                let x = (q * g) as i128 + d;
                if x < 0 || x as u128 > UMAX {
                    continue;
                }
                ar.val_align(x as usize, log);
                ar.fixed(x as usize);
                n_lat += 1;
            }
        }
    }
    ar.rep.count("arith_lattice_cases", n_lat);
    let n = if args.miri() { 300u64 } else if args.thorough() { 200_000_000u64 } else { 2_500_000 };
    for _ in 0..n {
        let v = rand_usize(rng);
        let log = rng.below(BITS as u64) as u32;
        ar.val_align(v, log);
        if rng.chance(1, 4) {
            ar.fixed(v);
        }
    }
    ar.rep.count("arith_random_cases", n);
    let (oe, ow, nt, tr) = (
        ar.overflow_excluded,
        ar.overflow_wrapped_observed,
        ar.nontrivial,
        ar.trivial,
    );
    rep.count("arith_overflow_inputs_excluded", oe);
    rep.count("arith_overflow_inputs_result_differs_from_math", ow);
    rep.count("arith_nontrivial", nt);
    rep.count("arith_trivial", tr);
    rep.note(format!(
        "overflowing inputs (rounded-up value > usize::MAX) are excluded from the verdict; e.g. rshift_align_up(usize::MAX, 1) returns {:#x} and bytes_to_pages_up(usize::MAX) returns {:#x} (mathematical quotients {:#x}, {:#x})",
        cv::rshift_align_up(usize::MAX, 1),
        cv::bytes_to_pages_up(usize::MAX),
        m_div_up(UMAX, 2),
        m_div_up(UMAX, BYTES_IN_PAGE as u128)
    ));
}

// ---------------------------------------------------------------------------------------------
// Part B/C: align_allocation through real allocators
// ---------------------------------------------------------------------------------------------

type VM = HeaderVM;
const MIN_ALIGN: usize = <VM as VMBinding>::MIN_ALIGNMENT;
const MAX_ALIGN: usize = <VM as VMBinding>::MAX_ALIGNMENT;
const FILL: u8 = <VM as VMBinding>::ALIGNMENT_VALUE;

/// least r >= region with (r + offset) % align == 0
fn m_align_allocation(region: u128, align: u128, offset: u128) -> u128 {
    let rem = (region + offset) % align;
    if rem == 0 {
        region
    } else {
        region + (align - rem)
    }
}

/// documented bound of the padded size: size + align - known alignment (no padding when
/// align <= known alignment)
fn m_max_aligned_size(size: u128, align: u128, known: u128) -> u128 {
    if align <= known {
        size
    } else {
        size + align - known
    }
}

fn read_bytes(start: usize, len: usize) -> &'static [u8] {
    unsafe { std::slice::from_raw_parts(start as *const u8, len) }
}

fn pick_align(rng: &mut Rng) -> usize {
    let lo = MIN_ALIGN.trailing_zeros() as u64;
    let hi = MAX_ALIGN.trailing_zeros() as u64;
    1usize << rng.range(lo, hi)
}

fn pick_offset(rng: &mut Rng) -> usize {
    // multiples of MIN_ALIGNMENT; small, around the alignment, and a few large ones
    match rng.below(6) {
        0 => 0,
        1 => MIN_ALIGN * rng.range(1, 3) as usize,
        2 | 3 => MIN_ALIGN * rng.below(64) as usize,
        4 => MIN_ALIGN * rng.below(1 << 20) as usize,
        _ => (isize::MAX as usize - rng.below(1 << 20) as usize) & !(MIN_ALIGN - 1),
    }
}

struct Shadow {
    start: usize,
    bytes: Vec<u8>,
}

fn part_b(args: &Args, rep: &mut Report, rng: &mut Rng) {
    if FILL == 0 {
        rep.note("VM::ALIGNMENT_VALUE is 0: gap fill cannot be observed");
    }
    let mut builder = mmtk::MMTKBuilder::new_no_env_vars();
    let ok = builder
        .options
        .plan
        .set(mmtk::util::options::PlanSelector::SemiSpace)
        && builder.options.threads.set(1)
        && builder
            .options
            .gc_trigger
            .set(mmtk::util::options::GCTriggerSelector::FixedHeapSize(4usize << 30));
    if !ok {
        rep.inconclusive("could not configure the MMTK builder");
        return;
    }
    let mmtk: &'static mmtk::MMTK<VM> = match catch_unwind(AssertUnwindSafe(|| {
        Box::leak(mmtk::memory_manager::mmtk_init::<VM>(&builder))
    })) {
        Ok(m) => m,
        Err(_) => {
            rep.inconclusive("MMTK::<HeaderVM> could not be created in this process");
            return;
        }
    };
    let tls = mmtk::util::VMMutatorThread(mmtk::util::VMThread(
        mmtk::util::OpaquePointer::from_address(a(0x1000)),
    ));
    let mut mutator = mmtk::memory_manager::bind_mutator(mmtk, tls);

    // ---- bump allocator: align_allocation_no_fill(cursor, ..) + fill_alignment_gap --------
    let n = if args.thorough() { 3_000_000 } else { 300_000 };
    let mut shadow: Option<Shadow> = None;
    let (mut fast, mut slow, mut gaps, mut bumps) = (0u64, 0u64, 0u64, 0u64);
    let mut max_pad_seen = 0u64;
    for i in 0..n {
        let align = pick_align(rng);
        let offset = pick_offset(rng);
        let size = MIN_ALIGN * rng.range(2, 96) as usize; // 8..384 bytes, multiple of MIN_ALIGNMENT
        let (cursor, limit) = {
            let ba = unsafe {
                mutator.allocator_impl_mut_for_semantic::<BumpAllocator<VM>>(
                    AllocationSemantics::Default,
                )
            };
            // now and then the "binding" bumps the cursor itself, as a binding-side fast path
            // would, by a multiple of MIN_ALIGNMENT (stays inside the thread-local buffer)
            if !ba.bump_pointer.cursor.is_zero() && rng.chance(1, 8) {
                let room = ba.bump_pointer.limit.as_usize() - ba.bump_pointer.cursor.as_usize();
                let step = MIN_ALIGN * rng.below(24) as usize;
                if step < room {
                    ba.bump_pointer.cursor = ba.bump_pointer.cursor + step;
                    bumps += 1;
                }
            }
            (
                ba.bump_pointer.cursor.as_usize(),
                ba.bump_pointer.limit.as_usize(),
            )
        };
        let res = catch_unwind(AssertUnwindSafe(|| {
            mmtk::memory_manager::alloc(&mut mutator, size, align, offset, AllocationSemantics::Default)
        }));
        let r = match res {
            Ok(r) => r.as_usize(),
            Err(_) => {
                rep.violation(
                    "align_allocation:bump:panic",
                    format!("alloc(size={}, align={}, offset={:#x}) panicked; cursor={:#x}", size, align, offset, cursor),
                );
                return;
            }
        };
        if r == 0 {
            rep.inconclusive("bump allocation returned null (heap exhausted?)");
            break;
        }
        let new_cursor = unsafe {
            mutator
                .allocator_impl_mut_for_semantic::<BumpAllocator<VM>>(AllocationSemantics::Default)
                .bump_pointer
                .cursor
                .as_usize()
        };
        let new_limit = unsafe {
            mutator
                .allocator_impl_mut_for_semantic::<BumpAllocator<VM>>(AllocationSemantics::Default)
                .bump_pointer
                .limit
                .as_usize()
        };
        let want = m_align_allocation(cursor as u128, align as u128, offset as u128);
        let fits = cursor != 0 && want + size as u128 <= limit as u128;
        let region: usize;
        if fits {
            fast += 1;
            region = cursor;
        } else {
            slow += 1;
            // a new buffer was acquired; its start (page aligned) is the region
            region = (m_round_down(r as u128, BYTES_IN_PAGE as u128)) as usize;
            shadow = Some(Shadow {
                start: region,
                bytes: vec![0u8; new_limit - region],
            });
        }
        let want = m_align_allocation(region as u128, align as u128, offset as u128);
        let gap = (want - region as u128) as usize;
        let key = mix(
            mix(0xB0, align.trailing_zeros() as u64),
            mix(
                ((region as u128 + offset as u128) % align as u128) as u64 / MIN_ALIGN as u64,
                mix(fits as u64, (offset > (1 << 30)) as u64),
            ),
        );
        if gap > 0 {
            gaps += 1;
            rep.eval(key);
        } else {
            rep.evaluations += 1;
        }
        let class = format!("align={}:{}", align, if fits { "fast" } else { "slow" });
        if r as u128 != want {
            rep.violation(
                format!("align_allocation:bump:result:{}", class),
                format!(
                    "region(cursor)={:#x} align={} offset={:#x} size={}: returned {:#x}, least aligned address is {:#x} ((r+offset)%align={})",
                    region, align, offset, size, r, want, (r as u128 + offset as u128) % align as u128
                ),
            );
            // resynchronise the shadow with reality
            shadow = None;
            continue;
        }
        if new_cursor != r + size {
            rep.violation(
                format!("align_allocation:bump:cursor:{}", class),
                format!("after alloc cursor={:#x}, want result+size={:#x}", new_cursor, r + size),
            );
        }
        // padded size is bounded by the documented maximum
        let padded = (r + size - region) as u128;
        let bound = m_max_aligned_size(size as u128, align as u128, MIN_ALIGN as u128);
        max_pad_seen = max_pad_seen.max((padded - size as u128) as u64);
        if padded > bound {
            rep.violation(
                format!("max_aligned_size:bound:{}", class),
                format!("region={:#x} align={} offset={:#x} size={}: padded size {} exceeds size+align-MIN_ALIGNMENT = {}", region, align, offset, size, padded, bound),
            );
        }
        // memory: gap filled, nothing else written
        if let Some(sh) = shadow.as_mut() {
            if region >= sh.start && r + size <= sh.start + sh.bytes.len() {
                if FILL != 0 {
                    for b in &mut sh.bytes[region - sh.start..r - sh.start] {
                        *b = FILL;
                    }
                }
                let lo = region.saturating_sub(128).max(sh.start);
                let hi = (r + size + 128).min(sh.start + sh.bytes.len());
                let mem = read_bytes(lo, hi - lo);
                let exp = &sh.bytes[lo - sh.start..hi - sh.start];
                if mem != exp {
                    let at = mem.iter().zip(exp).position(|(x, y)| x != y).unwrap();
                    let wh = if lo + at < region {
                        "before-region"
                    } else if lo + at < r {
                        "gap-not-filled"
                    } else if lo + at < r + size {
                        "object-bytes-written"
                    } else {
                        "after-object-written"
                    };
                    rep.violation(
                        format!("align_allocation:bump:memory:{}:{}", wh, class),
                        format!(
                            "region={:#x} result={:#x} size={} align={} offset={:#x}: byte at {:#x} is {:#x}, expected {:#x}",
                            region, r, size, align, offset, lo + at, mem[at], exp[at]
                        ),
                    );
                    // adopt reality
                    sh.bytes[lo - sh.start..hi - sh.start].copy_from_slice(mem);
                }
            }
        }
        if rep.want_sample() && gap > 0 && i > 3 {
            rep.sample(J::obj(vec![
                ("via", J::s("bump")),
                ("region", J::s(format!("{:#x}", region))),
                ("align", J::i(align as u64)),
                ("offset", J::s(format!("{:#x}", offset))),
                ("result", J::s(format!("{:#x}", r))),
            ]));
        }
    }
    rep.count("bump_fast_path", fast);
    rep.count("bump_slow_path", slow);
    rep.count("bump_nonempty_gap", gaps);
    rep.count("bump_binding_side_bumps", bumps);
    rep.set_max("max_padding_seen", max_pad_seen);

    // ---- large object allocator: align_allocation(cell, ..) with fill -------------------------
    let n = if args.thorough() { 20_000 } else { 3_000 };
    let mut los_gaps = 0u64;
    for _ in 0..n {
        let align = pick_align(rng);
        let offset = pick_offset(rng);
        let size = MIN_ALIGN * rng.range(2, 3000) as usize;
        let res = catch_unwind(AssertUnwindSafe(|| {
            mmtk::memory_manager::alloc(&mut mutator, size, align, offset, AllocationSemantics::Los)
        }));
        let r = match res {
            Ok(r) => r.as_usize(),
            Err(_) => {
                rep.violation(
                    "align_allocation:los:panic",
                    format!("alloc(size={}, align={}, offset={:#x}, Los) panicked", size, align, offset),
                );
                return;
            }
        };
        if r == 0 {
            rep.inconclusive("LOS allocation returned null");
            break;
        }
        // the cell is page aligned and the gap is < MAX_ALIGNMENT < page, so the cell is the page of r
        let cell = m_round_down(r as u128, BYTES_IN_PAGE as u128) as usize;
        let want = m_align_allocation(cell as u128, align as u128, offset as u128);
        let gap = (want - cell as u128) as usize;
        let class = format!("align={}", align);
        let key = mix(
            mix(0x105, align.trailing_zeros() as u64),
            mix(
                ((offset as u128) % align as u128) as u64 / MIN_ALIGN as u64,
                (offset > (1 << 30)) as u64,
            ),
        );
        if gap > 0 {
            los_gaps += 1;
            rep.eval(key);
        } else {
            rep.evaluations += 1;
        }
        if r as u128 != want {
            rep.violation(
                format!("align_allocation:los:result:{}", class),
                format!(
                    "cell={:#x} align={} offset={:#x}: returned {:#x}, least aligned address is {:#x}",
                    cell, align, offset, r, want
                ),
            );
            continue;
        }
        // the pages that were requested must hold the padded object
        let bound = m_max_aligned_size(size as u128, align as u128, MIN_ALIGN as u128);
        let pages = m_div_up(bound, BYTES_IN_PAGE as u128) as usize;
        if (r + size - cell) as u128 > bound {
            rep.violation(
                format!("max_aligned_size:bound:los:{}", class),
                format!("cell={:#x} result={:#x} size={} exceeds bound {}", cell, r, size, bound),
            );
        }
        let _ = pages;
        let len = m_round_up((r + size - cell) as u128, BYTES_IN_PAGE as u128) as usize;
        let mem = read_bytes(cell, len);
        let bad_gap = mem[..gap].iter().position(|b| *b != FILL);
        let bad_rest = mem[gap..].iter().position(|b| *b != 0);
        if FILL != 0 {
            if let Some(p) = bad_gap {
                rep.violation(
                    format!("align_allocation:los:memory:gap-not-filled:{}", class),
                    format!("cell={:#x} result={:#x}: gap byte {:#x} is {:#x}, expected {:#x}", cell, r, cell + p, mem[p], FILL),
                );
            }
        }
        if let Some(p) = bad_rest {
            rep.violation(
                format!("align_allocation:los:memory:written-outside-gap:{}", class),
                format!("cell={:#x} result={:#x} size={}: byte {:#x} is {:#x}, expected 0", cell, r, size, cell + gap + p, mem[gap + p]),
            );
        }
        if rep.want_sample() && gap > 0 && rep.samples.len() >= 3 {
            rep.sample(J::obj(vec![
                ("via", J::s("los")),
                ("cell", J::s(format!("{:#x}", cell))),
                ("align", J::i(align as u64)),
                ("offset", J::s(format!("{:#x}", offset))),
                ("result", J::s(format!("{:#x}", r))),
            ]));
        }
    }
    rep.count("los_allocations", n);
    rep.count("los_nonempty_gap", los_gaps);
}

fn part_c(rep: &mut Report) {
    // get_maximum_aligned_size observed through the size-class function of the free-list allocator:
    // mi_bin::<VM>(size, align) = bin(get_maximum_aligned_size::<VM>(size, align)), and
    // get_maximum_aligned_size(x, MIN_ALIGNMENT) = x.  Bins are exact per word up to 8 words.
    use mmtk::verif::ms;
    let mut n = 0u64;
    let mut exact = 0u64;
    let mut al = MIN_ALIGN;
    while al <= MAX_ALIGN {
        let mut size = MIN_ALIGN;
        while size <= 4096 {
            let want_max = m_max_aligned_size(size as u128, al as u128, MIN_ALIGN as u128) as usize;
            if want_max <= ms::MI_LARGE_OBJ_SIZE_MAX {
                let got = ms::mi_bin::<VM>(size, al);
                let want = ms::mi_bin::<VM>(want_max, MIN_ALIGN);
                let below = if want_max >= 2 * BYTES_IN_ADDRESS {
                    ms::mi_bin::<VM>(want_max - BYTES_IN_ADDRESS, MIN_ALIGN)
                } else {
                    want
                };
                n += 1;
                if below != want {
                    exact += 1; // one word less would land in another bin: the check is sharp here
                    rep.eval(mix(0xC0, mix(al.trailing_zeros() as u64, want as u64)));
                } else {
                    rep.evaluations += 1;
                }
                if got != want {
                    rep.violation(
                        format!("max_aligned_size:mi_bin:align={}", al),
                        format!(
                            "mi_bin(size={}, align={}) = {}, but the bin of size+align-MIN_ALIGNMENT = {} is {}",
                            size, al, got, want_max, want
                        ),
                    );
                }
            }
            size += MIN_ALIGN;
        }
        al <<= 1;
    }
    rep.count("max_aligned_size_via_mi_bin", n);
    rep.count("max_aligned_size_via_mi_bin_sharp", exact);
}

// ---------------------------------------------------------------------------------------------
// Part D: direct calls (needs `pub use crate::util::alloc::allocator::{align_allocation,
// align_allocation_no_fill, get_maximum_aligned_size};` in /repo/src/verif.rs)
// ---------------------------------------------------------------------------------------------

#[cfg(feature = "alloc_hook")]
fn part_d(args: &Args, rep: &mut Report, rng: &mut Rng) {
    use mmtk::verif::{align_allocation, align_allocation_no_fill, get_maximum_aligned_size};
    let aligns: Vec<usize> = (MIN_ALIGN.trailing_zeros()..=MAX_ALIGN.trailing_zeros())
        .map(|k| 1usize << k)
        .collect();
    // no-fill variant: any region (multiple of MIN_ALIGNMENT), memory is never touched
    let mut regions: Vec<usize> = lattice()
        .into_iter()
        .map(|v| v & !(MIN_ALIGN - 1))
        .collect();
    let n = if args.thorough() { 20_000_000 } else { 2_000_000 };
    for _ in 0..n {
        regions.push(rand_usize(rng) & !(MIN_ALIGN - 1));
        if regions.len() < 4096 {
            continue;
        }
        for &region in &regions {
            let align = *rng.pick(&aligns);
            let offset = pick_offset(rng);
            let want = m_align_allocation(region as u128, align as u128, offset as u128);
            if want > UMAX {
                continue; // overflowing input
            }
            let got = align_allocation_no_fill::<VM>(a(region), align, offset).as_usize();
            let rem = (region as u128 + offset as u128) % align as u128;
            if rem != 0 {
                rep.eval(mix(mix(0xD0, align.trailing_zeros() as u64), mix(rem as u64, mag_class(region as u128, align as u128))));
            } else {
                rep.evaluations += 1;
            }
            if got as u128 != want {
                rep.violation(
                    format!("align_allocation:direct:no_fill:align={}", align),
                    format!("align_allocation_no_fill({:#x}, {}, {:#x}) = {:#x}, want {:#x}", region, align, offset, got, want),
                );
            }
        }
        rep.count("direct_no_fill", regions.len() as u64);
        regions.clear();
    }
    // fill variant on a private buffer pre-filled with a pattern
    let len = 1 << 16;
    let mut buf = vec![0x5au8; len + 256];
    let base = (buf.as_mut_ptr() as usize + 127) & !127;
    let n = if args.thorough() { 2_000_000 } else { 200_000 };
    for _ in 0..n {
        let region = base + MIN_ALIGN * rng.below((len / MIN_ALIGN - 64) as u64) as usize;
        let align = *rng.pick(&aligns);
        let offset = pick_offset(rng);
        let want = m_align_allocation(region as u128, align as u128, offset as u128) as usize;
        let got = align_allocation::<VM>(a(region), align, offset).as_usize();
        rep.eval(mix(mix(0xD1, align.trailing_zeros() as u64), ((region + offset) % align) as u64));
        if got != want {
            rep.violation(
                format!("align_allocation:direct:fill:align={}", align),
                format!("align_allocation({:#x}, {}, {:#x}) = {:#x}, want {:#x}", region, align, offset, got, want),
            );
            buf.iter_mut().for_each(|b| *b = 0x5a);
            continue;
        }
        let lo = region - 64.min(region - base);
        let hi = want + 128;
        let mem = read_bytes(lo, hi - lo);
        for (i, b) in mem.iter().enumerate() {
            let at = lo + i;
            let exp = if at >= region && at < want && FILL != 0 { FILL } else { 0x5a };
            if *b != exp {
                rep.violation(
                    format!("align_allocation:direct:fill:memory:align={}", align),
                    format!("region={:#x} result={:#x}: byte {:#x} is {:#x}, expected {:#x}", region, got, at, b, exp),
                );
                break;
            }
        }
        unsafe { std::ptr::write_bytes(region as *mut u8, 0x5a, want - region) };
        rep.count("direct_fill", 1);
    }
    // get_maximum_aligned_size
    for &align in &aligns {
        for size in (0..=1 << 16).step_by(MIN_ALIGN).chain(lattice().into_iter().map(|v| v & !(MIN_ALIGN - 1))) {
            let want = m_max_aligned_size(size as u128, align as u128, MIN_ALIGN as u128);
            if want > UMAX {
                continue;
            }
            let got = get_maximum_aligned_size::<VM>(size, align);
            rep.eval(mix(0xD2, align.trailing_zeros() as u64));
            if got as u128 != want {
                rep.violation(
                    format!("max_aligned_size:direct:align={}", align),
                    format!("get_maximum_aligned_size({}, {}) = {}, want {}", size, align, got, want),
                );
            }
        }
    }
}

#[cfg(not(feature = "alloc_hook"))]
fn part_d(_args: &Args, rep: &mut Report, _rng: &mut Rng) {
    rep.note("align_allocation/align_allocation_no_fill/get_maximum_aligned_size are pub(crate) and not re-exported by verif.rs: driven through BumpAllocator and LargeObjectAllocator of a real MMTK<HeaderVM> (regions are real heap addresses only; regions near usize::MAX need the hook, see cargo feature alloc_hook)");
}

pub fn run(args: &Args, rep: &mut Report) {
    let mut rng = Rng::new(args.seed() ^ 0xC33);
    let case = args.get("case").unwrap_or("all").to_string();
    if case == "all" || case == "arith" {
        part_a(args, rep, &mut rng);
    }
    if case == "all" || case == "alloc" {
        part_c(rep);
        part_b(args, rep, &mut rng);
        part_d(args, rep, &mut rng);
    }
    rep.note(format!(
        "VM: MIN_ALIGNMENT={} MAX_ALIGNMENT={} ALIGNMENT_VALUE={:#x}; page={} chunk={}",
        MIN_ALIGN, MAX_ALIGN, FILL, BYTES_IN_PAGE, BYTES_IN_CHUNK
    ));
}
