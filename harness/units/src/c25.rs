//! C25: side-metadata sanity checking rejects exactly the overlapping spec sets.
//!
//! Every generated set of global (or of local) specs is fed to mmtk-core's own check and the
//! observation "rejected / accepted" is compared with an independent interval-overlap predicate
//! over the specs' metadata address ranges
//! `[spec.get_starting_address(), + metadata_address_range_size(spec))`.  Two ways in:
//!   1. the real, panicking `SideMetadataSanity::verify_metadata_context` (through
//!      `mmtk::verif::sanity_verify_context`, a fresh checker per set) for a sample of sets, and
//!   2. `mmtk::verif::sanity_check_specs`, the non-panicking core of the same checks, in-process
//!      and exhaustive over all ordered shape pairs x relations x slots x {global, local}.
//!
//! Only sets that pass every *other* sanity check are generated (global total size
//! <= 2^(47-1), each local spec <= 2^(47-1), `is_global` flags consistent, specs pairwise
//! different as values), so "panic <=> some pair overlaps" is the exact oracle.
//!
//! Process structure of part 1: `verify_metadata_context` panics while holding the write guard of a
//! process-global `RwLock`, which poisons it: after the first panic every later call in the same
//! process panics too.  Therefore the sets are evaluated in forked children; a child evaluates
//! sets until the first panic, reports what it saw through a pipe and exits, and the parent forks
//! a new child for the remaining sets.  The oracle is used only to cut the list into segments
//! that can be given to concurrently running children; all verdicts are observations.
use crate::unitvm::HeaderVM;
use mmtk::util::metadata::side_metadata::{
    SideMetadataSpec, GLOBAL_SIDE_METADATA_VM_BASE_OFFSET, LOCAL_SIDE_METADATA_VM_BASE_OFFSET,
};
use std::collections::HashSet;
use std::panic::{catch_unwind, AssertUnwindSafe};
use vcommon::{mix, Args, Report, Rng, J};

const LOG_ADDRESS_SPACE: usize = 47;
/// `1 << (LOG_ARCH_ADDRESS_SPACE - LOG_{GLOBAL,LOCAL}_SIDE_METADATA_WORST_CASE_RATIO)` on 64-bit.
const SIZE_LIMIT: usize = 1 << (LOG_ADDRESS_SPACE - 1);
const NAMES: [&str; 3] = ["A", "B", "C"];

/// Where the second (third) spec is put relative to the first (second) one.
#[derive(Clone, Copy, PartialEq, Eq, Debug)]
enum Rel {
    SameOffset,
    DirectlyAfter,
    AfterMinus8,
    FarAfter,
    DirectlyBefore,
    BeforePlus8,
    Inside,
    AfterPlus8,
    /// the second spec starts on the last byte of the first (one byte shared)
    AfterMinus1,
    /// the second spec ends on the first byte of the first (one byte shared)
    BeforePlus1,
}
const RELS: [Rel; 10] = [
    Rel::SameOffset,
    Rel::DirectlyAfter,
    Rel::AfterMinus8,
    Rel::FarAfter,
    Rel::DirectlyBefore,
    Rel::BeforePlus8,
    Rel::Inside,
    Rel::AfterPlus8,
    Rel::AfterMinus1,
    Rel::BeforePlus1,
];
impl Rel {
    fn name(self) -> &'static str {
        match self {
            Rel::SameOffset => "same-offset",
            Rel::DirectlyAfter => "directly-after",
            Rel::AfterMinus8 => "after-minus-8",
            Rel::FarAfter => "far-after",
            Rel::DirectlyBefore => "directly-before",
            Rel::BeforePlus8 => "before-plus-8",
            Rel::Inside => "inside",
            Rel::AfterPlus8 => "after-plus-8",
            Rel::AfterMinus1 => "after-minus-1",
            Rel::BeforePlus1 => "before-plus-1",
        }
    }
    /// Offset of a spec of range `rb` placed in this relation to `[a, a+ra)`.
    fn place(self, a: usize, ra: usize, rb: usize) -> Option<usize> {
        match self {
            Rel::SameOffset => Some(a),
            Rel::DirectlyAfter => Some(a + ra),
            Rel::AfterMinus8 => Some(a + ra - 8),
            Rel::FarAfter => Some(a + ra + (1usize << 40)),
            Rel::DirectlyBefore => a.checked_sub(rb),
            Rel::BeforePlus8 => (a + 8).checked_sub(rb),
            Rel::Inside => Some(a + ra / 2),
            Rel::AfterPlus8 => Some(a + ra + 8),
            Rel::AfterMinus1 => Some(a + ra - 1),
            Rel::BeforePlus1 => (a + 1).checked_sub(rb),
        }
    }
}

#[derive(Clone, Copy, PartialEq, Eq, Debug, Hash)]
struct Shape {
    bits: usize,
    region: usize,
}
impl Shape {
    /// My own formula for the metadata range covering the whole 47-bit address space:
    /// one `2^bits`-bit entry per `2^region` data bytes.
    fn range(self) -> usize {
        1usize << (LOG_ADDRESS_SPACE - (3 + self.region - self.bits))
    }
}

struct Case {
    global: bool,
    specs: Vec<SideMetadataSpec>,
    rel: Rel,
    slot: usize,
}

fn spec(i: usize, global: bool, offset: usize, s: Shape) -> SideMetadataSpec {
    SideMetadataSpec {
        name: NAMES[i],
        is_global: global,
        offset,
        log_num_of_bits: s.bits,
        log_bytes_in_region: s.region,
    }
}

/// Interval of a spec according to mmtk's own address/range functions.
fn interval(s: &SideMetadataSpec) -> (usize, usize) {
    let start = s.get_starting_address().as_usize();
    let range = mmtk::verif::metadata_address_range_size(s);
    (start, start + range)
}

fn overlaps(a: &SideMetadataSpec, b: &SideMetadataSpec) -> bool {
    let (s1, e1) = interval(a);
    let (s2, e2) = interval(b);
    s1 < e2 && s2 < e1
}

/// Does the set satisfy every sanity check other than the overlap check, and stay inside
/// `[0, 2^46)` (the most that can ever be reserved for one kind of metadata)?
fn other_checks_ok(global: bool, specs: &[SideMetadataSpec]) -> bool {
    let mut total = 0usize;
    for (i, s) in specs.iter().enumerate() {
        let r = mmtk::verif::metadata_address_range_size(s);
        if s.is_global != global || r > SIZE_LIMIT || s.offset + r > SIZE_LIMIT {
            return false;
        }
        total += r;
        // pairwise different as values (equal specs are "the same spec" for the checker)
        if specs[..i].iter().any(|t| t == s) {
            return false;
        }
    }
    !global || total <= SIZE_LIMIT
}

fn make_case(
    global: bool,
    slots: &[usize],
    slot: usize,
    rel: Rel,
    shapes: &[Shape],
    shuffle: Option<&mut Rng>,
) -> Option<Case> {
    let a = slots[slot];
    let mut specs = vec![spec(0, global, a, shapes[0])];
    if shapes.len() == 2 {
        let off = rel.place(a, shapes[0].range(), shapes[1].range())?;
        specs.push(spec(1, global, off, shapes[1]));
    } else if shapes.len() == 3 {
        // B directly after A, C in relation `rel` to B
        let boff = a + shapes[0].range();
        specs.push(spec(1, global, boff, shapes[1]));
        let coff = rel.place(boff, shapes[1].range(), shapes[2].range())?;
        specs.push(spec(2, global, coff, shapes[2]));
    }
    if !other_checks_ok(global, &specs) {
        return None;
    }
    if let Some(r) = shuffle {
        r.shuffle(&mut specs);
    }
    Some(Case { global, specs, rel, slot })
}

#[derive(Debug, Clone, PartialEq)]
enum Outcome {
    Accepted,
    Panicked(String),
    /// the child died without reporting this case
    Lost(String),
}

fn panic_msg(e: &(dyn std::any::Any + Send)) -> String {
    e.downcast_ref::<String>()
        .cloned()
        .or_else(|| e.downcast_ref::<&str>().map(|s| s.to_string()))
        .unwrap_or_else(|| "<non-string panic payload>".to_string())
}

fn write_all(fd: i32, mut b: &[u8]) {
    while !b.is_empty() {
        let n = unsafe { libc::write(fd, b.as_ptr() as *const libc::c_void, b.len()) };
        if n <= 0 {
            unsafe { libc::_exit(3) };
        }
        b = &b[n as usize..];
    }
}

/// Maximum number of children in flight.
const PARALLEL: usize = 8;
/// Maximum number of sets given to one child (keeps its report below the pipe capacity, so a
/// child never blocks on a full pipe while the parent is reading an older child).
const MAX_SEGMENT: usize = 8192;

struct Child {
    pid: i32,
    fd: i32,
    start: usize,
    end: usize,
}

/// Fork a child that evaluates `cases[start..end]` in order until the first panic and writes
/// one record per evaluated set to a pipe: `0` = accepted, `1 len msg` = panicked (then it exits).
fn spawn_child(cases: &[Case], start: usize, end: usize) -> Result<Child, String> {
    let mut fds = [0i32; 2];
    if unsafe { libc::pipe(fds.as_mut_ptr()) } != 0 {
        return Err("pipe() failed".into());
    }
    let pid = unsafe { libc::fork() };
    if pid < 0 {
        unsafe {
            libc::close(fds[0]);
            libc::close(fds[1]);
        }
        return Err("fork() failed".into());
    }
    if pid == 0 {
        unsafe { libc::close(fds[0]) };
        let mut buf: Vec<u8> = Vec::with_capacity(end - start + 256);
        for c in &cases[start..end] {
            let (g, l): (&[SideMetadataSpec], &[SideMetadataSpec]) =
                if c.global { (&c.specs, &[]) } else { (&[], &c.specs) };
            let r = catch_unwind(AssertUnwindSafe(|| mmtk::verif::sanity_verify_context(g, l)));
            match r {
                Ok(()) => buf.push(0),
                Err(e) => {
                    let m = panic_msg(&*e);
                    let m = m.as_bytes();
                    let n = m.len().min(160);
                    buf.push(1);
                    buf.push(n as u8);
                    buf.extend_from_slice(&m[..n]);
                    // the process-global lock is poisoned now: nothing more can be observed here
                    break;
                }
            }
        }
        write_all(fds[1], &buf);
        unsafe { libc::_exit(0) };
    }
    unsafe { libc::close(fds[1]) };
    Ok(Child { pid, fd: fds[0], start, end })
}

/// Read a child's report to EOF and reap it.  Returns the outcomes it reported (in order,
/// starting at its `start`) and whether it exited cleanly.
fn collect_child(ch: &Child) -> (Vec<Outcome>, bool, i32) {
    let mut data: Vec<u8> = vec![];
    let mut chunk = [0u8; 8192];
    loop {
        let n = unsafe { libc::read(ch.fd, chunk.as_mut_ptr() as *mut libc::c_void, chunk.len()) };
        if n > 0 {
            data.extend_from_slice(&chunk[..n as usize]);
        } else if n == 0 {
            break;
        } else if std::io::Error::last_os_error().kind() != std::io::ErrorKind::Interrupted {
            break;
        }
    }
    unsafe { libc::close(ch.fd) };
    let mut status = 0i32;
    unsafe { libc::waitpid(ch.pid, &mut status, 0) };
    let clean = libc::WIFEXITED(status) && libc::WEXITSTATUS(status) == 0;
    let mut out = vec![];
    let mut i = 0;
    while i < data.len() && out.len() < ch.end - ch.start {
        match data[i] {
            0 => {
                out.push(Outcome::Accepted);
                i += 1;
            }
            1 if i + 1 < data.len() && i + 2 + data[i + 1] as usize <= data.len() => {
                let n = data[i + 1] as usize;
                out.push(Outcome::Panicked(
                    String::from_utf8_lossy(&data[i + 2..i + 2 + n]).to_string(),
                ));
                break; // a child reports nothing after its first panic
            }
            _ => break,
        }
    }
    (out, clean, status)
}

/// Evaluate the real sanity checker on all sets.  Sets are evaluated in forked children because a
/// panic poisons a process-global lock inside mmtk-core, after which the process cannot observe
/// anything any more: a child evaluates its segment until the first panic, and whatever it did
/// not get to is handed to a fresh child.  `predicted_panic` is used for *scheduling only* (a
/// segment is cut after each set that is expected to panic so that several children can run
/// concurrently); every verdict is what a child actually observed.
fn evaluate(cases: &[Case], predicted_panic: &[bool], forks: &mut u64) -> Vec<Outcome> {
    use std::collections::VecDeque;
    let mut out: Vec<Option<Outcome>> = vec![None; cases.len()];
    let mut queue: VecDeque<(usize, usize)> = VecDeque::new();
    let mut start = 0;
    for i in 0..cases.len() {
        if predicted_panic[i] || i + 1 - start >= MAX_SEGMENT || i + 1 == cases.len() {
            queue.push_back((start, i + 1));
            start = i + 1;
        }
    }
    let mut flight: VecDeque<Child> = VecDeque::new();
    loop {
        while flight.len() < PARALLEL {
            let Some((s, e)) = queue.pop_front() else { break };
            match spawn_child(cases, s, e) {
                Ok(ch) => {
                    *forks += 1;
                    flight.push_back(ch);
                }
                Err(why) => {
                    // no verdict for the first set of the segment; retry the rest
                    out[s] = Some(Outcome::Lost(why));
                    if s + 1 < e {
                        queue.push_front((s + 1, e));
                    }
                }
            }
        }
        let Some(ch) = flight.pop_front() else { break };
        let (got, clean, status) = collect_child(&ch);
        let mut next = ch.start;
        for o in got {
            out[next] = Some(o);
            next += 1;
        }
        if next < ch.end {
            let panicked_last = next > ch.start && matches!(out[next - 1], Some(Outcome::Panicked(_)));
            if !panicked_last || !clean {
                // the child died (or reported garbage) at set `next`: no verdict for it
                out[next] = Some(Outcome::Lost(format!("child wait status {:#x}", status)));
                next += 1;
            }
            if next < ch.end {
                queue.push_front((next, ch.end));
            }
        }
    }
    out.into_iter()
        .map(|o| o.unwrap_or_else(|| Outcome::Lost("not evaluated".into())))
        .collect()
}

#[derive(Clone, Copy, PartialEq, Eq, Debug)]
enum Via {
    /// the real `verify_metadata_context` (panicking) in a forked child
    RealPanicPath = 0,
    /// `mmtk::verif::sanity_check_specs`, the non-panicking core, in-process
    Hook = 1,
}

struct Stats {
    /// signatures already reported (only the first failing set per signature is kept)
    reported: HashSet<String>,
    forks: u64,
    lost: u64,
    shapes_seen: HashSet<Shape>,
    via: [u64; 2],
    /// [via][overlapping?]
    verdict_class: [[u64; 2]; 2],
    /// [global?][number of specs]
    sets: [[u64; 4]; 2],
    rel: [u64; 10],
    /// [via][relation][overlapping?] (sets of >= 2 specs)
    rel_by_via: [[[u64; 2]; 10]; 2],
    overlapping_none_at_offset_0: u64,
    hook_panics: u64,
}

const SLOT_NAMES: [&str; 3] = ["offset-0", "global-vm-base", "local-vm-base"];

fn oracle_overlapping_pair(c: &Case) -> Option<(usize, usize)> {
    for i in 0..c.specs.len() {
        for j in i + 1..c.specs.len() {
            if overlaps(&c.specs[i], &c.specs[j]) {
                return Some((i, j));
            }
        }
    }
    None
}

fn describe(c: &Case) -> String {
    let kind = if c.global { "global" } else { "local" };
    let mut d = format!("{} specs (slot {}, relation {}): ", kind, SLOT_NAMES[c.slot], c.rel.name());
    for s in &c.specs {
        let (st, en) = interval(s);
        d.push_str(&format!(
            "{{name:{} is_global:{} offset:{:#x} log_num_of_bits:{} log_bytes_in_region:{} -> metadata [{:#x},{:#x}) range {:#x}}} ",
            s.name, s.is_global, s.offset, s.log_num_of_bits, s.log_bytes_in_region, st, en, en - st
        ));
    }
    d
}

/// Compare one observation (set accepted / rejected by mmtk-core) with the oracle.
fn compare(rep: &mut Report, rng: &mut Rng, st: &mut Stats, c: &Case, o: &Outcome, via: Via) {
    let kind = if c.global { "global" } else { "local" };
    let bad_pair = oracle_overlapping_pair(c);
    let expect_reject = bad_pair.is_some();
    let v = via as usize;
    st.via[v] += 1;
    st.sets[c.global as usize][c.specs.len().min(3)] += 1;
    if c.specs.len() < 2 {
        rep.evaluations += 1;
    } else {
        let ra = mmtk::verif::metadata_address_range_size(&c.specs[0]);
        let rb = mmtk::verif::metadata_address_range_size(&c.specs[1]);
        let sizerel = (ra > rb) as u64 + 2 * (ra == rb) as u64;
        let magnitude = |r: usize| -> u64 {
            if r < 1 << 30 {
                0
            } else if r < 1 << 40 {
                1
            } else {
                2
            }
        };
        rep.eval(mix(
            mix(c.global as u64 + 2 * v as u64, c.specs.len() as u64),
            mix(
                mix(c.rel as u64, c.slot as u64),
                mix(sizerel, mix(magnitude(ra), mix(magnitude(rb), expect_reject as u64))),
            ),
        ));
        st.rel[c.rel as usize] += 1;
        st.rel_by_via[v][c.rel as usize][expect_reject as usize] += 1;
        st.verdict_class[v][expect_reject as usize] += 1;
        if expect_reject && c.specs.iter().all(|s| s.offset != 0) {
            st.overlapping_none_at_offset_0 += 1;
        }
        if via == Via::RealPanicPath || c.specs.len() == 3 {
            for s in &c.specs {
                st.shapes_seen.insert(Shape { bits: s.log_num_of_bits, region: s.log_bytes_in_region });
            }
        }
    }
    if rep.want_sample() && c.specs.len() >= 2 && c.slot != 0 && via == Via::RealPanicPath && rng.chance(1, 10) {
        rep.sample(J::obj(vec![
            ("via", J::s(format!("{:?}", via))),
            ("set", J::s(describe(c))),
            ("oracle_overlap", J::Bool(expect_reject)),
            ("observed", J::s(format!("{:?}", o))),
        ]));
    }
    let nspecs = if c.specs.len() == 3 { "triple" } else { "pair" };
    let how = match via {
        Via::RealPanicPath => "verify_metadata_context (real panic path, forked child)",
        Via::Hook => "sanity_check_specs (non-panicking core)",
    };
    let report = |rep: &mut Report, st: &mut Stats, sig: String, detail: &dyn Fn() -> String| {
        if st.reported.insert(sig.clone()) {
            rep.violation(sig, detail());
        } else {
            rep.violation_count += 1;
        }
    };
    match (o, expect_reject) {
        (Outcome::Lost(why), _) => {
            st.lost += 1;
            if st.lost <= 3 {
                rep.inconclusive(format!("no verdict for a set ({}): {}", why, describe(c)));
            }
        }
        (Outcome::Accepted, true) => {
            let (i, j) = bad_pair.unwrap();
            report(rep, st, format!("sanity:overlap-accepted:{}:{}", kind, c.rel.name()), &|| {
                format!(
                    "{} accepted a {} in which {} and {} overlap: {}",
                    how, nspecs, c.specs[i].name, c.specs[j].name, describe(c)
                )
            });
        }
        (Outcome::Panicked(msg), false) => {
            if msg.contains("PoisonError") {
                rep.inconclusive(format!("checker lock was poisoned (harness problem): {}", msg));
            } else {
                let what = if msg.contains("Overlapping") { "overlap-reported" } else { "other-panic" };
                report(
                    rep,
                    st,
                    format!("sanity:disjoint-rejected:{}:{}:{}", kind, c.rel.name(), what),
                    &|| format!("{} rejected ({}) a {} of pairwise disjoint specs: {}", how, msg, nspecs, describe(c)),
                );
            }
        }
        (Outcome::Panicked(msg), true) => {
            // expected a rejection, but it must be the overlap check that rejects
            if msg.contains("PoisonError") {
                rep.inconclusive(format!("checker lock was poisoned (harness problem): {}", msg));
            } else if !msg.contains("Overlapping") {
                report(rep, st, format!("sanity:rejected-for-other-reason:{}", kind), &|| {
                    format!("{}: message {:?} for {} {}", how, msg, nspecs, describe(c))
                });
            }
        }
        (Outcome::Accepted, false) => {}
    }
}

/// Observe one set through the non-panicking hook.
fn observe_via_hook(c: &Case, st: &mut Stats) -> Outcome {
    let (g, l): (&[SideMetadataSpec], &[SideMetadataSpec]) =
        if c.global { (&c.specs, &[]) } else { (&[], &c.specs) };
    match catch_unwind(AssertUnwindSafe(|| mmtk::verif::sanity_check_specs(g, l))) {
        Ok(Ok(())) => Outcome::Accepted,
        Ok(Err(mut m)) => {
            m.truncate(160);
            Outcome::Panicked(m)
        }
        Err(e) => {
            st.hook_panics += 1;
            Outcome::Lost(format!("sanity_check_specs panicked: {}", panic_msg(&*e)))
        }
    }
}

pub fn run(args: &Args, rep: &mut Report) {
    if !cfg!(target_pointer_width = "64") {
        rep.inconclusive("C25 monitor is written for the 64-bit (contiguous local metadata) layout");
        return;
    }
    let prev_hook = std::panic::take_hook();
    std::panic::set_hook(Box::new(|_| {}));
    // the side metadata base address must exist for `get_starting_address`
    if let Err(e) = catch_unwind(|| mmtk::verif::initialize_side_metadata::<HeaderVM>()) {
        std::panic::set_hook(prev_hook);
        rep.inconclusive(format!("initialize_side_metadata panicked: {}", panic_msg(&*e)));
        return;
    }
    let mut rng = Rng::new(args.seed() ^ 0xC25);
    let thorough = args.thorough();

    // ---- shapes ----------------------------------------------------------------------------
    let mut shapes: Vec<Shape> = vec![];
    for bits in 0..=6usize {
        for region in 3..=22usize {
            let s = Shape { bits, region };
            // cross-check my range formula with mmtk's; a mismatch would make the oracle moot
            let probe = spec(0, true, 0, s);
            let theirs = mmtk::verif::metadata_address_range_size(&probe);
            if theirs != s.range() {
                rep.violation(
                    "sanity:range-size-formula",
                    format!("bits={} region={}: mmtk range {:#x}, expected {:#x}", bits, region, theirs, s.range()),
                );
                continue;
            }
            if s.range() <= SIZE_LIMIT {
                shapes.push(s);
            }
        }
    }
    rep.count("shapes", shapes.len() as u64);
    let slots = [0usize, GLOBAL_SIDE_METADATA_VM_BASE_OFFSET, LOCAL_SIDE_METADATA_VM_BASE_OFFSET];
    let mut st = Stats {
        reported: HashSet::new(),
        forks: 0,
        lost: 0,
        shapes_seen: HashSet::new(),
        via: [0; 2],
        verdict_class: [[0; 2]; 2],
        sets: [[0; 4]; 2],
        rel: [0; 10],
        rel_by_via: [[[0; 2]; 10]; 2],
        overlapping_none_at_offset_0: 0,
        hook_panics: 0,
    };
    let mut skipped = 0u64;

    // ---- part 1: the real panicking path (forked children), a sample ---------------------------
    // Every set that the checker rejects costs one fork, and forks are slow on some hosts, so
    // the number of overlapping and of disjoint sets per (kind, slot, relation) combination is
    // capped separately.  (The oracle is used here for budgeting and scheduling only.)
    let (pair_caps, triple_caps) =
        if thorough { ((6usize, 40usize), (3usize, 12usize)) } else { ((4usize, 8usize), (2usize, 4usize)) };
    let mut cases: Vec<Case> = vec![];
    // trivial sets: empty and singletons must be accepted
    for global in [true, false] {
        cases.push(Case { global, specs: vec![], rel: Rel::SameOffset, slot: 0 });
        for _ in 0..4 {
            let s = *rng.pick(&shapes);
            let slot = rng.usize_below(slots.len());
            if let Some(c) = make_case(global, &slots, slot, Rel::SameOffset, &[s], None) {
                cases.push(c);
            }
        }
    }
    // pairs first, so that the first reported failing set of a signature is a pair whenever a
    // pair can exhibit it
    for pass in 0..2 {
        for global in [true, false] {
            for slot in 0..slots.len() {
                for rel in RELS {
                    let (cap_overlap, cap_disjoint) = if pass == 0 { pair_caps } else { triple_caps };
                    let (mut n_overlap, mut n_disjoint) = (0usize, 0usize);
                    let mut tries = 0;
                    while tries < 400 && (n_overlap < cap_overlap || n_disjoint < cap_disjoint) {
                        tries += 1;
                        let sa = *rng.pick(&shapes);
                        // bias towards equal shapes now and then
                        let sb = if rng.chance(1, 5) { sa } else { *rng.pick(&shapes) };
                        let sc = *rng.pick(&shapes);
                        let made = if pass == 0 {
                            make_case(global, &slots, slot, rel, &[sa, sb], Some(&mut rng))
                        } else {
                            make_case(global, &slots, slot, rel, &[sa, sb, sc], Some(&mut rng))
                        };
                        match made {
                            Some(c) => {
                                let counter = if oracle_overlapping_pair(&c).is_some() {
                                    (&mut n_overlap, cap_overlap)
                                } else {
                                    (&mut n_disjoint, cap_disjoint)
                                };
                                if *counter.0 < counter.1 {
                                    *counter.0 += 1;
                                    cases.push(c);
                                }
                            }
                            None => skipped += 1,
                        }
                    }
                }
            }
        }
    }
    let predicted: Vec<bool> = cases.iter().map(|c| oracle_overlapping_pair(c).is_some()).collect();
    let outcomes = evaluate(&cases, &predicted, &mut st.forks);
    for (c, o) in cases.iter().zip(outcomes.iter()) {
        compare(rep, &mut rng, &mut st, c, o, Via::RealPanicPath);
    }
    std::panic::set_hook(prev_hook);
    drop(cases);

    // ---- part 2: the non-panicking core, exhaustive over shape pairs ---------------------------
    let prev_hook = std::panic::take_hook();
    std::panic::set_hook(Box::new(|_| {}));
    for global in [true, false] {
        cases_via_hook(rep, &mut rng, &mut st, global, &slots, &shapes, &mut skipped, thorough);
    }
    std::panic::set_hook(prev_hook);

    // ---- counters ------------------------------------------------------------------------------
    rep.count("candidate_sets_skipped_other_checks_or_out_of_range", skipped);
    rep.count("forked_children", st.forks);
    rep.count("sets_via_real_panic_path", st.via[0]);
    rep.count("sets_via_hook", st.via[1]);
    for (v, vname) in ["real_panic_path", "hook"].iter().enumerate() {
        rep.count(&format!("sets_disjoint_via_{}", vname), st.verdict_class[v][0]);
        rep.count(&format!("sets_overlapping_via_{}", vname), st.verdict_class[v][1]);
    }
    for (g, kind) in ["local", "global"].iter().enumerate() {
        for n in 0..4 {
            rep.count(&format!("sets_{}_{}", kind, n), st.sets[g][n]);
        }
    }
    for (i, r) in RELS.iter().enumerate() {
        rep.count(&format!("rel_{}", r.name()), st.rel[i]);
    }
    // the real panic path must have been observed for every relation
    let mut min_real_per_rel = u64::MAX;
    for i in 0..RELS.len() {
        min_real_per_rel = min_real_per_rel.min(st.rel_by_via[0][i][0] + st.rel_by_via[0][i][1]);
    }
    rep.count("min_sets_per_relation_via_real_panic_path", min_real_per_rel);
    rep.count("sets_overlapping_none_at_offset_0", st.overlapping_none_at_offset_0);
    if st.lost > 0 {
        rep.count("sets_without_verdict", st.lost);
    }
    if st.hook_panics > 0 {
        rep.violation(
            "sanity:hook-panicked",
            format!("sanity_check_specs panicked {} times (it is documented not to panic)", st.hook_panics),
        );
    }
    rep.count("shapes_used_real_path_or_triples", st.shapes_seen.len() as u64);
    rep.note(format!(
        "slots for the first spec: offset 0, GLOBAL_SIDE_METADATA_VM_BASE_OFFSET={:#x}, LOCAL_SIDE_METADATA_VM_BASE_OFFSET={:#x}; all generated ranges lie in [0, 2^46) relative to the metadata base",
        GLOBAL_SIDE_METADATA_VM_BASE_OFFSET, LOCAL_SIDE_METADATA_VM_BASE_OFFSET
    ));
    rep.note("part 1 (sets_via_real_panic_path): random pairs/triples per (kind, slot, relation) through the real panicking verify_metadata_context, each in a forked child (a panic poisons CONTENT_SANITY_MAP's lock for the rest of the process); capped because every rejected set costs a fork");
    rep.note("part 2 (sets_via_hook): mmtk::verif::sanity_check_specs in-process, exhaustive: all ordered pairs of the shapes (log bits 0..=6 x log region 3..=22 with range <= 2^46) x 8 placement relations x 3 slots x {global, local} that pass the other sanity checks, plus random triples per (kind, slot, relation)");
}

/// Part 2 for one kind: exhaustive pairs and sampled triples through the non-panicking hook.
#[allow(clippy::too_many_arguments)]
fn cases_via_hook(
    rep: &mut Report,
    rng: &mut Rng,
    st: &mut Stats,
    global: bool,
    slots: &[usize],
    shapes: &[Shape],
    skipped: &mut u64,
    thorough: bool,
) {
    let triples_per_combo = if thorough { 20_000 } else { 1_000 };
    for slot in 0..slots.len() {
        for rel in RELS {
            for &sa in shapes {
                for &sb in shapes {
                    match make_case(global, slots, slot, rel, &[sa, sb], None) {
                        Some(c) => {
                            let o = observe_via_hook(&c, st);
                            compare(rep, rng, st, &c, &o, Via::Hook);
                        }
                        None => *skipped += 1,
                    }
                }
            }
        }
    }
    for slot in 0..slots.len() {
        for rel in RELS {
            for _ in 0..triples_per_combo {
                let sh = [*rng.pick(shapes), *rng.pick(shapes), *rng.pick(shapes)];
                match make_case(global, slots, slot, rel, &sh, Some(rng)) {
                    Some(c) => {
                        let o = observe_via_hook(&c, st);
                        compare(rep, rng, st, &c, &o, Via::Hook);
                    }
                    None => *skipped += 1,
                }
            }
        }
    }
}
