//! C36: the large-object treadmill accounts for every object exactly once.
//!
//! The real `TreadMill` is driven side by side with a four-set model (alloc nursery, collect
//! nursery, from-space, to-space) through histories that follow the protocol of
//! `LargeObjectSpace` (src/policy/largeobjectspace.rs):
//!
//!   mutator time : `add_to_treadmill(o, true)` (ordinary allocation; `add_to_treadmill(o, false)`
//!                  when allocating as live)
//!   prepare      : `flip(full_heap)`
//!   trace        : `copy(o, o is a nursery object)` exactly once for every object that gets marked;
//!                  in a nursery GC only nursery objects are traced; objects allocated as live
//!                  during the (concurrent) trace go to the to-space and are never copied
//!   release      : `collect_nursery()`, and `collect_mature()` iff full heap
//!
//! Observations: the sets returned by `collect_*` and the four `is_*_empty` predicates.
//! `ObjectReference`s are synthetic word-aligned addresses (treadmill.rs only hashes them);
//! addresses of swept objects are reused for later allocations, as the real LOS reuses pages.
use mmtk::util::{Address, ObjectReference};
use mmtk::verif::TreadMill;
use std::collections::BTreeSet;
use vcommon::{mix, Args, Report, Rng, J};

fn oref(id: u64) -> ObjectReference {
    // page-aligned-ish synthetic "LOS cells"; never dereferenced.
    let a = unsafe { Address::from_usize(0x2000_0000_0000usize + (id as usize) * 4096 + 16) };
    ObjectReference::from_raw_address(a).unwrap()
}
fn oid(o: ObjectReference) -> u64 {
    ((o.to_raw_address().as_usize() - 16 - 0x2000_0000_0000usize) / 4096) as u64
}

#[derive(Default, Clone)]
struct Model {
    alloc_nursery: BTreeSet<u64>,
    collect_nursery: BTreeSet<u64>,
    from_space: BTreeSet<u64>,
    to_space: BTreeSet<u64>,
}

impl Model {
    fn flip(&mut self, full: bool) {
        std::mem::swap(&mut self.alloc_nursery, &mut self.collect_nursery);
        if full {
            std::mem::swap(&mut self.from_space, &mut self.to_space);
        }
    }
    fn total(&self) -> usize {
        self.alloc_nursery.len() + self.collect_nursery.len() + self.from_space.len() + self.to_space.len()
    }
}

struct Ctx<'a> {
    rep: &'a mut Report,
    hist: u64,
    seed: u64,
    step: u64,
}

fn check_preds(cx: &mut Ctx, tm: &TreadMill, m: &Model, at: &str) {
    cx.rep.count("predicate_checks", 1);
    let got = [
        tm.is_alloc_nursery_empty(),
        tm.is_collect_nursery_empty(),
        tm.is_from_space_empty(),
        tm.is_to_space_empty(),
    ];
    let want = [
        m.alloc_nursery.is_empty(),
        m.collect_nursery.is_empty(),
        m.from_space.is_empty(),
        m.to_space.is_empty(),
    ];
    let names = ["alloc_nursery", "collect_nursery", "from_space", "to_space"];
    for i in 0..4 {
        if got[i] != want[i] {
            cx.rep.violation(
                format!("treadmill:is_{}_empty:{}", names[i], at),
                format!(
                    "seed={} history={} step={} at={} is_{}_empty()={} model says {} (model sizes an={} cn={} fs={} ts={})",
                    cx.seed, cx.hist, cx.step, at, names[i], got[i], want[i],
                    m.alloc_nursery.len(), m.collect_nursery.len(), m.from_space.len(), m.to_space.len()
                ),
            );
        }
    }
}

/// Compare what a sweep returned with the model set; `marked` are the objects copied in this GC.
fn check_sweep(
    cx: &mut Ctx,
    which: &str,
    full: bool,
    got: Vec<ObjectReference>,
    want: &BTreeSet<u64>,
    marked: &BTreeSet<u64>,
    live_elsewhere: &Model,
) {
    let mut seen = BTreeSet::new();
    let gc = if full { "full" } else { "nursery" };
    for o in &got {
        let id = oid(*o);
        if !seen.insert(id) {
            cx.rep.violation(
                format!("treadmill:{}:{}:returned-twice", which, gc),
                format!("seed={} history={} step={} object id {} returned twice by {}", cx.seed, cx.hist, cx.step, id, which),
            );
        }
        if marked.contains(&id) {
            cx.rep.violation(
                format!("treadmill:{}:{}:marked-object-swept", which, gc),
                format!("seed={} history={} step={} marked object id {} returned by {}", cx.seed, cx.hist, cx.step, id, which),
            );
        } else if !want.contains(&id) {
            let place = if live_elsewhere.to_space.contains(&id) {
                "to_space"
            } else if live_elsewhere.alloc_nursery.contains(&id) {
                "alloc_nursery"
            } else if live_elsewhere.from_space.contains(&id) {
                "from_space"
            } else if live_elsewhere.collect_nursery.contains(&id) {
                "collect_nursery"
            } else {
                "no-set"
            };
            cx.rep.violation(
                format!("treadmill:{}:{}:foreign-object-swept:{}", which, gc, place),
                format!(
                    "seed={} history={} step={} {} returned object id {} which the model has in {}",
                    cx.seed, cx.hist, cx.step, which, id, place
                ),
            );
        }
    }
    for id in want {
        if !seen.contains(id) {
            cx.rep.violation(
                format!("treadmill:{}:{}:unmarked-object-not-swept", which, gc),
                format!(
                    "seed={} history={} step={} unmarked object id {} of the collected set was not returned by {} (returned {} objects, expected {})",
                    cx.seed, cx.hist, cx.step, id, which, got.len(), want.len()
                ),
            );
            break;
        }
    }
}

struct Params {
    cycles: usize,
    max_alloc: usize,
    mark_pm: u64,      // per-mille probability that a candidate is marked
    full_pm: u64,      // per-mille probability of a full-heap GC
    live_gc_pm: u64,   // per-mille: allocate-as-live objects during the trace phase
    live_mut_pm: u64,  // per-mille: an allocation in mutator time is allocate-as-live
    threads: usize,    // 0/1: single threaded; >1: copies/adds issued concurrently
    selftest: bool,    // SELFTEST only: the harness skips one copy() call per GC
}

fn bucket(n: usize) -> u64 {
    if n == 0 {
        0
    } else {
        1 + (usize::BITS - n.leading_zeros()) as u64 / 2
    }
}

fn one_history(rep: &mut Report, rng: &mut Rng, seed: u64, hist: u64, p: &Params) {
    let mut cx = Ctx { rep, hist, seed, step: 0 };
    let mut tm = TreadMill::new();
    let mut m = Model::default();
    let mut next_id: u64 = 1;
    let mut free_ids: Vec<u64> = vec![];
    let mut added_total: u64 = 0;
    let mut swept_total: u64 = 0;
    let mut reused_any;

    let mut fresh = |rng: &mut Rng, free_ids: &mut Vec<u64>, reused: &mut bool| -> u64 {
        if !free_ids.is_empty() && rng.chance(2, 3) {
            let i = rng.usize_below(free_ids.len());
            *reused = true;
            free_ids.swap_remove(i)
        } else {
            next_id += 1;
            next_id - 1
        }
    };

    check_preds(&mut cx, &tm, &m, "initial");
    for cycle in 0..=p.cycles {
        let last = cycle == p.cycles;
        reused_any = false;
        // ---------------- mutator time ----------------
        let k = if last { 0 } else { rng.usize_below(p.max_alloc + 1) };
        let mut adds: Vec<(u64, bool)> = vec![];
        for _ in 0..k {
            let id = fresh(rng, &mut free_ids, &mut reused_any);
            let nursery = !rng.chance(p.live_mut_pm, 1000);
            adds.push((id, nursery));
        }
        if p.threads > 1 && adds.len() >= p.threads {
            let chunks: Vec<&[(u64, bool)]> = adds.chunks((adds.len() + p.threads - 1) / p.threads).collect();
            let tmr = &tm;
            std::thread::scope(|s| {
                for c in chunks {
                    s.spawn(move || {
                        for &(id, nursery) in c {
                            tmr.add_to_treadmill(oref(id), nursery);
                        }
                    });
                }
            });
        } else {
            for &(id, nursery) in &adds {
                tm.add_to_treadmill(oref(id), nursery);
            }
        }
        for &(id, nursery) in &adds {
            cx.step += 1;
            added_total += 1;
            if nursery {
                m.alloc_nursery.insert(id);
                cx.rep.count("add_nursery", 1);
            } else {
                m.to_space.insert(id);
                cx.rep.count("add_live_mutator_time", 1);
            }
        }
        if reused_any {
            cx.rep.count("cycles_with_address_reuse", 1);
        }
        check_preds(&mut cx, &tm, &m, "after-alloc");

        // ---------------- prepare ----------------
        // The last GC of a history is a full-heap GC that marks nothing: everything still held
        // must come back ("nothing is lost").
        let full = last || rng.chance(p.full_pm, 1000);
        tm.flip(full);
        m.flip(full);
        cx.step += 1;
        check_preds(&mut cx, &tm, &m, if full { "after-flip-full" } else { "after-flip-nursery" });

        // ---------------- trace ----------------
        let mut cand: Vec<(u64, bool)> = m.collect_nursery.iter().map(|&i| (i, true)).collect();
        if full {
            cand.extend(m.from_space.iter().map(|&i| (i, false)));
        }
        let n_cand = cand.len();
        let n_nursery_cand = m.collect_nursery.len();
        let n_mature_cand = n_cand - n_nursery_cand;
        let mut marked: Vec<(u64, bool)> = if last {
            vec![]
        } else {
            cand.iter().copied().filter(|_| rng.chance(p.mark_pm, 1000)).collect()
        };
        rng.shuffle(&mut marked);
        let n_live_adds = if !last && rng.chance(p.live_gc_pm, 1000) { 1 + rng.usize_below(8) } else { 0 };
        let live_adds: Vec<u64> = (0..n_live_adds).map(|_| fresh(rng, &mut free_ids, &mut reused_any)).collect();

        if p.threads > 1 && marked.len() >= p.threads {
            let chunks: Vec<&[(u64, bool)]> = marked.chunks((marked.len() + p.threads - 1) / p.threads).collect();
            let tmr = &tm;
            let la = &live_adds;
            std::thread::scope(|s| {
                for c in chunks {
                    s.spawn(move || {
                        for &(id, nursery) in c {
                            tmr.copy(oref(id), nursery);
                        }
                    });
                }
                s.spawn(move || {
                    for &id in la {
                        tmr.add_to_treadmill(oref(id), false);
                    }
                });
            });
        } else {
            // interleave the allocate-as-live adds with the copies
            let mut la = live_adds.iter();
            for &(id, nursery) in &marked {
                if rng.chance(1, 4) {
                    if let Some(&l) = la.next() {
                        tm.add_to_treadmill(oref(l), false);
                    }
                }
                if p.selftest && id == marked[0].0 {
                    continue;
                }
                tm.copy(oref(id), nursery);
            }
            for &l in la {
                tm.add_to_treadmill(oref(l), false);
            }
        }
        let mut marked_set = BTreeSet::new();
        let (mut mk_n, mut mk_m) = (0usize, 0usize);
        for &(id, nursery) in &marked {
            cx.step += 1;
            marked_set.insert(id);
            if nursery {
                assert!(m.collect_nursery.remove(&id));
                mk_n += 1;
            } else {
                assert!(m.from_space.remove(&id));
                mk_m += 1;
            }
            m.to_space.insert(id);
        }
        for &l in &live_adds {
            cx.step += 1;
            added_total += 1;
            m.to_space.insert(l);
        }
        cx.rep.count("copy_nursery", mk_n as u64);
        cx.rep.count("copy_mature", mk_m as u64);
        cx.rep.count("add_live_during_gc", live_adds.len() as u64);
        check_preds(&mut cx, &tm, &m, "after-trace");

        // ---------------- release ----------------
        let got_n: Vec<ObjectReference> = tm.collect_nursery().into_iter().collect();
        cx.step += 1;
        let want_n = std::mem::take(&mut m.collect_nursery);
        check_sweep(&mut cx, "collect_nursery", full, got_n.clone(), &want_n, &marked_set, &m);
        cx.rep.count("swept_nursery", want_n.len() as u64);
        swept_total += got_n.len() as u64;
        free_ids.extend(want_n.iter().copied());
        let mut swept_m = 0;
        if full {
            let got_m: Vec<ObjectReference> = tm.collect_mature().into_iter().collect();
            cx.step += 1;
            let want_m = std::mem::take(&mut m.from_space);
            check_sweep(&mut cx, "collect_mature", full, got_m.clone(), &want_m, &marked_set, &m);
            cx.rep.count("swept_mature", want_m.len() as u64);
            swept_total += got_m.len() as u64;
            swept_m = want_m.len();
            free_ids.extend(want_m.iter().copied());
        }
        check_preds(&mut cx, &tm, &m, "after-release");
        cx.rep.count(if full { "gc_full" } else { "gc_nursery" }, 1);

        // one evaluation per GC
        let nontrivial = n_cand >= 2 && !marked.is_empty() && marked.len() < n_cand;
        if nontrivial {
            let key = [
                full as u64,
                bucket(n_nursery_cand),
                bucket(n_mature_cand),
                (mk_n > 0) as u64,
                (mk_m > 0) as u64,
                (mk_n == n_nursery_cand) as u64,
                (full && mk_m == n_mature_cand) as u64,
                (!live_adds.is_empty()) as u64,
                reused_any as u64,
                (p.threads > 1) as u64,
                (swept_m > 0) as u64,
            ]
            .iter()
            .fold(0xC36u64, |h, &x| mix(h, x));
            cx.rep.eval(key);
        } else {
            cx.rep.evaluations += 1;
        }
        if cx.rep.want_sample() && nontrivial && full && mk_n > 0 && mk_m > 0 {
            cx.rep.sample(J::obj(vec![
                ("history", J::i(hist)),
                ("cycle", J::i(cycle as u64)),
                ("full_heap", J::Bool(full)),
                ("nursery_candidates", J::i(n_nursery_cand as u64)),
                ("mature_candidates", J::i(n_mature_cand as u64)),
                ("marked_nursery", J::i(mk_n as u64)),
                ("marked_mature", J::i(mk_m as u64)),
                ("allocated_as_live_during_gc", J::i(live_adds.len() as u64)),
                ("swept_nursery", J::i(want_n.len() as u64)),
                ("swept_mature", J::i(swept_m as u64)),
            ]));
        }
    }
    // conservation over the whole history
    if m.total() != 0 || added_total != swept_total {
        cx.rep.violation(
            "treadmill:conservation:objects-lost-or-duplicated",
            format!(
                "seed={} history={} added {} objects in total, sweeps returned {} in total, model still holds {} after the final full-heap GC without marks",
                seed, hist, added_total, swept_total, m.total()
            ),
        );
    }
    cx.rep.count("objects_added", added_total);
}

pub fn run(args: &Args, rep: &mut Report) {
    let seed = args.seed();
    let mut rng = Rng::new(seed ^ 0xC36);
    let histories = if args.miri() { 5 } else if args.thorough() { 40_000 } else { 4_000 };
    // `--selftest drop-copy`: the harness skips one copy() per GC while the model marks the object,
    // to show that the oracle fires on a lost marked object; never used by the driver.
    let selftest = args.get("selftest") == Some("drop-copy");
    if selftest {
        rep.note("SELFTEST: the harness deliberately loses marked objects; violations are expected");
    }
    let conc_every = 25; // every 25th history issues copies/adds from several threads
    for h in 0..histories {
        let threads = if h % conc_every == conc_every - 1 { 2 + rng.usize_below(3) } else { 1 };
        let p = Params {
            cycles: 2 + rng.usize_below(if threads > 1 { 10 } else { 30 }),
            max_alloc: *rng.pick(&[1usize, 3, 8, 20, 60, 200]),
            mark_pm: *rng.pick(&[0u64, 100, 300, 500, 700, 900, 1000]),
            full_pm: *rng.pick(&[0u64, 100, 300, 500, 1000]),
            live_gc_pm: *rng.pick(&[0u64, 0, 200, 700]),
            live_mut_pm: *rng.pick(&[0u64, 0, 0, 30]),
            threads,
            selftest,
        };
        one_history(rep, &mut rng, seed, h, &p);
        rep.count("histories", 1);
        if threads > 1 {
            rep.count("histories_concurrent", 1);
        }
    }
    rep.note("histories follow LargeObjectSpace: add(nursery) in mutator time, flip at prepare, copy(o, o in collect nursery) once per marked object (nursery objects only in a nursery GC), allocate-as-live adds to the to-space during trace, collect_nursery (+ collect_mature iff full heap) at release; each history ends with a full-heap GC that marks nothing and must return everything still held");
    rep.note("add_to_treadmill(o, false) in mutator time (documented: 'when allocating as live') is generated at a low rate; add_to_treadmill(o, true) during a GC is never generated (LargeObjectSpace::release debug-asserts the alloc nursery stays empty)");
}
