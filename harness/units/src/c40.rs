//! C40: revisitable group-by partitions its input into maximal runs.
use vcommon::{mix, Args, Report, Rng, J};

fn reference<K: PartialEq + Copy>(items: &[u32], key: impl Fn(&u32) -> K) -> Vec<(K, Vec<u32>)> {
    let mut out: Vec<(K, Vec<u32>)> = vec![];
    for &x in items {
        let k = key(&x);
        match out.last_mut() {
            Some((lk, v)) if *lk == k => v.push(x),
            _ => out.push((k, vec![x])),
        }
    }
    out
}

fn check<K: PartialEq + Copy + std::fmt::Debug>(
    rep: &mut Report,
    items: &[u32],
    keyname: &str,
    key: impl Fn(&u32) -> K + Copy,
) {
    let got = mmtk::verif::rev_group_by(items, key);
    let want = reference(items, key);
    let nontrivial = want.len() >= 2 && want.iter().any(|g| g.1.len() >= 2);
    let class = mix(
        mix(items.len() as u64, want.len() as u64),
        want.iter().fold(0u64, |h, g| mix(h, g.1.len() as u64)),
    );
    rep.evaluations += 1;
    if nontrivial {
        rep.key(mix(class, keyname.len() as u64));
    }
    if rep.want_sample() && nontrivial {
        rep.sample(J::obj(vec![
            ("items", J::Arr(items.iter().map(|x| J::i(*x)).collect())),
            ("key", J::s(keyname)),
            ("groups", J::Arr(got.iter().map(|g| J::i(g.1 as u64)).collect())),
        ]));
    }
    // concatenation = input
    let concat: Vec<u32> = got.iter().flat_map(|g| g.2.iter().copied()).collect();
    let mut bad = None;
    if concat != items {
        bad = Some("concat");
    }
    if got.len() != want.len() {
        bad = Some("group-count");
    }
    for (i, g) in got.iter().enumerate() {
        if g.2.is_empty() {
            bad = Some("empty-group");
        }
        if g.1 != g.2.len() {
            bad = Some("len");
        }
        if g.2.iter().any(|x| key(x) != g.0) {
            bad = Some("key");
        }
        if i > 0 && got[i - 1].0 == g.0 {
            bad = Some("adjacent-equal-keys");
        }
        if let Some(w) = want.get(i) {
            if w.1 != g.2 || w.0 != g.0 {
                bad = bad.or(Some("not-maximal-run"));
            }
        }
    }
    if let Some(b) = bad {
        rep.violation(
            format!("rev_group:{}", b),
            format!("items={:?} key={} got={:?}", items, keyname, got),
        );
    }
    // partial consumption must not change the partition
    let slices: Vec<Vec<u32>> = items.chunks(3).map(|c| c.to_vec()).collect();
    let got2 = mmtk::verif::rev_group_by_partial(&slices, key, |i, len| (i * 7 + 1) % (len + 1));
    rep.evaluations += 1;
    if got2.len() != want.len()
        || got2
            .iter()
            .zip(want.iter())
            .enumerate()
            .any(|(i, (g, w))| {
                let n = (i * 7 + 1) % (w.1.len() + 1);
                g.0 != w.0 || g.1 != w.1.len() || g.2[..] != w.1[..n]
            })
    {
        rep.violation(
            "rev_group:partial-consumption",
            format!("items={:?} key={} got={:?}", items, keyname, got2),
        );
    }
}

fn check_all(rep: &mut Report, items: &[u32]) {
    check(rep, items, "identity", |x| *x);
    check(rep, items, "mod2", |x| *x % 2);
    check(rep, items, "const", |_| 0u8);
    check(rep, items, "ge1", |x| *x >= 1);
}

pub fn run(args: &Args, rep: &mut Report) {
    let mut rng = Rng::new(args.seed() ^ 0xC40);
    // exhaustive: all sequences over a 3-letter alphabet up to length 10 (thorough) / 8 (quick)
    let maxlen = if args.miri() { 4 } else if args.thorough() { 10 } else { 8 };
    let mut exhaustive = 0u64;
    for len in 0..=maxlen {
        let total = 3u64.pow(len as u32);
        for code in 0..total {
            let mut c = code;
            let items: Vec<u32> = (0..len)
                .map(|_| {
                    let d = (c % 3) as u32;
                    c /= 3;
                    d
                })
                .collect();
            check_all(rep, &items);
            exhaustive += 1;
        }
    }
    rep.count("exhaustive_sequences", exhaustive);
    // PRNG long ones
    let n = if args.miri() { 12 } else if args.thorough() { 20000 } else { 2000 };
    for _ in 0..n {
        let len = rng.usize_below(300);
        let alphabet = 1 + rng.below(5) as u32;
        let sticky = rng.below(10);
        let mut items = Vec::with_capacity(len);
        let mut cur = rng.below(alphabet as u64) as u32;
        for _ in 0..len {
            if rng.below(10) >= sticky {
                cur = rng.below(alphabet as u64) as u32;
            }
            items.push(cur);
        }
        check_all(rep, &items);
    }
    rep.count("random_sequences", n);
    rep.note(format!("exhaustive over alphabet 3 up to length {}", maxlen));
}
