//! C18: concurrent mark / log / pin state changes succeed exactly once.
//!
//! K real threads ("racers") are released on the *same* object and all call one transition
//! function; the oracle demands that exactly one of them got `true` and that the field ends up in
//! the transitioned state.  Transition functions (all real mmtk-core code):
//!   `MarkState::test_and_mark` (state 1; for in-header mark bits also the flipped state 0),
//!   `ImmixSpace::attempt_mark`, `MarkCompactSpace::test_and_mark` / `test_and_clear_mark`,
//!   `LargeObjectSpace::test_and_mark` (full-heap and nursery GC, both mark states),
//!   `ObjectBarrier::log_object` (through `Barrier::object_reference_write_slow/_post`; the
//!   barrier semantics only counts slow-path calls), `pin_object` / `unpin_object`,
//!   and the raw load + `compare_exchange` retry loop on run-time-constructed side and header
//!   specs of every width.
//!
//! Placement: the position of a sub-byte field inside its metadata byte is a function of the
//! object address for side specs (objects are placed at all 8 resp. 4 positions) and a constant
//! of the binding for in-header specs (a family of `VMBinding`s puts the mark/pin/log bits at every
//! bit of a shared header byte, the 2-bit LOS field at every legal offset, and at negative
//! offsets).
//!
//! Sub-workload (a): racers only.  Sub-workload (b): racers plus "neighbour" threads, each the
//! sole owner of another field in the same metadata byte, which it keeps changing with the real
//! `store_atomic` (resp. an atomic xor for header bits that belong to the VM) and checks that
//! nobody else ever changes it.  (b) is what 1- and 2-bit fields see in reality.
//!
//! `pin_object` / `unpin_object` are a single byte-wide compare-exchange without retry; with a
//! concurrently changing neighbour they fail although the pin bit itself did not change.  That is
//! a finding of its own and is reproduced only by `--case pin-neighbour`; the main workload runs
//! pin/unpin only in sub-workload (a).
use crate::unitvm::SideVM;
use crate::wdog::{run_with_watchdog, Heartbeat};
use mmtk::util::metadata::header_metadata::HeaderMetadataSpec;
use mmtk::util::metadata::side_metadata::SideMetadataSpec;
use mmtk::util::metadata::MetadataSpec;
use mmtk::util::{Address, ObjectReference};
use mmtk::verif as mv;
use mmtk::verif::Barrier;
use mmtk::vm::slot::SimpleSlot;
use mmtk::vm::{ObjectModel, VMBinding};
use std::panic::{catch_unwind, AssertUnwindSafe};
use std::sync::atomic::{AtomicU32, AtomicU64, AtomicU8, AtomicUsize, Ordering};
use std::sync::{Arc, Barrier as ThreadBarrier, Mutex};
use vcommon::{mix, Args, Report, Rng, J};

const SC: Ordering = Ordering::SeqCst;

fn addr(x: usize) -> Address {
    unsafe { Address::from_usize(x) }
}
fn objref(o: usize) -> ObjectReference {
    unsafe { ObjectReference::from_raw_address_unchecked(addr(o)) }
}
fn hs(s: &str) -> u64 {
    s.bytes().fold(0x18, |a, b| mix(a, b as u64))
}

// ---------------------------------------------------------------------------------------------
// Header binding family: mark/pin/log rotate through the bits of one header byte, the LOS field
// and the forwarding bits through a second one.
// ---------------------------------------------------------------------------------------------

macro_rules! hdr_vm {
    ($name:ident, $b1:expr, $k:expr, $b2:expr, $los:expr, $fb:expr) => {
        crate::define_unit_vm!(
            $name,
            log: mmtk::vm::VMGlobalLogBitSpec::in_header($b1 + ($k + 2) % 8),
            fwd_ptr: mmtk::vm::VMLocalForwardingPointerSpec::in_header(64),
            fwd_bits: mmtk::vm::VMLocalForwardingBitsSpec::in_header($b2 + $fb),
            mark: mmtk::vm::VMLocalMarkBitSpec::in_header($b1 + $k),
            pin: mmtk::vm::VMLocalPinningBitSpec::in_header($b1 + ($k + 1) % 8),
            los: mmtk::vm::VMLocalLOSMarkNurserySpec::in_header($b2 + $los)
        );
    };
}
hdr_vm!(H0, 8, 0, 16, 0, 2);
hdr_vm!(H1, 8, 1, 16, 1, 3);
hdr_vm!(H2, 8, 2, 16, 2, 4);
hdr_vm!(H3, 8, 3, 16, 3, 5);
hdr_vm!(H4, 8, 4, 16, 4, 6);
hdr_vm!(H5, 8, 5, 16, 5, 0);
hdr_vm!(H6, 8, 6, 16, 6, 0);
hdr_vm!(H7, 8, 7, 16, 3, 0);
// header bytes before the object reference
hdr_vm!(HN0, -8, 0, -16, 0, 2);
hdr_vm!(HN5, -8, 5, -16, 6, 0);

const HDR_STRIDE: usize = 64;
const HDR_OBJ_OFF: usize = 16;

// ---------------------------------------------------------------------------------------------
// Round / thread plumbing shared by all targets
// ---------------------------------------------------------------------------------------------

struct Round {
    n: usize,
    racers: usize,
    gate_every: usize,
    gate: Vec<AtomicU32>,
    skew: Vec<u32>,
    /// cell racer 0 is working on (neighbours stay close to it)
    progress: AtomicUsize,
    racers_running: AtomicUsize,
}

/// The loop of one racer: meet the other racers, fire, record.
fn racer_loop(r: &Round, tid: usize, out: &mut Vec<u8>, mut fire: impl FnMut(usize) -> bool) {
    out.clear();
    out.resize(r.n, 0);
    for i in 0..r.n {
        if r.gate_every != 0 && i % r.gate_every == 0 {
            let g = &r.gate[i / r.gate_every];
            g.fetch_add(1, Ordering::AcqRel);
            let mut spins = 0u32;
            while (g.load(Ordering::Acquire) as usize) < r.racers && spins < 2_000_000 {
                std::hint::spin_loop();
                spins += 1;
                if spins % 512 == 0 {
                    std::thread::yield_now();
                }
            }
            for _ in 0..r.skew[tid] {
                std::hint::spin_loop();
            }
        }
        if tid == 0 {
            r.progress.store(i, Ordering::Relaxed);
        }
        out[i] = fire(i) as u8;
    }
    r.racers_running.fetch_sub(1, SC);
}

/// The loop of one neighbour thread: keep stepping the cells the racers are at.
fn neighbour_loop(r: &Round, mut step: impl FnMut(usize)) -> u64 {
    let mut steps = 0u64;
    while r.racers_running.load(Ordering::Relaxed) > 0 {
        let p = r.progress.load(Ordering::Relaxed);
        for d in 0..3 {
            if p + d < r.n {
                step(p + d);
                steps += 1;
            }
        }
        if steps % 1024 < 3 {
            std::thread::yield_now();
        }
    }
    steps
}

#[derive(Default)]
struct NbOut {
    /// last value written per (neighbour field, cell); index = field * n + cell
    last: Vec<u8>,
    clobbered: Vec<String>,
    steps: u64,
}

trait Target: Sync {
    /// e.g. "MarkState::test_and_mark[0->1]"
    fn op_name(&self) -> String;
    /// e.g. "side" or "header:bit_offset=9"
    fn place(&self) -> String;
    fn ncells(&self) -> usize;
    /// number of other fields in the metadata byte of the target field
    fn nfields(&self) -> usize;
    /// quiescent: target field := pre-state, neighbour fields := their start values
    fn reset(&self, rng: &mut Rng);
    fn racer(&self, tid: usize, r: &Round, out: &mut Vec<u8>);
    /// neighbour thread `k` of `m`: owns the fields `k, k+m, ..`
    fn neighbour(&self, k: usize, m: usize, r: &Round, out: &mut NbOut);
    /// quiescent
    fn done(&self, i: usize) -> bool;
    fn describe(&self, i: usize) -> String;
    /// quiescent: current value of neighbour field `f` of cell `i`, and its start value
    fn field_value(&self, f: usize, i: usize) -> u8;
    fn field_start(&self, f: usize, i: usize) -> u8;
}

// ---------------------------------------------------------------------------------------------
// Targets on the specs of a binding
// ---------------------------------------------------------------------------------------------

#[derive(Clone, Copy, PartialEq, Eq, Debug)]
enum Sk {
    Mark,
    Pin,
    Log,
    Los,
    Fb,
}
const ALL_SK: [Sk; 5] = [Sk::Mark, Sk::Pin, Sk::Log, Sk::Los, Sk::Fb];

fn spec_of<VM: VMBinding>(k: Sk) -> MetadataSpec {
    match k {
        Sk::Mark => *VM::VMObjectModel::LOCAL_MARK_BIT_SPEC,
        Sk::Pin => *VM::VMObjectModel::LOCAL_PINNING_BIT_SPEC,
        Sk::Log => *VM::VMObjectModel::GLOBAL_LOG_BIT_SPEC,
        Sk::Los => *VM::VMObjectModel::LOCAL_LOS_MARK_NURSERY_SPEC,
        Sk::Fb => *VM::VMObjectModel::LOCAL_FORWARDING_BITS_SPEC,
    }
}
fn sk_bits(k: Sk) -> u8 {
    match k {
        Sk::Los | Sk::Fb => 2,
        _ => 1,
    }
}

#[derive(Clone, Copy, PartialEq, Eq, Debug)]
enum Op {
    MsMark1,
    MsMark0,
    ImmixMark,
    McMark,
    McClear,
    LosFull(u8),
    LosNursery(u8),
    Log,
    Pin,
    Unpin,
}

impl Op {
    fn sk(self) -> Sk {
        match self {
            Op::MsMark1 | Op::MsMark0 | Op::ImmixMark | Op::McMark | Op::McClear => Sk::Mark,
            Op::LosFull(_) | Op::LosNursery(_) => Sk::Los,
            Op::Log => Sk::Log,
            Op::Pin | Op::Unpin => Sk::Pin,
        }
    }
    fn name(self) -> String {
        match self {
            Op::MsMark1 => "MarkState::test_and_mark[0->1]".into(),
            Op::MsMark0 => "MarkState::test_and_mark[1->0,flipped-state]".into(),
            Op::ImmixMark => "ImmixSpace::attempt_mark[0->1]".into(),
            Op::McMark => "MarkCompactSpace::test_and_mark[0->1]".into(),
            Op::McClear => "MarkCompactSpace::test_and_clear_mark[1->0]".into(),
            Op::LosFull(v) => format!("LargeObjectSpace::test_and_mark[full-gc,mark_state={}]", v),
            Op::LosNursery(v) => format!("LargeObjectSpace::test_and_mark[nursery-gc,mark_state={}]", v),
            Op::Log => "ObjectBarrier::log_object[1->0]".into(),
            Op::Pin => "pin_object[0->1]".into(),
            Op::Unpin => "unpin_object[1->0]".into(),
        }
    }
}

/// How a racer performs the transition: the real function, or a broken re-implementation on the
/// same field (self-test).
#[derive(Clone, Copy, PartialEq, Eq, Debug)]
enum Fire {
    Real,
    /// MUTANT: test, then plain store (no compare-exchange)
    MutLoadStore,
    /// MUTANT: one byte-wide compare-exchange, no retry (fails when a neighbour changed)
    MutCasNoRetry,
    /// MUTANT: non-atomic read-modify-write of the whole metadata byte
    MutByteRmw,
}

impl Fire {
    fn name(self) -> &'static str {
        match self {
            Fire::Real => "real",
            Fire::MutLoadStore => "load+store",
            Fire::MutCasNoRetry => "single-cas-no-retry",
            Fire::MutByteRmw => "non-atomic-byte-rmw",
        }
    }
}

/// Another field in the metadata byte of the target field.
#[derive(Clone, Copy, Debug)]
enum Nb {
    /// header: another spec of the same object
    Spec(Sk),
    /// side: the same spec of the object `d` positions further (cyclically) in the same byte
    Pos(usize),
    /// header: bits of the byte that belong to the VM
    Raw { byte_off: isize, mask: u8 },
}

/// Counts slow-path calls of the object barrier, i.e. `log_object` returning true.
struct CountSem<VM: VMBinding> {
    n: Arc<AtomicU64>,
    _p: std::marker::PhantomData<VM>,
}

impl<VM: VMBinding> mv::BarrierSemantics for CountSem<VM> {
    type VM = VM;
    fn flush(&mut self) {}
    fn object_reference_write_slow(&mut self, _src: ObjectReference, _slot: VM::VMSlot, _target: Option<ObjectReference>) {
        self.n.fetch_add(1, Ordering::Relaxed);
    }
    fn memory_region_copy_slow(&mut self, _src: VM::VMMemorySlice, _dst: VM::VMMemorySlice) {}
}

struct VmTarget<VM: VMBinding<VMSlot = SimpleSlot>> {
    op: Op,
    fire: Fire,
    side: bool,
    /// positions per metadata byte (side) / 1 (header)
    npos: usize,
    /// bytes per field region (side)
    region: usize,
    /// first data address of each cell (side) / object reference (header)
    cell: Vec<usize>,
    pre: Vec<AtomicU8>,
    post: Vec<AtomicU8>,
    nbs: Vec<Nb>,
    start: Vec<AtomicU8>,
    am: mv::AttemptMark<VM>,
    los_full: mv::LosTestAndMark<VM>,
    los_nursery: mv::LosTestAndMark<VM>,
    ms1: mv::MarkState,
    ms0: mv::MarkState,
    _arena: Option<Arena>,
}

struct Arena {
    p: usize,
    bytes: usize,
}
impl Arena {
    fn new(bytes: usize) -> Option<Arena> {
        let p = unsafe {
            libc::mmap(
                std::ptr::null_mut(),
                bytes,
                libc::PROT_READ | libc::PROT_WRITE,
                libc::MAP_PRIVATE | libc::MAP_ANONYMOUS,
                -1,
                0,
            )
        };
        if p == libc::MAP_FAILED {
            None
        } else {
            Some(Arena { p: p as usize, bytes })
        }
    }
}
impl Drop for Arena {
    fn drop(&mut self) {
        unsafe {
            libc::munmap(self.p as *mut libc::c_void, self.bytes);
        }
    }
}

/// Data ranges for side-metadata targets (the data itself is never touched).
static NEXT_DATA: AtomicUsize = AtomicUsize::new(0x2000_0000_0000);
fn data_range(bytes: usize) -> usize {
    let bytes = (bytes + (1 << 22) - 1) & !((1 << 22) - 1);
    NEXT_DATA.fetch_add(bytes + (1 << 22), SC)
}

impl<VM: VMBinding<VMSlot = SimpleSlot>> VmTarget<VM> {
    fn new(op: Op, fire: Fire, n: usize) -> Result<Self, String> {
        let spec = spec_of::<VM>(op.sk());
        let mut ms0 = mv::MarkState::new();
        ms0.on_global_release::<VM>();
        let mut t = VmTarget {
            op,
            fire,
            side: spec.is_on_side(),
            npos: 1,
            region: 0,
            cell: vec![],
            pre: (0..n).map(|_| AtomicU8::new(0)).collect(),
            post: (0..n).map(|_| AtomicU8::new(0)).collect(),
            nbs: vec![],
            start: vec![],
            am: mv::AttemptMark::new(),
            los_full: mv::LosTestAndMark::new(false),
            los_nursery: mv::LosTestAndMark::new(true),
            ms1: mv::MarkState::new(),
            ms0,
            _arena: None,
        };
        match spec {
            MetadataSpec::OnSide(s) => {
                let bits = 1usize << s.log_num_of_bits;
                t.npos = 8 / bits;
                t.region = 1usize << s.log_bytes_in_region;
                let cell_bytes = t.npos * t.region;
                let bytes = (n * cell_bytes + 4095) & !4095;
                let base = data_range(bytes);
                if !mv::map_side_metadata(&[s], addr(base), bytes) {
                    return Err(format!("could not map side metadata of {} for {} bytes", s.name, bytes));
                }
                t.cell = (0..n).map(|i| base + i * cell_bytes).collect();
                t.nbs = (1..t.npos).map(Nb::Pos).collect();
            }
            MetadataSpec::InHeader(h) => {
                let bytes = (n * HDR_STRIDE + 8192 + 4095) & !4095;
                let arena = Arena::new(bytes).ok_or("could not map object memory")?;
                t.cell = (0..n).map(|i| arena.p + 4096 + i * HDR_STRIDE + HDR_OBJ_OFF).collect();
                t._arena = Some(arena);
                let byte = h.bit_offset >> 3;
                let mut used = 0u8;
                for k in ALL_SK {
                    if let MetadataSpec::InHeader(o) = spec_of::<VM>(k) {
                        if (o.bit_offset >> 3) == byte {
                            let sh = (o.bit_offset - (byte << 3)) as u8;
                            used |= (((1u16 << o.num_of_bits) - 1) as u8) << sh;
                            if k != op.sk() {
                                t.nbs.push(Nb::Spec(k));
                            }
                        }
                    }
                }
                if used != 0xff {
                    t.nbs.push(Nb::Raw { byte_off: byte, mask: !used });
                }
            }
        }
        t.start = (0..t.nbs.len() * n).map(|_| AtomicU8::new(0)).collect();
        Ok(t)
    }

    fn pos(&self, i: usize) -> usize {
        i % self.npos
    }
    /// The racing object of cell `i`.
    fn obj(&self, i: usize) -> ObjectReference {
        if self.side {
            objref(self.cell[i] + self.pos(i) * self.region)
        } else {
            objref(self.cell[i])
        }
    }
    fn spec(&self) -> MetadataSpec {
        spec_of::<VM>(self.op.sk())
    }
    fn load_target(&self, i: usize) -> u8 {
        self.spec().load_atomic::<VM, u8>(self.obj(i), None, SC)
    }

    /// (spec, object) of a spec-backed neighbour field.
    fn nb_loc(&self, f: usize, i: usize) -> Option<(MetadataSpec, ObjectReference, u8)> {
        match self.nbs[f] {
            Nb::Spec(k) => Some((spec_of::<VM>(k), objref(self.cell[i]), sk_bits(k))),
            Nb::Pos(d) => Some((
                self.spec(),
                objref(self.cell[i] + ((self.pos(i) + d) % self.npos) * self.region),
                sk_bits(self.op.sk()),
            )),
            Nb::Raw { .. } => None,
        }
    }
    fn nb_load(&self, f: usize, i: usize) -> u8 {
        match self.nbs[f] {
            Nb::Raw { byte_off, mask } => {
                let a = (self.cell[i] as isize + byte_off) as usize as *const AtomicU8;
                unsafe { (*a).load(SC) & mask }
            }
            _ => {
                let (s, o, _) = self.nb_loc(f, i).unwrap();
                s.load_atomic::<VM, u8>(o, None, SC)
            }
        }
    }
    /// The owner of the field changes it from `old` to `new`.
    fn nb_store(&self, f: usize, i: usize, old: u8, new: u8) {
        match self.nbs[f] {
            Nb::Raw { byte_off, mask } => {
                let a = (self.cell[i] as isize + byte_off) as usize as *const AtomicU8;
                unsafe { (*a).fetch_xor((old ^ new) & mask, SC) };
            }
            _ => {
                let (s, o, _) = self.nb_loc(f, i).unwrap();
                s.store_atomic::<VM, u8>(o, new, None, SC);
            }
        }
    }
    fn nb_next(&self, f: usize, old: u8, salt: u64) -> u8 {
        match self.nbs[f] {
            Nb::Raw { mask, .. } => {
                let x = (mix(salt, old as u64) as u8) & mask;
                if x == old {
                    !old & mask
                } else {
                    x
                }
            }
            Nb::Spec(k) => (old + 1) & ((1 << sk_bits(k)) - 1),
            Nb::Pos(_) => (old + 1) & ((1 << sk_bits(self.op.sk())) - 1),
        }
    }

    /// Address, shift and mask of the target field inside its metadata byte (for the mutants).
    fn raw_loc(&self, i: usize) -> (*const AtomicU8, u8, u8) {
        let w = ((1u16 << sk_bits(self.op.sk())) - 1) as u8;
        match self.spec() {
            MetadataSpec::OnSide(s) => {
                let a = self.obj(i).to_raw_address();
                let sh = mv::meta_byte_lshift(&s, a);
                (mv::address_to_meta_address(&s, a).as_usize() as *const AtomicU8, sh, w << sh)
            }
            MetadataSpec::InHeader(h) => {
                let byte = h.bit_offset >> 3;
                let sh = (h.bit_offset - (byte << 3)) as u8;
                ((self.cell[i] as isize + byte) as usize as *const AtomicU8, sh, w << sh)
            }
        }
    }

    fn fire_real(&self, i: usize, bar: &mut mv::ObjectBarrier<CountSem<VM>>, cnt: &AtomicU64) -> bool {
        let o = self.obj(i);
        match self.op {
            Op::MsMark1 => self.ms1.test_and_mark::<VM>(o),
            Op::MsMark0 => self.ms0.test_and_mark::<VM>(o),
            Op::ImmixMark => self.am.attempt_mark(o, 1),
            Op::McMark => mv::MarkCompactSpace::<VM>::test_and_mark(o),
            Op::McClear => mv::MarkCompactSpace::<VM>::test_and_clear_mark(o),
            Op::LosFull(v) => self.los_full.test_and_mark(o, v),
            Op::LosNursery(v) => self.los_nursery.test_and_mark(o, v),
            Op::Log => {
                let before = cnt.load(Ordering::Relaxed);
                let slot = SimpleSlot::from_address(o.to_raw_address());
                if i & 1 == 0 {
                    bar.object_reference_write_slow(o, slot, None);
                } else {
                    bar.object_reference_write_post(o, slot, None);
                }
                cnt.load(Ordering::Relaxed) != before
            }
            Op::Pin => VM::VMObjectModel::LOCAL_PINNING_BIT_SPEC.pin_object::<VM>(o),
            Op::Unpin => VM::VMObjectModel::LOCAL_PINNING_BIT_SPEC.unpin_object::<VM>(o),
        }
    }

    fn fire_mutant(&self, i: usize) -> bool {
        let o = self.obj(i);
        let s = self.spec();
        let post = self.post[i].load(Ordering::Relaxed);
        match self.fire {
            Fire::MutLoadStore => {
                if s.load_atomic::<VM, u8>(o, None, SC) == post {
                    false
                } else {
                    s.store_atomic::<VM, u8>(o, post, None, SC);
                    true
                }
            }
            Fire::MutCasNoRetry => {
                let pre = self.pre[i].load(Ordering::Relaxed);
                s.compare_exchange_metadata::<VM, u8>(o, pre, post, None, SC, SC).is_ok()
            }
            Fire::MutByteRmw => {
                let (a, sh, m) = self.raw_loc(i);
                let a = unsafe { &*a };
                let b = a.load(SC);
                if (b & m) >> sh == post {
                    false
                } else {
                    for _ in 0..20 {
                        std::hint::spin_loop();
                    }
                    a.store((b & !m) | (post << sh), SC);
                    true
                }
            }
            Fire::Real => unreachable!(),
        }
    }
}

impl<VM: VMBinding<VMSlot = SimpleSlot>> Target for VmTarget<VM> {
    fn op_name(&self) -> String {
        if self.fire == Fire::Real {
            self.op.name()
        } else {
            format!("MUTANT({}) of {}", self.fire.name(), self.op.name())
        }
    }
    fn place(&self) -> String {
        match self.spec() {
            MetadataSpec::OnSide(_) => "side".into(),
            MetadataSpec::InHeader(h) => format!("header:bit_offset={}", h.bit_offset),
        }
    }
    fn ncells(&self) -> usize {
        self.cell.len()
    }
    fn nfields(&self) -> usize {
        self.nbs.len()
    }
    fn reset(&self, rng: &mut Rng) {
        let n = self.cell.len();
        let s = self.spec();
        for i in 0..n {
            let (pre, post) = match self.op {
                Op::MsMark1 | Op::ImmixMark | Op::McMark | Op::Pin => (0, 1),
                Op::MsMark0 | Op::McClear | Op::Log | Op::Unpin => (1, 0),
                // full-heap GC: the mark state has just flipped; the object may or may not carry the nursery bit
                Op::LosFull(v) => ((v ^ 1) | if rng.chance(1, 2) { 0b10 } else { 0 }, v),
                // nursery GC: only nursery objects (current mark state + nursery bit) are marked
                Op::LosNursery(v) => (v | 0b10, v),
            };
            self.pre[i].store(pre, Ordering::Relaxed);
            self.post[i].store(post, Ordering::Relaxed);
            if !self.side {
                // random content for the whole header neighbourhood (bytes -16..16)
                for w in -2isize..2 {
                    let p = (self.cell[i] as isize + w * 8) as usize as *mut u64;
                    unsafe { p.write_volatile(rng.next()) };
                }
            }
            for f in 0..self.nbs.len() {
                let v = match self.nbs[f] {
                    Nb::Raw { .. } => self.nb_load(f, i),
                    _ => {
                        let (ns, no, _) = self.nb_loc(f, i).unwrap();
                        ns.store_atomic::<VM, u8>(no, 0, None, SC);
                        0
                    }
                };
                self.start[f * n + i].store(v, Ordering::Relaxed);
            }
            s.store_atomic::<VM, u8>(self.obj(i), pre, None, SC);
        }
    }
    fn racer(&self, tid: usize, r: &Round, out: &mut Vec<u8>) {
        let cnt = Arc::new(AtomicU64::new(0));
        let mut bar = mv::ObjectBarrier::new(CountSem::<VM> { n: cnt.clone(), _p: std::marker::PhantomData });
        if self.fire == Fire::Real {
            racer_loop(r, tid, out, |i| self.fire_real(i, &mut bar, &cnt));
        } else {
            racer_loop(r, tid, out, |i| self.fire_mutant(i));
        }
    }
    fn neighbour(&self, k: usize, m: usize, r: &Round, out: &mut NbOut) {
        let n = self.cell.len();
        let nf = self.nbs.len();
        out.last = (0..nf * n).map(|x| self.start[x].load(Ordering::Relaxed)).collect();
        out.clobbered.clear();
        let mut salt = 0x5eed ^ k as u64;
        out.steps = neighbour_loop(r, |i| {
            let mut f = k;
            while f < nf {
                let last = out.last[f * n + i];
                let cur = self.nb_load(f, i);
                if cur != last && out.clobbered.len() < 4 {
                    out.clobbered.push(format!(
                        "cell {} neighbour field {:?}: its only writer wrote {:#b} and now reads {:#b}; {}",
                        i,
                        self.nbs[f],
                        last,
                        cur,
                        self.describe(i)
                    ));
                }
                salt = salt.wrapping_add(0x9E37_79B9_7F4A_7C15);
                let new = self.nb_next(f, cur, salt);
                self.nb_store(f, i, cur, new);
                out.last[f * n + i] = new;
                f += m;
            }
        });
    }
    fn done(&self, i: usize) -> bool {
        self.load_target(i) == self.post[i].load(Ordering::Relaxed)
    }
    fn describe(&self, i: usize) -> String {
        let (a, sh, m) = self.raw_loc(i);
        format!(
            "object {:#x} field at bit {} (mask {:#010b}) of metadata byte {:#x} (byte now {:#010b}); pre-state {:#b}, transitioned state {:#b}, field now {:#b}",
            self.obj(i).to_raw_address().as_usize(),
            sh,
            m,
            a as usize,
            unsafe { (*a).load(SC) },
            self.pre[i].load(Ordering::Relaxed),
            self.post[i].load(Ordering::Relaxed),
            self.load_target(i)
        )
    }
    fn field_value(&self, f: usize, i: usize) -> u8 {
        self.nb_load(f, i)
    }
    fn field_start(&self, f: usize, i: usize) -> u8 {
        self.start[f * self.cell.len() + i].load(Ordering::Relaxed)
    }
}

// ---------------------------------------------------------------------------------------------
// The raw load + compare_exchange retry loop on run-time-constructed specs of every width
// ---------------------------------------------------------------------------------------------

#[derive(Clone, Copy)]
enum RawSpec {
    Side(SideMetadataSpec),
    Header(HeaderMetadataSpec),
}

struct RawTarget {
    spec: RawSpec,
    bits: usize,
    /// data address (side) / header address (header) of the racing field per cell
    loc: Vec<usize>,
    pre: Vec<AtomicU64>,
    post: Vec<AtomicU64>,
    /// neighbour fields per cell: (address of an AtomicU8, mask) owned by the neighbours
    nb: Vec<Vec<(usize, u8)>>,
    nfields: usize,
    start: Vec<AtomicU8>,
    _arena: Option<Arena>,
}

macro_rules! raw_ops {
    ($t:ty, $load:ident, $cas:ident, $store:ident) => {
        fn $load(s: &RawSpec, a: usize) -> u64 {
            match s {
                RawSpec::Side(s) => s.load_atomic::<$t>(addr(a), SC) as u64,
                RawSpec::Header(h) => h.load_atomic::<$t>(addr(a), None, SC) as u64,
            }
        }
        fn $cas(s: &RawSpec, a: usize, old: u64, new: u64) -> bool {
            match s {
                RawSpec::Side(s) => s.compare_exchange_atomic::<$t>(addr(a), old as $t, new as $t, SC, SC).is_ok(),
                RawSpec::Header(h) => h.compare_exchange::<$t>(addr(a), old as $t, new as $t, None, SC, SC).is_ok(),
            }
        }
        fn $store(s: &RawSpec, a: usize, v: u64) {
            match s {
                RawSpec::Side(s) => s.store_atomic::<$t>(addr(a), v as $t, SC),
                RawSpec::Header(h) => h.store_atomic::<$t>(addr(a), v as $t, None, SC),
            }
        }
    };
}
raw_ops!(u8, load8, cas8, store8);
raw_ops!(u16, load16, cas16, store16);
raw_ops!(u32, load32, cas32, store32);
raw_ops!(u64, load64, cas64, store64);

impl RawTarget {
    fn load(&self, a: usize) -> u64 {
        match self.bits {
            16 => load16(&self.spec, a),
            32 => load32(&self.spec, a),
            64 => load64(&self.spec, a),
            _ => load8(&self.spec, a),
        }
    }
    fn cas(&self, a: usize, old: u64, new: u64) -> bool {
        match self.bits {
            16 => cas16(&self.spec, a, old, new),
            32 => cas32(&self.spec, a, old, new),
            64 => cas64(&self.spec, a, old, new),
            _ => cas8(&self.spec, a, old, new),
        }
    }
    fn store(&self, a: usize, v: u64) {
        match self.bits {
            16 => store16(&self.spec, a, v),
            32 => store32(&self.spec, a, v),
            64 => store64(&self.spec, a, v),
            _ => store8(&self.spec, a, v),
        }
    }
    fn maxv(&self) -> u64 {
        if self.bits >= 64 {
            !0
        } else {
            (1u64 << self.bits) - 1
        }
    }

    /// Side spec with `1 << log_bits` bits per `1 << log_region` bytes, laid over the metadata
    /// range of SideVM's mark-bit spec (same density, so it stays inside the reserved range).
    fn new_side(log_bits: usize, n: usize) -> Result<Self, String> {
        let host = match *<SideVM as ObjectModel<SideVM>>::LOCAL_MARK_BIT_SPEC {
            MetadataSpec::OnSide(s) => s,
            _ => unreachable!(),
        };
        let spec = SideMetadataSpec {
            name: "verif-raw",
            is_global: false,
            offset: host.offset,
            log_num_of_bits: log_bits,
            log_bytes_in_region: host.log_bytes_in_region + log_bits,
        };
        let bits = 1usize << log_bits;
        let region = 1usize << spec.log_bytes_in_region;
        // a cell = one metadata byte (sub-byte fields) or three adjacent fields (wider ones)
        let npos = if bits < 8 { 8 / bits } else { 3 };
        let cell_bytes = npos * region;
        let bytes = (n * cell_bytes + 4095) & !4095;
        let base = data_range(bytes);
        if !mv::map_side_metadata(&[spec], addr(base), bytes) {
            return Err("could not map side metadata for a run-time spec".into());
        }
        let mut loc = vec![];
        let mut nb = vec![];
        for i in 0..n {
            let pos = if bits < 8 { i % npos } else { 1 };
            let a = base + i * cell_bytes + pos * region;
            loc.push(a);
            let meta = mv::address_to_meta_address(&spec, addr(a)).as_usize();
            let mut v = vec![];
            if bits < 8 {
                let sh = mv::meta_byte_lshift(&spec, addr(a));
                let m = (((1u16 << bits) - 1) as u8) << sh;
                // the rest of the metadata byte, split into two neighbour fields
                let rest = !m;
                let lo = rest & 0x0f;
                let hi = rest & 0xf0;
                v.push((meta, lo));
                v.push((meta, hi));
            } else {
                // the last byte of the field before and the first byte of the field after
                v.push((meta - 1, 0xff));
                v.push((meta + bits / 8, 0xff));
            }
            nb.push(v);
        }
        Ok(RawTarget {
            spec: RawSpec::Side(spec),
            bits,
            loc,
            pre: (0..n).map(|_| AtomicU64::new(0)).collect(),
            post: (0..n).map(|_| AtomicU64::new(0)).collect(),
            nfields: 2,
            start: (0..2 * n).map(|_| AtomicU8::new(0)).collect(),
            nb,
            _arena: None,
        })
    }

    fn new_header(bit_offset: isize, bits: usize, n: usize) -> Result<Self, String> {
        let spec = HeaderMetadataSpec { bit_offset, num_of_bits: bits };
        let bytes = (n * HDR_STRIDE + 8192 + 4095) & !4095;
        let arena = Arena::new(bytes).ok_or("could not map object memory")?;
        let mut loc = vec![];
        let mut nb = vec![];
        for i in 0..n {
            let h = arena.p + 4096 + i * HDR_STRIDE + HDR_OBJ_OFF;
            loc.push(h);
            let byte = (h as isize + (bit_offset >> 3)) as usize;
            let mut v = vec![];
            if bits < 8 {
                let sh = (bit_offset - ((bit_offset >> 3) << 3)) as u8;
                let m = (((1u16 << bits) - 1) as u8) << sh;
                let rest = !m;
                // split the remaining bits into (up to) two neighbour fields
                let lowest = rest & rest.wrapping_neg();
                let a = if rest.count_ones() > 1 { rest & !lowest } else { 0 };
                v.push((byte, lowest));
                v.push((byte, a));
            } else {
                v.push((byte - 1, 0xff));
                v.push((byte + bits / 8, 0xff));
            }
            nb.push(v);
        }
        Ok(RawTarget {
            spec: RawSpec::Header(spec),
            bits,
            loc,
            pre: (0..n).map(|_| AtomicU64::new(0)).collect(),
            post: (0..n).map(|_| AtomicU64::new(0)).collect(),
            nfields: 2,
            start: (0..2 * n).map(|_| AtomicU8::new(0)).collect(),
            nb,
            _arena: Some(arena),
        })
    }
}

impl Target for RawTarget {
    fn op_name(&self) -> String {
        format!("load+compare_exchange-loop[{}-bit]", self.bits)
    }
    fn place(&self) -> String {
        match self.spec {
            RawSpec::Side(_) => "side-runtime-spec".into(),
            RawSpec::Header(h) => format!("header-runtime-spec:bit_offset={}", h.bit_offset),
        }
    }
    fn ncells(&self) -> usize {
        self.loc.len()
    }
    fn nfields(&self) -> usize {
        self.nfields
    }
    fn reset(&self, rng: &mut Rng) {
        let n = self.loc.len();
        for i in 0..n {
            let pre = rng.next() & self.maxv();
            let mut post = rng.next() & self.maxv();
            if post == pre {
                post = pre ^ 1;
            }
            self.pre[i].store(pre, Ordering::Relaxed);
            self.post[i].store(post, Ordering::Relaxed);
            for f in 0..self.nfields {
                let (a, m) = self.nb[i][f];
                let v = (rng.next() as u8) & m;
                if m != 0 {
                    let p = unsafe { &*(a as *const AtomicU8) };
                    let old = p.load(SC);
                    p.store((old & !m) | v, SC);
                }
                self.start[f * n + i].store(v, Ordering::Relaxed);
            }
            self.store(self.loc[i], pre);
        }
    }
    fn racer(&self, tid: usize, r: &Round, out: &mut Vec<u8>) {
        racer_loop(r, tid, out, |i| {
            let a = self.loc[i];
            let post = self.post[i].load(Ordering::Relaxed);
            // the loop shape of test_and_mark / attempt_mark / log_object
            loop {
                let old = self.load(a);
                if old == post {
                    return false;
                }
                if self.cas(a, old, post) {
                    return true;
                }
            }
        });
    }
    fn neighbour(&self, k: usize, m: usize, r: &Round, out: &mut NbOut) {
        let n = self.loc.len();
        out.last = (0..self.nfields * n).map(|x| self.start[x].load(Ordering::Relaxed)).collect();
        out.clobbered.clear();
        let mut salt = 0x5eed ^ k as u64;
        out.steps = neighbour_loop(r, |i| {
            let mut f = k;
            while f < self.nfields {
                let (a, mask) = self.nb[i][f];
                if mask != 0 {
                    let p = unsafe { &*(a as *const AtomicU8) };
                    let last = out.last[f * n + i];
                    let cur = p.load(SC) & mask;
                    if cur != last && out.clobbered.len() < 4 {
                        out.clobbered.push(format!(
                            "cell {} neighbour bits {:#010b} of byte {:#x}: their only writer wrote {:#b} and now reads {:#b}; {}",
                            i, mask, a, last, cur, self.describe(i)
                        ));
                    }
                    salt = salt.wrapping_add(0x9E37_79B9_7F4A_7C15);
                    let mut new = (mix(salt, cur as u64) as u8) & mask;
                    if new == cur {
                        new = !cur & mask;
                    }
                    p.fetch_xor(cur ^ new, SC);
                    out.last[f * n + i] = new;
                }
                f += m;
            }
        });
    }
    fn done(&self, i: usize) -> bool {
        self.load(self.loc[i]) == self.post[i].load(Ordering::Relaxed)
    }
    fn describe(&self, i: usize) -> String {
        format!(
            "field at {:#x}: pre-state {:#x}, transitioned state {:#x}, now {:#x}",
            self.loc[i],
            self.pre[i].load(Ordering::Relaxed),
            self.post[i].load(Ordering::Relaxed),
            self.load(self.loc[i])
        )
    }
    fn field_value(&self, f: usize, i: usize) -> u8 {
        let (a, m) = self.nb[i][f];
        if m == 0 {
            0
        } else {
            unsafe { (*(a as *const AtomicU8)).load(SC) & m }
        }
    }
    fn field_start(&self, f: usize, i: usize) -> u8 {
        self.start[f * self.loc.len() + i].load(Ordering::Relaxed)
    }
}

// ---------------------------------------------------------------------------------------------
// Driver + oracle
// ---------------------------------------------------------------------------------------------

#[derive(Default)]
struct Stats {
    objects_a: u64,
    objects_b: u64,
    neighbour_steps: u64,
    won_by_thread0: u64,
    won_by_other: u64,
    configs: u64,
}

/// `rounds` rounds of `k` racers (+ `m` neighbour threads) on `t`.
fn run_config(
    t: &dyn Target,
    k: usize,
    m: usize,
    rounds: u64,
    seed: u64,
    rng: &mut Rng,
    rep: &mut Report,
    st: &mut Stats,
    hb: &Heartbeat,
    stop_on_violation: bool,
) {
    let n = t.ncells();
    let m = m.min(t.nfields());
    let flood = std::cell::Cell::new(0u32);
    let describe = |i: usize| {
        if flood.get() > 40 {
            return String::from("(detail omitted: many violations already reported)");
        }
        flood.set(flood.get() + 1);
        t.describe(i)
    };
    let wl = if m == 0 { "a:racers-only" } else { "b:with-neighbours" };
    let sig_base = format!("trans:{}:{}:{}", t.op_name(), t.place(), wl);
    let ctx = format!("seed={} racers={} neighbour-threads={} (fields sharing the byte: {})", seed, k, m, t.nfields());
    let start = ThreadBarrier::new(k + m + 1);
    let end = ThreadBarrier::new(k + m + 1);
    let cur: Mutex<Option<Arc<Round>>> = Mutex::new(None);
    let outs: Vec<Mutex<(Vec<u8>, Option<String>)>> = (0..k).map(|_| Mutex::new((vec![], None))).collect();
    let nouts: Vec<Mutex<NbOut>> = (0..m).map(|_| Mutex::new(NbOut::default())).collect();
    st.configs += 1;

    std::thread::scope(|s| {
        for tid in 0..k {
            let (start, end, cur, outs) = (&start, &end, &cur, &outs);
            s.spawn(move || loop {
                start.wait();
                let r = cur.lock().unwrap().clone();
                let Some(r) = r else { break };
                {
                    let mut o = outs[tid].lock().unwrap();
                    let o = &mut *o;
                    let res = catch_unwind(AssertUnwindSafe(|| t.racer(tid, &r, &mut o.0)));
                    if let Err(e) = res {
                        r.racers_running.fetch_sub(1, SC);
                        o.1 = Some(
                            e.downcast_ref::<String>()
                                .cloned()
                                .or_else(|| e.downcast_ref::<&str>().map(|s| s.to_string()))
                                .unwrap_or_else(|| "panic".into()),
                        );
                    }
                }
                end.wait();
            });
        }
        for nk in 0..m {
            let (start, end, cur, nouts) = (&start, &end, &cur, &nouts);
            s.spawn(move || loop {
                start.wait();
                let r = cur.lock().unwrap().clone();
                let Some(r) = r else { break };
                {
                    let mut o = nouts[nk].lock().unwrap();
                    t.neighbour(nk, m, &r, &mut o);
                }
                end.wait();
            });
        }

        let v0 = rep.violation_count;
        for round in 0..rounds {
            if stop_on_violation && rep.violation_count > 0 {
                break;
            }
            if rep.violation_count - v0 > 2000 {
                rep.count("configs_cut_short_after_2000_violations", 1);
                break;
            }
            hb.tick();
            t.reset(rng);
            let gate_every = match rng.below(6) {
                0 => 0,
                1 => 8,
                _ => 1,
            };
            let gates = if gate_every == 0 { 0 } else { n.div_ceil(gate_every) };
            let r = Arc::new(Round {
                n,
                racers: k,
                gate_every,
                gate: (0..gates).map(|_| AtomicU32::new(0)).collect(),
                skew: (0..k).map(|_| if rng.chance(1, 2) { 0 } else { rng.below(60) as u32 }).collect(),
                progress: AtomicUsize::new(0),
                racers_running: AtomicUsize::new(k),
            });
            *cur.lock().unwrap() = Some(r.clone());
            start.wait();
            end.wait();
            *cur.lock().unwrap() = None;

            // ---- quiescent: oracle ----
            let o: Vec<_> = outs.iter().map(|x| x.lock().unwrap()).collect();
            let mut dead = false;
            for (tid, x) in o.iter().enumerate() {
                if let Some(p) = &x.1 {
                    rep.violation(format!("{}:panicked", sig_base), format!("{} round={} racer {} panicked: {}", ctx, round, tid, p));
                    dead = true;
                }
            }
            if dead {
                break;
            }
            for i in 0..n {
                let res: Vec<u8> = o.iter().map(|x| x.0[i]).collect();
                let trues = res.iter().filter(|&&b| b != 0).count();
                if trues != 1 {
                    rep.violation(
                        format!("{}:{}", sig_base, if trues == 0 { "no-thread-got-true" } else { "several-threads-got-true" }),
                        format!("{} round={} cell {}: results per racer {:?}; {}", ctx, round, i, res, describe(i)),
                    );
                } else if res[0] != 0 {
                    st.won_by_thread0 += 1;
                } else {
                    st.won_by_other += 1;
                }
                if !t.done(i) {
                    rep.violation(
                        format!("{}:final-state-not-transitioned", sig_base),
                        format!("{} round={} cell {}: results per racer {:?}; {}", ctx, round, i, res, describe(i)),
                    );
                }
                if m == 0 {
                    // nobody owns the other fields: they must be unchanged
                    for f in 0..t.nfields() {
                        if t.field_value(f, i) != t.field_start(f, i) {
                            rep.violation(
                                format!("{}:other-field-in-byte-changed", sig_base),
                                format!(
                                    "{} round={} cell {} field {}: was {:#b} now {:#b}; {}",
                                    ctx, round, i, f, t.field_start(f, i), t.field_value(f, i), describe(i)
                                ),
                            );
                        }
                    }
                    st.objects_a += 1;
                } else {
                    st.objects_b += 1;
                }
            }
            for (nk, x) in nouts.iter().enumerate() {
                let x = x.lock().unwrap();
                st.neighbour_steps += x.steps;
                for c in &x.clobbered {
                    rep.violation(format!("{}:neighbour-field-clobbered", sig_base), format!("{} round={} {}", ctx, round, c));
                }
                let mut f = nk;
                while f < t.nfields() {
                    for i in 0..n {
                        let v = t.field_value(f, i);
                        if v != x.last[f * n + i] {
                            rep.violation(
                                format!("{}:neighbour-field-clobbered", sig_base),
                                format!(
                                    "{} round={} cell {} neighbour field {}: final value {:#b}, its only writer last wrote {:#b}; {}",
                                    ctx, round, i, f, v, x.last[f * n + i], describe(i)
                                ),
                            );
                            break;
                        }
                    }
                    f += m;
                }
            }
            let key = mix(mix(hs(&t.op_name()), hs(&t.place())), mix(k as u64, mix(m as u64, gate_every as u64)));
            if k >= 2 {
                rep.eval(key);
                rep.evaluations += n as u64 - 1;
            } else {
                rep.evaluations += n as u64;
            }
            if rep.want_sample() && m > 0 && round == 0 && !stop_on_violation && (st.configs % 37 == 5) {
                let res: Vec<u8> = o.iter().map(|x| x.0[3]).collect();
                rep.sample(J::obj(vec![
                    ("transition", J::s(t.op_name())),
                    ("placement", J::s(t.place())),
                    ("racers", J::i(k as u64)),
                    ("neighbour_threads", J::i(m as u64)),
                    ("results_cell3", J::s(format!("{:?}", res))),
                    ("state", J::s(t.describe(3))),
                ]));
            }
        }
        *cur.lock().unwrap() = None;
        start.wait();
    });
}

fn vm_targets<VM: VMBinding<VMSlot = SimpleSlot>>(n: usize, out: &mut Vec<Box<dyn Target>>, errs: &mut Vec<String>) {
    let header = spec_of::<VM>(Sk::Mark).is_in_header();
    let mut ops = vec![
        Op::MsMark1,
        Op::ImmixMark,
        Op::McMark,
        Op::McClear,
        Op::LosFull(0),
        Op::LosFull(1),
        Op::LosNursery(0),
        Op::LosNursery(1),
        Op::Log,
        Op::Pin,
        Op::Unpin,
    ];
    if header {
        ops.push(Op::MsMark0);
    }
    for op in ops {
        match VmTarget::<VM>::new(op, Fire::Real, n) {
            Ok(t) => out.push(Box::new(t)),
            Err(e) => errs.push(e),
        }
    }
}

fn retries(t: &dyn Target) -> bool {
    let n = t.op_name();
    !(n.starts_with("pin_object") || n.starts_with("unpin_object"))
}

fn selftest(seed: u64, rng: &mut Rng, rep: &mut Report, hb: &Heartbeat) {
    // (mutant, racers, neighbour threads, what must be flagged)
    let plan: Vec<(Box<dyn Target>, usize, usize, &str)> = vec![
        (Box::new(VmTarget::<SideVM>::new(Op::MsMark1, Fire::MutLoadStore, 256).unwrap()), 4, 0, "several-threads-got-true"),
        (Box::new(VmTarget::<H3>::new(Op::Log, Fire::MutLoadStore, 256).unwrap()), 4, 0, "several-threads-got-true"),
        (Box::new(VmTarget::<SideVM>::new(Op::McMark, Fire::MutCasNoRetry, 256).unwrap()), 2, 3, "no-thread-got-true"),
        (Box::new(VmTarget::<H5>::new(Op::MsMark0, Fire::MutCasNoRetry, 256).unwrap()), 2, 3, "no-thread-got-true"),
        (Box::new(VmTarget::<HN0>::new(Op::LosFull(1), Fire::MutCasNoRetry, 256).unwrap()), 2, 2, "no-thread-got-true"),
        (Box::new(VmTarget::<SideVM>::new(Op::ImmixMark, Fire::MutByteRmw, 256).unwrap()), 1, 3, "neighbour-field-clobbered"),
        (Box::new(VmTarget::<H1>::new(Op::McClear, Fire::MutByteRmw, 256).unwrap()), 1, 3, "neighbour-field-clobbered"),
    ];
    let mut caught = 0u64;
    let total = plan.len() as u64;
    let mut sigs = vec![];
    for (t, k, m, want) in plan {
        let mut scratch = Report::new("selftest");
        let mut st = Stats::default();
        run_config(&*t, k, m, 300, seed, rng, &mut scratch, &mut st, hb, true);
        if let Some((s, _)) = scratch.violations.iter().find(|(s, _)| s.ends_with(want)) {
            caught += 1;
            sigs.push(s.clone());
        } else {
            rep.inconclusive(format!(
                "oracle self-test: {} at {} ({} racers, {} neighbour threads) was NOT flagged as '{}' (flagged: {:?})",
                t.op_name(),
                t.place(),
                k,
                m,
                want,
                scratch.violations.iter().map(|(s, _)| s.clone()).collect::<Vec<_>>()
            ));
        }
    }
    rep.count("selftest_mutants_total", total);
    rep.count("selftest_mutants_caught", caught);
    rep.note(format!("self-test (same driver and oracle): {}", sigs.join("; ")));
}

// ---------------------------------------------------------------------------------------------
// --case pin-neighbour: every thread is the only pinner of its own object
// ---------------------------------------------------------------------------------------------

/// Threads `0..t` each own one object per cell; the objects' pin bits share one metadata byte.
/// Thread `x` calls `pin_object(own)` (own pin bit is 0 and nobody else touches it), then
/// `unpin_object(own)`.  Expected: both return true.
fn pin_case_side(rep: &mut Report, rng: &mut Rng, seed: u64, threads: usize, stride_words: usize, rounds: u64, n: usize) -> (u64, u64) {
    let spec = match *<SideVM as ObjectModel<SideVM>>::LOCAL_PINNING_BIT_SPEC {
        MetadataSpec::OnSide(s) => s,
        _ => unreachable!(),
    };
    let pin = &<SideVM as ObjectModel<SideVM>>::LOCAL_PINNING_BIT_SPEC;
    let cell_bytes = 64usize; // one pin-bit byte covers 8 words
    let bytes = (n * cell_bytes + 4095) & !4095;
    let base = data_range(bytes);
    if !mv::map_side_metadata(&[spec], addr(base), bytes) {
        rep.inconclusive("could not map the pin-bit side metadata");
        return (0, 0);
    }
    let threads = threads.min(8 / stride_words);
    let obj = |cell: usize, x: usize| objref(base + cell * cell_bytes + x * stride_words * 8);
    let mut ops = 0u64;
    let mut spurious = 0u64;
    let results: Vec<Mutex<Vec<u8>>> = (0..threads).map(|_| Mutex::new(vec![])).collect();
    for round in 0..rounds {
        for c in 0..n {
            for x in 0..threads {
                pin.store_atomic::<SideVM, u8>(obj(c, x), 0, None, SC);
            }
        }
        let gate: Vec<AtomicU32> = (0..n).map(|_| AtomicU32::new(0)).collect();
        let skew: Vec<u32> = (0..threads).map(|_| rng.below(40) as u32).collect();
        std::thread::scope(|s| {
            for x in 0..threads {
                let (gate, skew, results) = (&gate, &skew, &results);
                s.spawn(move || {
                    let mut out = vec![0u8; n];
                    for c in 0..n {
                        gate[c].fetch_add(1, Ordering::AcqRel);
                        let mut spins = 0;
                        while (gate[c].load(Ordering::Acquire) as usize) < threads && spins < 2_000_000 {
                            std::hint::spin_loop();
                            spins += 1;
                            if spins % 512 == 0 {
                                std::thread::yield_now();
                            }
                        }
                        for _ in 0..skew[x] {
                            std::hint::spin_loop();
                        }
                        let o = obj(c, x);
                        let p = pin.pin_object::<SideVM>(o);
                        let pinned = pin.load_atomic::<SideVM, u8>(o, None, SC);
                        let u = pin.unpin_object::<SideVM>(o);
                        let after = pin.load_atomic::<SideVM, u8>(o, None, SC);
                        out[c] = (p as u8) | (pinned << 1) | ((u as u8) << 2) | (after << 3);
                    }
                    *results[x].lock().unwrap() = out;
                });
            }
        });
        for x in 0..threads {
            let out = results[x].lock().unwrap();
            for c in 0..n {
                ops += 2;
                let (p, pinned, u, after) = (out[c] & 1, (out[c] >> 1) & 1, (out[c] >> 2) & 1, (out[c] >> 3) & 1);
                let o = obj(c, x).to_raw_address().as_usize();
                let others: Vec<String> = (0..threads).filter(|&y| y != x).map(|y| format!("{:#x}", obj(c, y).to_raw_address().as_usize())).collect();
                if p == 0 {
                    spurious += 1;
                    rep.violation(
                        "pin:pin_object:side:sole-pinner-got-false:neighbour-bit-in-same-byte-changed",
                        format!(
                            "seed={} round={} threads={} objects {} bytes apart: thread {} is the only thread that ever touches object {:#x}; its pin bit was 0; pin_object returned false and the object is {} afterwards.  Concurrently the other threads called pin_object/unpin_object on their own objects {:?}, whose pin bits live in the same side-metadata byte {:#x}",
                            seed, round, threads, stride_words * 8, x, o,
                            if pinned == 1 { "pinned" } else { "NOT pinned" },
                            others, mv::address_to_meta_address(&spec, addr(o)).as_usize()
                        ),
                    );
                }
                if p == 1 && u == 0 {
                    spurious += 1;
                    rep.violation(
                        "pin:unpin_object:side:sole-unpinner-got-false:neighbour-bit-in-same-byte-changed",
                        format!(
                            "seed={} round={} threads={} objects {} bytes apart: thread {} pinned object {:#x} (pin_object returned true) and is the only thread that touches it; unpin_object returned false and the object is {} afterwards.  Concurrently the other threads called pin_object/unpin_object on their own objects {:?} sharing the side-metadata byte {:#x}",
                            seed, round, threads, stride_words * 8, x, o,
                            if after == 1 { "still pinned" } else { "unpinned" },
                            others, mv::address_to_meta_address(&spec, addr(o)).as_usize()
                        ),
                    );
                }
            }
        }
        rep.eval(mix(0x51DE, mix(threads as u64, stride_words as u64)));
    }
    (ops, spurious)
}

/// Header flavour: thread 0 is the only pinner of object X; thread 1 marks X (`test_and_mark`),
/// thread 2 logs X through the object barrier.  Mark, pin and log bit share one header byte.
fn pin_case_header<VM: VMBinding<VMSlot = SimpleSlot>>(rep: &mut Report, rng: &mut Rng, seed: u64, rounds: u64, n: usize) -> (u64, u64) {
    let Some(arena) = Arena::new((n * HDR_STRIDE + 8192 + 4095) & !4095) else {
        rep.inconclusive("could not map object memory");
        return (0, 0);
    };
    let obj = |c: usize| objref(arena.p + 4096 + c * HDR_STRIDE + HDR_OBJ_OFF);
    let pin = &VM::VMObjectModel::LOCAL_PINNING_BIT_SPEC;
    let (pin_off, mark_off, log_off) = match (spec_of::<VM>(Sk::Pin), spec_of::<VM>(Sk::Mark), spec_of::<VM>(Sk::Log)) {
        (MetadataSpec::InHeader(p), MetadataSpec::InHeader(m), MetadataSpec::InHeader(l)) => (p.bit_offset, m.bit_offset, l.bit_offset),
        _ => unreachable!(),
    };
    let mut ops = 0u64;
    let mut spurious = 0u64;
    let ms = mv::MarkState::new();
    let res: Mutex<Vec<u8>> = Mutex::new(vec![]);
    for round in 0..rounds {
        for c in 0..n {
            let o = obj(c);
            pin.store_atomic::<VM, u8>(o, 0, None, SC);
            VM::VMObjectModel::LOCAL_MARK_BIT_SPEC.store_atomic::<VM, u8>(o, 0, None, SC);
            VM::VMObjectModel::GLOBAL_LOG_BIT_SPEC.mark_as_unlogged::<VM>(o, SC);
        }
        let gate: Vec<AtomicU32> = (0..n).map(|_| AtomicU32::new(0)).collect();
        let skew: Vec<u32> = (0..3).map(|_| rng.below(40) as u32).collect();
        std::thread::scope(|s| {
            for x in 0..3usize {
                let (gate, skew, res, ms) = (&gate, &skew, &res, &ms);
                s.spawn(move || {
                    let cnt = Arc::new(AtomicU64::new(0));
                    let mut bar = mv::ObjectBarrier::new(CountSem::<VM> { n: cnt.clone(), _p: std::marker::PhantomData });
                    let mut out = vec![0u8; n];
                    for c in 0..n {
                        gate[c].fetch_add(1, Ordering::AcqRel);
                        let mut spins = 0;
                        while gate[c].load(Ordering::Acquire) < 3 && spins < 2_000_000 {
                            std::hint::spin_loop();
                            spins += 1;
                            if spins % 512 == 0 {
                                std::thread::yield_now();
                            }
                        }
                        for _ in 0..skew[x] {
                            std::hint::spin_loop();
                        }
                        let o = obj(c);
                        match x {
                            0 => {
                                let p = pin.pin_object::<VM>(o);
                                let pinned = pin.load_atomic::<VM, u8>(o, None, SC);
                                out[c] = p as u8 | (pinned << 1);
                            }
                            1 => {
                                ms.test_and_mark::<VM>(o);
                            }
                            _ => {
                                bar.object_reference_write_post(o, SimpleSlot::from_address(o.to_raw_address()), None);
                            }
                        }
                    }
                    if x == 0 {
                        *res.lock().unwrap() = out;
                    }
                });
            }
        });
        let out = res.lock().unwrap();
        for c in 0..n {
            ops += 1;
            if out[c] & 1 == 0 {
                spurious += 1;
                rep.violation(
                    "pin:pin_object:header:sole-pinner-got-false:other-bit-in-same-header-byte-changed",
                    format!(
                        "seed={} round={} object {:#x} (pin bit at header bit {}, mark bit at {}, log bit at {}): thread 0 is the only thread that pins it, its pin bit was 0; pin_object returned false and the object is {} afterwards.  Concurrently thread 1 called MarkState::test_and_mark and thread 2 the object barrier (log_object) on the same object",
                        seed, round, obj(c).to_raw_address().as_usize(), pin_off, mark_off, log_off,
                        if out[c] & 2 != 0 { "pinned" } else { "NOT pinned" }
                    ),
                );
            }
        }
        rep.eval(mix(0x51DF, pin_off as u64));
    }
    (ops, spurious)
}

fn pin_neighbour_case(args: &Args, rep: &mut Report, rng: &mut Rng) {
    let seed = args.seed();
    let rounds = if args.thorough() { 400 } else { 40 };
    let mut ops = 0;
    let mut spurious = 0;
    for (threads, stride_words) in [(2usize, 1usize), (2, 2), (4, 2), (8, 1), (2, 4)] {
        let (o, s) = pin_case_side(rep, rng, seed, threads, stride_words, rounds, 512);
        ops += o;
        spurious += s;
    }
    rep.count("pin_case_side_ops", ops);
    rep.count("pin_case_side_spurious_false", spurious);
    let (o1, s1) = pin_case_header::<H0>(rep, rng, seed, rounds, 512);
    let (o2, s2) = pin_case_header::<H6>(rep, rng, seed, rounds, 512);
    let (o3, s3) = pin_case_header::<HN5>(rep, rng, seed, rounds, 512);
    rep.count("pin_case_header_ops", o1 + o2 + o3);
    rep.count("pin_case_header_spurious_false", s1 + s2 + s3);
    rep.note("pin-neighbour case: every pin_object/unpin_object call is made by the only thread that ever touches that object's pin bit, so the documented result ('true if the object status changed from non-pinned to pinned') must be true; neighbours are other objects' pin bits in the same side-metadata byte (objects 8/16/32 bytes apart) resp. the mark and log bit of the same object in the same header byte, changed by their own real transition functions");
}


/// `CompressorSpace::test_and_mark` (a `fetch_update` on the 1-bit-per-word Compressor mark bitmap)
/// raced by several threads: exactly one racer per object may see the 0->1 transition as its own,
/// while the marks of the seven other words of the same metadata byte are being set concurrently
/// (every thread walks all objects, in different orders), and the bit must end up set.
fn compressor_mark_race(seed: u64, rounds: u64, maxt: usize, rep: &mut Report, hb: &Heartbeat) {
    let mark = mv::compressor::specs()[0];
    const N: usize = 512;
    let base = data_range(N * 8);
    if !mv::map_side_metadata(&[mark], addr(base), (N * 8 + 4095) & !4095) {
        rep.inconclusive("could not map the Compressor mark bitmap for a data range");
        return;
    }
    let sig = "trans:CompressorSpace::test_and_mark[0->1]:side:mark-bitmap";
    let mut rng = Rng::new(mix(seed, 0xC0_18));
    let wins: Vec<AtomicU32> = (0..N).map(|_| AtomicU32::new(0)).collect();
    let wins_r = &wins;
    let (mut objects, mut contended) = (0u64, 0u64);
    for round in 0..rounds * 40 {
        let threads = [2usize, 4, 8, 3][(round % 4) as usize].min(maxt);
        for (i, w) in wins.iter().enumerate() {
            w.store(0, SC);
            mark.store_atomic::<u8>(addr(base + i * 8), 0, SC);
        }
        let gate = ThreadBarrier::new(threads);
        let gate_r = &gate;
        let rseed = rng.next();
        hb.enter(sig, || format!("seed={} round={}: a racer does not return from test_and_mark", seed, round));
        let lost_per_thread: Vec<u64> = std::thread::scope(|s| {
            let hs: Vec<_> = (0..threads)
                .map(|t| {
                    s.spawn(move || {
                        // orders: forwards, backwards, and rotations, so that different threads hit
                        // the same object and neighbouring bits of one byte at the same time
                        let rot = (mix(rseed, t as u64) as usize) % 8;
                        let mut lost = 0u64;
                        gate_r.wait();
                        for k in 0..N {
                            let i = match t % 3 {
                                0 => k,
                                1 => N - 1 - k,
                                _ => (k / 8) * 8 + (k + rot) % 8,
                            };
                            if mv::compressor::test_and_mark::<SideVM>(objref(base + i * 8)) {
                                wins_r[i].fetch_add(1, SC);
                            } else {
                                lost += 1;
                            }
                        }
                        lost
                    })
                })
                .collect();
            hs.into_iter().map(|h| h.join().unwrap_or(0)).collect()
        });
        hb.leave();
        for i in 0..N {
            let w = wins[i].load(SC);
            let bit = mark.load_atomic::<u8>(addr(base + i * 8), SC);
            objects += 1;
            if w != 1 || bit != 1 {
                rep.violation(
                    format!("{}:{}", sig, if w == 0 { "no-thread-got-true" } else if w > 1 { "several-threads-got-true" } else { "final-state-not-marked" }),
                    format!("seed={} round={} {} racers: object {:#x} (word {} of its metadata byte): {} racers observed the transition as their own, final mark bit {}", seed, round, threads, base + i * 8, i % 8, w, bit),
                );
                return;
            }
        }
        contended += lost_per_thread.iter().sum::<u64>();
        rep.eval(mix(hs(sig), threads as u64));
    }
    rep.count("compressor_mark_objects_raced", objects);
    rep.count("compressor_mark_attempts_lost", contended);
}

pub fn run(args: &Args, rep: &mut Report) {
    let seed = args.seed();
    let mut rng = Rng::new(seed ^ 0xC18);
    let thorough = args.thorough();
    let case = args.str_or("case", "main");
    if catch_unwind(|| mv::initialize_side_metadata::<SideVM>()).is_err() {
        rep.inconclusive("initialize_side_metadata panicked (could not reserve the side metadata range)");
        return;
    }
    if case == "pin-neighbour" {
        pin_neighbour_case(args, rep, &mut rng);
        return;
    }
    let ncpu = std::thread::available_parallelism().map(|n| n.get()).unwrap_or(2);
    let maxt = ncpu.min(8).max(2);
    let only = args.get("only").map(|s| s.to_string());

    run_with_watchdog(rep, |rep, hb| {
        hb.enter("trans:selftest", || "self-test mutants".into());
        selftest(seed, &mut rng, rep, hb);
        hb.leave();
        if case == "selftest" {
            return;
        }
        let n = 256;
        let rounds: u64 = args.u64_or("rounds", if thorough { 80 } else { 5 });
        let mut targets: Vec<Box<dyn Target>> = vec![];
        let mut errs = vec![];
        vm_targets::<SideVM>(n, &mut targets, &mut errs);
        vm_targets::<H0>(n, &mut targets, &mut errs);
        vm_targets::<H1>(n, &mut targets, &mut errs);
        vm_targets::<H2>(n, &mut targets, &mut errs);
        vm_targets::<H3>(n, &mut targets, &mut errs);
        vm_targets::<H4>(n, &mut targets, &mut errs);
        vm_targets::<H5>(n, &mut targets, &mut errs);
        vm_targets::<H6>(n, &mut targets, &mut errs);
        vm_targets::<H7>(n, &mut targets, &mut errs);
        vm_targets::<HN0>(n, &mut targets, &mut errs);
        vm_targets::<HN5>(n, &mut targets, &mut errs);
        // raw loop on run-time specs: side widths 1..64 bits
        for lb in 0..=6 {
            match RawTarget::new_side(lb, n) {
                Ok(t) => targets.push(Box::new(t)),
                Err(e) => errs.push(e),
            }
        }
        // header: every 1..7-bit field inside byte 0, a sample in byte -1 and byte 3; 8/16/32/64-bit fields
        for bits in 1..=7usize {
            for off in 0..=(8 - bits) as isize {
                for base in [0isize, -8, 24] {
                    if base != 0 && (off as usize + bits) % 3 != 0 {
                        continue;
                    }
                    match RawTarget::new_header(base + off, bits, n) {
                        Ok(t) => targets.push(Box::new(t)),
                        Err(e) => errs.push(e),
                    }
                }
            }
        }
        for (bits, offs) in [(8usize, vec![0isize, 8, -8, 56]), (16, vec![0, 16, -16]), (32, vec![0, 32, -32]), (64, vec![0, 64, -64])] {
            for off in offs {
                match RawTarget::new_header(off, bits, n) {
                    Ok(t) => targets.push(Box::new(t)),
                    Err(e) => errs.push(e),
                }
            }
        }
        for e in errs {
            rep.inconclusive(e);
        }
        rep.count("targets", targets.len() as u64);
        let mut st = Stats::default();
        let a_cfgs: Vec<usize> = vec![2, 4, 8, 3];
        let b_cfgs: Vec<(usize, usize)> = vec![(2, 2), (4, 4), (3, 5), (6, 2), (2, 6)];
        for (ti, t) in targets.iter().enumerate() {
            if let Some(o) = &only {
                if !t.op_name().contains(o.as_str()) && !t.place().contains(o.as_str()) {
                    continue;
                }
            }
            let sig = format!("trans:{}:{}", t.op_name(), t.place());
            hb.enter(&sig, || format!("seed={}: a racer does not return from the transition function", seed));
            let na = if thorough { a_cfgs.len() } else { 2 };
            for j in 0..na {
                let k = a_cfgs[(ti + j) % a_cfgs.len()].min(maxt);
                run_config(&**t, k, 0, rounds, seed, &mut rng, rep, &mut st, hb, false);
            }
            if retries(&**t) && t.nfields() > 0 {
                let nb = if thorough { b_cfgs.len() } else { 2 };
                for j in 0..nb {
                    let (k, m) = b_cfgs[(ti + j) % b_cfgs.len()];
                    let (k, m) = if k + m > maxt { (2.min(maxt - 1), maxt - 2.min(maxt - 1)) } else { (k, m) };
                    run_config(&**t, k, m, rounds, seed, &mut rng, rep, &mut st, hb, false);
                }
            }
            hb.leave();
        }
        if only.is_none() || only.as_deref() == Some("Compressor") {
            compressor_mark_race(seed, rounds, maxt, rep, hb);
        }
        rep.count("configs", st.configs);
        rep.count("objects_raced_a_racers_only", st.objects_a);
        rep.count("objects_raced_b_with_neighbours", st.objects_b);
        rep.count("neighbour_field_changes_during_races", st.neighbour_steps);
        rep.count("transitions_won_by_racer_0", st.won_by_thread0);
        rep.count("transitions_won_by_another_racer", st.won_by_other);
    });
    rep.note("pin_object/unpin_object run only in sub-workload (a); with a concurrently changing neighbour field they spuriously return false (single byte-wide compare-exchange without retry) -- reproduced separately by `--case pin-neighbour`");
    rep.note("ImmixSpace::attempt_mark and LargeObjectSpace::test_and_mark are the real methods, called on a zero-filled stand-in for the space (attempt_mark reads no field, test_and_mark only in_nursery_gc); ObjectBarrier::log_object is reached through Barrier::object_reference_write_slow / object_reference_write_post with a counting BarrierSemantics");
    rep.note("neighbour fields are changed by their only owner with MetadataSpec::store_atomic (spec fields) or AtomicU8::fetch_xor (header bits owned by the VM, side bits of run-time specs)");
}
